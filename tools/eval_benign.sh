#!/bin/bash
# usage: tools/eval_benign.sh <property id> <dir with patch.diff sanity.py> [seeds...]
# A behaviour-preserving change: the check must stay silent (exit 0) against a scratch copy carrying it.
id=$1; dir=$(readlink -f "$2"); shift 2; seeds=${@:-0 1}
scratch=$(mktemp -d /tmp/eval-benign-XXXXXX)
cp -r /repo/lbry /repo/tests /repo/setup.cfg /repo/setup.py /repo/README.md "$scratch"/ 2>/dev/null
( cd "$scratch" && patch -s -p1 < "$dir/patch.diff" ) || { echo "PATCH-FAILED"; rm -rf "$scratch"; exit 3; }
export PROTOCOL_BUFFERS_PYTHON_IMPLEMENTATION=python
( cd "$dir" && PYTHONPATH=/verif/simverif/shims:"$scratch" timeout 300 /venv/bin/python sanity.py >/dev/null 2>&1 ); with=$?
suite=$(cd "$scratch" && timeout 900 /venv/bin/python -m pytest -q -p no:cacheprovider --timeout=900 --continue-on-collection-errors 2>&1 | tail -1)
echo "sanity with change: exit $with ; suite: $suite"
for s in $seeds; do
  cd /verif && VERIF_SEED=$s VERIF_REPO="$scratch" timeout 3000 ./check "$id" --tier quick 2>&1 | grep -E "VIOLATION|kind=|HARNESS-ERROR|^C[0-9]+ (quick|thorough)" | cut -c1-330 | sed "s/^/[seed=$s] /"
done
rm -rf "$scratch"
