# one add(...) per claimed property; executed by gen_manifest.py
add('C11', 'exploration',
    'Seeded search over operation histories (add / re-add / same-address-new-id / remove / liveness reports / clock advances / queries) on the real TreeRoutingTable with boundary-directed ids resolved against the current buckets and probes answered at scheduler-chosen virtual instants; structural invariants after every operation, exact closest-K against brute force, displacement and admission clauses per add. Sampling, not proof: a clean batch bounds the defect rate by the stated run counts and reach probes.',
    'Trusted: the harness reference (brute-force closest-K, tiling check), the per-address liveness model behind the probe seam, asyncio FIFO ready-queue order (never permuted). Concurrent histories assert structure only.',
    'deterministic simulation: seeded operation/fault histories on a virtual-time loop with invariant + reference-model oracles',
    'DESIGN.md §7 C11')
