# one add(...) per claimed property; executed by gen_manifest.py
add('C11', 'exploration',
    'Seeded search over operation histories (add / re-add / same-address-new-id / remove / liveness reports / clock advances / queries) on the real TreeRoutingTable with boundary-directed ids resolved against the current buckets and probes answered at scheduler-chosen virtual instants; structural invariants after every operation, exact closest-K against brute force, displacement and admission clauses per add. Sampling, not proof: a clean batch bounds the defect rate by the stated run counts and reach probes.',
    'Trusted: the harness reference (brute-force closest-K, tiling check), the per-address liveness model behind the probe seam, asyncio FIFO ready-queue order (never permuted). Concurrent histories assert structure only.',
    'deterministic simulation: seeded operation/fault histories on a virtual-time loop with invariant + reference-model oracles',
    'DESIGN.md §7 C11')
add('C12', 'exploration',
    'Seeded search over whole DHT networks of 2..40 real Nodes on a simulated datagram network: join orders, latency up to 2 s one way, duplication and reordering in the loss-free family (hit until 24 h / miss afterwards, paging with 1..100 announcers), and loss 0..60 %, dead and hostile subsets (25 scripted reply rewrites) in the faulty family (termination within RPC_TIMEOUT x (find requests + 1), validity of every yielded contact/peer). Sampling, not proof.',
    'Trusted: the datagram network model (loss, duplication, reordering, dead nodes; no fragmentation), the finite adversary (fabricated contacts are silent, at most 12 claimed pages), clock jumps standing in for long idle periods in the quick tier. Hit guarantee asserted only in the regime DESIGN.md §7 C12 states.',
    'deterministic simulation: multi-node virtual-time network with seeded delivery schedules, fault injection (loss, dead nodes, clock jumps, hostile replies) and history oracles',
    'DESIGN.md §7 C12')
