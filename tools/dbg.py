#!/usr/bin/env python
"""debug helper: tools/dbg.py <prop> <replay-or-index> [--trace] -> run one scenario in-process and print result"""
import sys, json, os
sys.path.insert(0, os.path.dirname(os.path.dirname(os.path.abspath(__file__))))
from simverif.core import env; env.install()
from simverif.core.worker import run_seed_for
import importlib
pid = sys.argv[1]
p = importlib.import_module(f'simverif.props.{pid.lower()}')
arg = sys.argv[2]
if arg.isdigit():
    idx = int(arg); rs = run_seed_for(int(os.environ.get('VERIF_SEED', 0)), p.ID, idx)
    sc = p.gen(rs, os.environ.get('TIER', 'quick')); sc.update(run_seed=rs, index=idx, hashseed=int(os.environ.get('PYTHONHASHSEED', 0)))
else:
    sc = json.load(open(arg)); sc = sc.get('scenario', sc)
if '--show' in sys.argv:
    print(json.dumps({k: v for k, v in sc.items()}, indent=None, default=str)[:6000])
res = p.execute(sc, keep_trace=True)
print(json.dumps({k: res[k] for k in ('outcome', 'violations', 'probes', 'faults', 'notes', 'steps', 'sim_time')}, indent=1, default=str)[:5000])
if res.get('error'): print(res['error'])
