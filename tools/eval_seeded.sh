#!/bin/bash
# usage: tools/eval_seeded.sh <property id> <dir with patch.diff demo.py> [check args...]
# Builds a scratch copy of /repo's sources with the patch, confirms demo + pinned suite, runs the check against it.
id=$1; dir=$(readlink -f "$2"); shift 2
scratch=$(mktemp -d /tmp/eval-seeded-XXXXXX)
cp -r /repo/lbry /repo/tests /repo/setup.cfg /repo/setup.py /repo/README.md "$scratch"/ 2>/dev/null
( cd "$scratch" && patch -s -p1 < "$dir/patch.diff" ) || { echo "PATCH-FAILED"; rm -rf "$scratch"; exit 3; }
export PROTOCOL_BUFFERS_PYTHON_IMPLEMENTATION=python
( cd "$dir" && PYTHONPATH=/verif/simverif/shims:"$scratch" timeout 300 /venv/bin/python demo.py >/dev/null 2>&1 ); with=$?
( cd "$dir" && PYTHONPATH=/verif/simverif/shims:/repo timeout 300 /venv/bin/python demo.py >/dev/null 2>&1 ); without=$?
suite=$(cd "$scratch" && timeout 900 /venv/bin/python -m pytest -q -p no:cacheprovider --timeout=900 --continue-on-collection-errors 2>&1 | tail -1)
echo "demo with change: exit $with ; on /repo: exit $without ; suite: $suite"
cd /verif && VERIF_REPO="$scratch" timeout 3000 ./check "$id" "$@" 2>&1 | grep -E "VIOLATION|kind=|KNOWN-FINDING|HARNESS-ERROR|^C[0-9]+ (quick|thorough)" | cut -c1-400
rm -rf "$scratch"
