#!/usr/bin/env python3
"""Regenerates /verif/MANIFEST.json from the table below (kept in one place so it stays valid)."""
import json, os, sys
ROOT = os.path.dirname(os.path.dirname(os.path.abspath(__file__)))

NA = {
 'C04': 'pure function of (key, transaction/claim bytes): no schedule, clock, I/O fault, crash point or second party in the statement or the anchored code path; deterministic simulation has nothing to decide (DESIGN.md §8)',
 'C05': 'pure (de)serialisation of a transaction; no concurrency, time, I/O or multi-party behaviour to simulate (DESIGN.md §8)',
 'C06': 'pure arithmetic/encoding (BIP32, Base58Check, mnemonic); determinism of a pure derivation is not a durability or scheduling question (DESIGN.md §8)',
 'C15': 'pure generate/parse inverse of script templates; no nondeterminism or fault surface (DESIGN.md §8)',
 'C16': 'pure encode/decode of claim metadata and URLs; no nondeterminism or fault surface (DESIGN.md §8)',
 'C20': 'pure string/integer arithmetic; no nondeterminism or fault surface (DESIGN.md §8)',
}

CHECKS = {}

def add(pid, category, text, note, technique, design_ref):
    CHECKS[pid] = dict(category=category, text=text, note=note, technique=technique, design_ref=design_ref)

exec(open(os.path.join(ROOT, 'tools', 'manifest_checks.py')).read())

PENDING_REASON = 'check under construction in this session (harness not yet committed); see DESIGN.md §7 for the design'
ALL = ['C%02d' % i for i in range(1, 21)]

manifest = {
 'version': 1,
 'setup_cmd': './check setup',
 'hooks': {
  'guard': 'LBRYIO_LBRY_SDK_VERIF',
  'enable': 'no hook exists in /repo: every seam is a loop method, a module attribute or constructor injection applied by the harness process (DESIGN.md §9); checks import /repo sources directly from the working tree',
  'baseline_off_cmd': 'cd /repo && /venv/bin/python -m pytest -ra -q -p no:cacheprovider --timeout=900 --continue-on-collection-errors',
  'source_commits': [],
  'add_only': True,
 },
 'engines': [{
  'name': 'simverif',
  'path': 'simverif/',
  'serves_properties': sorted(CHECKS),
  'kind_free_text': 'deterministic simulation with fault injection: virtual-time asyncio loop (SimLoop), inline seeded executor, simulated datagram/stream networks, SimFS, crash/restart incarnations, seeded per-site PRNG streams, JSON scenarios, ddmin minimiser, fresh-process replay',
 }],
 'checks': [],
 'not_applicable': [],
 'notes': 'Exit codes: 0 held, 1 violation (VIOLATION line + replay file), 2 harness error. VERIF_SEED selects the base seed; VERIF_TIER is honoured when --tier is absent. known_findings.json lists genuine defects (status known/fixed).',
}
sys.path.insert(0, ROOT)
import importlib


def current(pid):
    """RULE / ASSUMPTIONS as the check itself declares them today (the table above is prose written once)."""
    m = importlib.import_module('simverif.props.' + pid.lower())
    return ' '.join(str(m.RULE).split()), '; '.join(' '.join(str(a).split()) for a in m.ASSUMPTIONS)


for pid in ALL:
    if pid in CHECKS:
        c = dict(CHECKS[pid])
        rule, assumptions = current(pid)
        c['text'] = c['text'] + ' || Exploration rule as declared by the check today: ' + rule
        c['note'] = c['note'] + ' || Assumptions as declared by the check today: ' + assumptions
        manifest['checks'].append({
            'property_id': pid,
            'quick_cmd': f'./check {pid} --tier quick',
            'thorough_cmd': f'./check {pid} --tier thorough',
            'evidence_file': f'evidence/{pid}.json',
            'replay_cmd_template': f'./check {pid} --replay {{path}}',
            'engine': 'simverif',
            'level_claimed': {'category': c['category'], 'text': c['text'], 'design_ref': c['design_ref']},
            'level_note': c['note'],
            'technique': c['technique'],
        })
    elif pid in NA:
        manifest['not_applicable'].append({'property_id': pid, 'reason': NA[pid]})
    else:
        manifest['not_applicable'].append({'property_id': pid, 'reason': PENDING_REASON})
json.dump(manifest, open(os.path.join(ROOT, 'MANIFEST.json'), 'w'), indent=1)
print('checks:', sorted(CHECKS), 'n/a:', [x['property_id'] for x in manifest['not_applicable']])
