#!/bin/bash
# usage: tools/run_all.sh <seed> [tier]  -> runs every claimed check, prints summary + alarm lines
cd "$(dirname "$(readlink -f "$0")")/.." || exit 2
seed=${1:-0}; tier=${2:-quick}
for id in $(/venv/bin/python -c "import json; print(' '.join(c['property_id'] for c in json.load(open('MANIFEST.json'))['checks']))"); do
  VERIF_SEED=$seed timeout 3600 ./check $id --tier $tier 2>&1 | grep -E "VIOLATION|KNOWN-FINDING|HARNESS-ERROR|^C[0-9]+ (quick|thorough)" | sed "s/^/[seed=$seed] /"
done
