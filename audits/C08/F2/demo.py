"""
C08 / F2 - on a network without checkpoints (regtest / testnet / simnet) an aligned headers file is never
link-checked below height 999 when it is opened, so a torn rewrite of the file is served as the validated chain.

Headers.open() repairs "any incomplete write on tip from previous runs" with
    repair(start_height=max(self.checkpoints.keys() or [-1]) + 1000)
which for checkpoints == {} is repair(start_height=999): with fewer than 1000 headers nothing at all is checked
(with more, nothing below 999).  The unaligned path was already given "if self.checkpoints else 0".

History:
  session 1: wallet syncs branch A (heights 0..99), clean shutdown -> file = A0..A99 (11200 bytes)
  session 2: the server reorganised to branch B (forks after height 30, same length).  The wallet follows it
             (B31..B99 validated and connected) and shuts down: Headers.close() rewrites the file in place,
             buffered, without fsync.
  FAULT    : power is lost while that rewrite is in the page cache; only the first 4 KiB page reached the disk.
             (legal: nothing orders or syncs the pages; file size is unchanged, so the size stays aligned)
             disk = B-file[:4096] + A-file[4096:]  ->  B0..B35, header 36 half B / half A, A37..A99
  session 3: open() accepts the file as is.  The "local chain" is not a chain (37 does not link to 36, 36 is
             a chimera), yet a transaction of abandoned block A50 is recorded verified at height 50 and the
             genuine proof of a transaction of the real block B50 is rejected.

The harness replaces the network (scripted honest server) and produces the post-power-loss disk image.
exit 1 = property violated, exit 0 = holds
"""
import os, sys, asyncio, tempfile, shutil, logging
from binascii import hexlify
import lbry.wallet  # noqa (before lbry.conf)
from lbry.wallet import Ledger, Database, Headers, Transaction, Output, Input
from lbry.wallet.header import UnvalidatedHeaders
from lbry.wallet.constants import COIN
from lbry.wallet.stream import StreamController
from lbry.crypto.hash import double_sha256

logging.disable(logging.CRITICAL)


def make_tx(n):
    src = Transaction().add_outputs([Output.pay_pubkey_hash(COIN, bytes([(n >> 8) % 256]) * 20)]).outputs[0]
    tx = Transaction().add_inputs([Input.spend(src)]).add_outputs(
        [Output.pay_pubkey_hash(COIN + n, bytes([n % 256]) * 20)])
    return tx.raw


def merkle(hashes, index):
    branch, level, idx = [], list(hashes), index
    while len(level) > 1:
        if len(level) % 2:
            level.append(level[-1])
        branch.append(level[idx ^ 1])
        idx >>= 1
        level = [double_sha256(level[i] + level[i + 1]) for i in range(0, len(level), 2)]
    return level[0], branch


def proof_for(raws, index):
    root, branch = merkle([double_sha256(r) for r in raws], index)
    return hexlify(root[::-1]), {'merkle': [hexlify(b[::-1]).decode() for b in branch], 'pos': index}


def build_chain(prev_hex, roots, nonce):
    out = []
    for i, root in enumerate(roots):
        raw = Headers.serialize({
            'version': 1, 'prev_block_hash': prev_hex, 'merkle_root': root, 'claim_trie_root': b'00' * 32,
            'timestamp': 1600000000 + i, 'bits': 0x207fffff, 'nonce': nonce})
        out.append(raw)
        prev_hex = Headers.hash_header(raw)
    return out


N = 100
blocks_a = {h: [make_tx(1000 + h * 8 + i) for i in range(3)] for h in range(N)}
chain_a = build_chain(b'00' * 32, [proof_for(blocks_a[h], 0)[0] for h in range(N)], nonce=1)
blocks_b = {h: [make_tx(40000 + h * 8 + i) for i in range(3)] for h in range(31, N)}
chain_b = chain_a[:31] + build_chain(
    Headers.hash_header(chain_a[30]), [proof_for(blocks_b[h], 0)[0] for h in range(31, N)], nonce=2)


class SimHeaders(UnvalidatedHeaders):   # what RegTestLedger uses; links are validated, difficulty is not
    genesis_hash = Headers.hash_header(chain_a[0])
    checkpoints = {}


class SimLedger(Ledger):
    network_name = 'simnet'
    headers_class = SimHeaders
    checkpoints = {}
    genesis_hash = SimHeaders.genesis_hash.decode()


class Server:
    def __init__(self):
        self.chain = []
        self.on_header = StreamController().stream
        self.on_status = StreamController().stream
        self.is_connected = True

    def retriable_call(self, function, *args, **kwargs):
        return function(*args, **kwargs)

    async def get_headers(self, height, count=10000, b64=False):
        part = self.chain[height:height + count]
        return {'hex': hexlify(b''.join(part)).decode(), 'count': len(part)}


async def session(data_path, server):
    ledger = SimLedger({'data_path': data_path, 'db': Database(':memory:'), 'network': server})
    os.makedirs(ledger.path, exist_ok=True)
    await ledger.db.open()
    await ledger.headers.open()
    return ledger


async def end_session(ledger):
    await ledger.db.close()
    await ledger.headers.close()


async def main():
    data_path = tempfile.mkdtemp()
    try:
        server = Server()
        # session 1
        server.chain = chain_a
        ledger = await session(data_path, server)
        await ledger.update_headers()
        assert len(ledger.headers) == N
        headers_file = ledger.headers.path
        await end_session(ledger)
        disk_before = open(headers_file, 'rb').read()
        assert disk_before == b''.join(chain_a)

        # session 2: follow the reorganisation to branch B
        server.chain = chain_b
        ledger = await session(data_path, server)
        await ledger.receive_header([{'height': N - 1, 'hex': hexlify(chain_b[N - 1]).decode()}])
        assert len(ledger.headers) == N and ledger.headers._read(0, N) == b''.join(chain_b)
        await end_session(ledger)
        rewrite = open(headers_file, 'rb').read()
        assert rewrite == b''.join(chain_b)

        # FAULT: power loss during the in-place rewrite, only the first 4 KiB page made it to the disk
        with open(headers_file, 'wb') as f:
            f.write(rewrite[:4096] + disk_before[4096:])
        assert os.path.getsize(headers_file) == N * 112

        # session 3
        ledger = await session(data_path, server)
        opened_with = len(ledger.headers)
        await ledger.update_headers()     # honest server on B: nothing above height 99
        headers = ledger.headers
        problems = []
        broken = []
        for h in range(1, len(headers)):
            if (await headers.get(h))['prev_block_hash'] != headers.hash_header(await headers.get_raw_header(h - 1)):
                broken.append(h)
        if broken:
            problems.append(f"open() serves a header file that is not a chain: headers {broken} do not link to "
                            f"their predecessor (file has {len(headers)} headers)")
        if len(headers) > 50:
            tx = Transaction(blocks_a[50][2])
            await ledger.maybe_verify_transaction(tx, 50, dict(proof_for(blocks_a[50], 2)[1]))
            if tx.is_verified:
                problems.append(f"transaction {tx.id[:16]}.. of abandoned block A50 is recorded VERIFIED at height 50 "
                                f"(the chain the wallet validated has B50 there)")
            tx = Transaction(blocks_b[50][2])
            await ledger.maybe_verify_transaction(tx, 50, dict(proof_for(blocks_b[50], 2)[1]))
            if not tx.is_verified:
                problems.append(f"genuine proof of transaction {tx.id[:16]}.. of block B50 (the server's and the "
                                f"wallet's validated chain) is REJECTED")
        await end_session(ledger)
        if problems:
            print("C08 VIOLATED:")
            for p in problems:
                print("  -", p)
            return 1
        print(f"ok: open() kept the {opened_with} linked headers of the file and the rest was synced again; nothing is "
              f"verified against a header that is not on the local chain")
        return 0
    finally:
        shutil.rmtree(data_path, ignore_errors=True)


sys.exit(asyncio.run(main()))
