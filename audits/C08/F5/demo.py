"""
C08 / F5 - the wallet database keeps a transaction "verified at height h" after the header at height h was replaced.

update_headers() reacts to a reorganisation by clearing the in-memory tx cache and calling
Database.rewind_blockchain(), which is an empty stub ("TODO") - and in the direct-replacement path (a competing
tip of the same height connects at once, no rewind round) it is not even called.  Rows of table tx keep
is_verified = 1 with the old height, so everything that reads the database (Ledger.get_transactions, txo lists,
WalletManager.get_transaction -> transaction_show, which returns the stored row without asking anyone) goes on
reporting the transaction as verified at a height whose local header has a different Merkle root.

History (honest server, nothing faulted):
  1. chain A0..A10 synced and validated.  The wallet's address receives T in block A10; the address sync fetches T
     with its genuine proof, verifies it against A10 and stores it: is_verified=1, height=10.
  2. the network reorganises the tip: block B10 (same parent A9) replaces A10 and does not contain T.
     The header notification for B10 is processed by the real receive_header(): header 10 is now B10.
  3. the address notification that follows (history of the address is empty again) is processed by the real
     update_history(): it only logs that T is missing remotely.
  => the database still says: T verified at height 10.  Folding T's proof gives A10's root, not the root of the
     header the wallet now holds at 10.  (Variant: a 2-block reorganisation, which goes through the rewind path
     and does call the stub, leaves the same state.)

Only the network object is replaced (scripted honest server).  Real Ledger, Headers, Database (sqlite), Account.
exit 1 = property violated, exit 0 = holds
"""
import os, sys, asyncio, tempfile, shutil, logging
from binascii import hexlify, unhexlify
import lbry.wallet  # noqa (before lbry.conf)
from lbry.wallet import Ledger, Database, Headers, Transaction, Output, Input, Wallet, Account
from lbry.wallet.header import UnvalidatedHeaders
from lbry.wallet.constants import COIN
from lbry.wallet.stream import StreamController
from lbry.crypto.hash import double_sha256, sha256

logging.disable(logging.CRITICAL)


def make_tx(n, pubkey_hash=None):
    src = Transaction().add_outputs([Output.pay_pubkey_hash(COIN, bytes([(n >> 8) % 256]) * 20)]).outputs[0]
    tx = Transaction().add_inputs([Input.spend(src)]).add_outputs(
        [Output.pay_pubkey_hash(COIN + n, pubkey_hash or bytes([n % 256]) * 20)])
    return tx.raw


def merkle(hashes, index):
    branch, level, idx = [], list(hashes), index
    while len(level) > 1:
        if len(level) % 2:
            level.append(level[-1])
        branch.append(level[idx ^ 1])
        idx >>= 1
        level = [double_sha256(level[i] + level[i + 1]) for i in range(0, len(level), 2)]
    return level[0], branch


def proof_for(raws, index):
    root, branch = merkle([double_sha256(r) for r in raws], index)
    return hexlify(root[::-1]), {'merkle': [hexlify(b[::-1]).decode() for b in branch], 'pos': index}


def build_chain(prev_hex, roots, nonce):
    out = []
    for i, root in enumerate(roots):
        raw = Headers.serialize({
            'version': 1, 'prev_block_hash': prev_hex, 'merkle_root': root, 'claim_trie_root': b'00' * 32,
            'timestamp': 1600000000 + i, 'bits': 0x207fffff, 'nonce': nonce})
        out.append(raw)
        prev_hex = Headers.hash_header(raw)
    return out


GENESIS = build_chain(b'00' * 32, [proof_for([make_tx(9999)], 0)[0]], nonce=1)[0]


class SimHeaders(UnvalidatedHeaders):   # what RegTestLedger uses; links are validated, difficulty is not
    genesis_hash = Headers.hash_header(GENESIS)
    checkpoints = {}


class SimLedger(Ledger):
    network_name = 'simnet'
    headers_class = SimHeaders
    checkpoints = {}
    genesis_hash = SimHeaders.genesis_hash.decode()


class Server:
    """scripted honest server: current best chain, address histories and transactions with their proofs"""
    def __init__(self):
        self.chain, self.history, self.blocks = [], {}, {}
        self.on_header = StreamController().stream
        self.on_status = StreamController().stream
        self.is_connected = False     # no subscriptions for freshly generated gap addresses

    def retriable_call(self, function, *args, **kwargs):
        return function(*args, **kwargs)

    async def get_headers(self, height, count=10000, b64=False):
        part = self.chain[height:height + count]
        return {'hex': hexlify(b''.join(part)).decode(), 'count': len(part)}

    async def get_history(self, address):
        return [{'tx_hash': txid, 'height': height} for txid, height in self.history.get(address, [])]

    def status(self, address):
        history = ''.join(f'{txid}:{height}:' for txid, height in self.history.get(address, []))
        return hexlify(sha256(history.encode())).decode() if history else None

    async def get_transaction_batch(self, txids, restricted=True):
        result = {}
        for txid in txids:
            for height, raws in self.blocks.items():
                for index, raw in enumerate(raws):
                    if Transaction(raw).id == txid:
                        merkle_info = proof_for(raws, index)[1]
                        merkle_info['block_height'] = height
                        result[txid] = (hexlify(raw).decode(), merkle_info)
        return result


async def scenario(reorg_depth):
    tip = 10
    ledger = SimLedger({'db': Database(':memory:'), 'headers': SimHeaders(':memory:'), 'network': Server()})
    server = ledger.network
    await ledger.db.open()
    await ledger.headers.open()
    account = Account.generate(ledger, Wallet(), "lbryum")
    address = await account.receiving.get_or_create_usable_address()

    # 1. chain A, the payment T is in its tip block
    payment = make_tx(7, ledger.address_to_hash160(address))
    blocks_a = {h: [make_tx(100 + h * 4 + i) for i in range(3)] for h in range(1, tip + 1)}
    blocks_a[tip] = [blocks_a[tip][0], payment, blocks_a[tip][2]]
    chain_a = [GENESIS] + build_chain(
        SimHeaders.genesis_hash, [proof_for(blocks_a[h], 0)[0] for h in range(1, tip + 1)], nonce=1)
    server.chain, server.blocks = chain_a, blocks_a
    await ledger.update_headers()
    assert len(ledger.headers) == tip + 1
    txid = Transaction(payment).id
    server.history[address] = [(txid, tip)]
    assert await ledger.update_history(address, server.status(address)) is True
    stored = await ledger.db.get_transaction(txid=txid)
    assert stored is not None and stored.is_verified and stored.height == tip, "genuine proof must be accepted"

    # 2. the tip is reorganised away: B replaces the last `reorg_depth` blocks and does not contain T
    fork = tip - reorg_depth + 1
    blocks_b = {h: [make_tx(5000 + h * 4 + i) for i in range(3)] for h in range(fork, tip + 1)}
    chain_b = chain_a[:fork] + build_chain(
        Headers.hash_header(chain_a[fork - 1]), [proof_for(blocks_b[h], 0)[0] for h in range(fork, tip + 1)], nonce=2)
    server.chain = chain_b
    server.blocks = {**{h: blocks_a[h] for h in range(1, fork)}, **blocks_b}
    server.history[address] = []
    await ledger.receive_header([{'height': tip, 'hex': hexlify(chain_b[tip]).decode()}])
    assert ledger.headers._read(0, tip + 1) == b''.join(chain_b), "wallet follows the reorganisation"

    # 3. the address notification that comes with the reorganisation
    await ledger.update_history(address, server.status(address))

    problems = []
    stored = await ledger.db.get_transaction(txid=txid)
    header = await ledger.headers.get(tip)
    proven_root = ledger.get_root_of_merkle_tree(
        proof_for(blocks_a[tip], 1)[1]['merkle'], 1, unhexlify(txid)[::-1])
    if stored is not None and stored.is_verified and stored.height == tip and proven_root != header['merkle_root']:
        problems.append(
            f"{reorg_depth}-block reorganisation: database still records {txid[:16]}.. as VERIFIED at height "
            f"{stored.height}; its proof folds to {proven_root[:16].decode()}.., the local header at {tip} has "
            f"merkle root {header['merkle_root'][:16].decode()}..")
    listed = await ledger.get_transactions(accounts=[account])
    for tx in listed:
        if tx.id == txid and tx.is_verified and proven_root != header['merkle_root']:
            problems.append(f"{reorg_depth}-block reorganisation: Ledger.get_transactions() lists it with "
                            f"is_verified=True, height={tx.height}")
    await ledger.db.close()
    return problems


async def main():
    problems = await scenario(reorg_depth=1)      # competing tip: connects directly, rewind stub not even called
    problems += await scenario(reorg_depth=2)     # rewind path: the stub is called and does nothing
    if problems:
        print("C08 VIOLATED:")
        for p in problems:
            print("  -", p)
        return 1
    print("ok: nothing stays recorded as verified against a replaced header")
    return 0


sys.exit(asyncio.run(main()))
