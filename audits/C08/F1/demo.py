"""
C08 / F1 - headers of an abandoned longer branch come back after a restart (Headers.close() never shortens the file)

History (all legal, honest server, no fault injected):
  session 1: the wallet syncs branch A, heights 0..19, and shuts down cleanly (headers file = 20 headers)
  session 2: the server is on branch B that forks after height 10 and is SHORTER (tip 14); the header
             notification for B14 makes the wallet rewind and connect B11..B14 -> local chain = 15 headers.
             A proof to abandoned block A17 is (correctly) not accepted: the wallet has no header at 17.
             Clean shutdown: Headers.close() writes the 15 headers over the 20-header file WITHOUT truncating it.
  session 3: open(): the file still has 20 headers (B0..B14 + stale A15..A19).  Networks without checkpoints
             (regtest/testnet/simnet) do not link-check anything below height 999 on open, so the stale tail is
             served as part of the local chain: len(headers)==20, and a transaction of the abandoned block A17
             is recorded verified at height 17 - a height the wallet has no validated header for.

Only the outside is replaced: the network object (a scripted honest server).  Real Ledger, Headers, Transaction.
exit 1 = property violated, exit 0 = holds
"""
import os, sys, asyncio, tempfile, shutil, logging
from binascii import hexlify, unhexlify
import lbry.wallet  # noqa (before lbry.conf)
from lbry.wallet import Ledger, Database, Headers, Transaction, Output, Input
from lbry.wallet.header import UnvalidatedHeaders
from lbry.wallet.constants import COIN
from lbry.wallet.stream import StreamController
from lbry.crypto.hash import double_sha256

logging.disable(logging.CRITICAL)


def make_tx(n):
    src = Transaction().add_outputs([Output.pay_pubkey_hash(COIN, bytes([(n >> 8) % 256]) * 20)]).outputs[0]
    tx = Transaction().add_inputs([Input.spend(src)]).add_outputs(
        [Output.pay_pubkey_hash(COIN + n, bytes([n % 256]) * 20)])
    return tx.raw


def merkle(hashes, index):
    branch, level, idx = [], list(hashes), index
    while len(level) > 1:
        if len(level) % 2:
            level.append(level[-1])
        branch.append(level[idx ^ 1])
        idx >>= 1
        level = [double_sha256(level[i] + level[i + 1]) for i in range(0, len(level), 2)]
    return level[0], branch


def proof_for(raws, index):
    root, branch = merkle([double_sha256(r) for r in raws], index)
    return hexlify(root[::-1]), {'merkle': [hexlify(b[::-1]).decode() for b in branch], 'pos': index}


def build_chain(prev_hex, roots, nonce):
    out = []
    for i, root in enumerate(roots):
        raw = Headers.serialize({
            'version': 1, 'prev_block_hash': prev_hex, 'merkle_root': root, 'claim_trie_root': b'00' * 32,
            'timestamp': 1600000000 + i, 'bits': 0x207fffff, 'nonce': nonce})
        out.append(raw)
        prev_hex = Headers.hash_header(raw)
    return out


BLOCKS_A = {h: [make_tx(1000 + h * 8 + i) for i in range(3)] for h in range(20)}
CHAIN_A = build_chain(b'00' * 32, [proof_for(BLOCKS_A[h], 0)[0] for h in range(20)], nonce=1)


class SimHeaders(UnvalidatedHeaders):   # what RegTestLedger uses; links are validated, difficulty is not
    genesis_hash = Headers.hash_header(CHAIN_A[0])
    checkpoints = {}


class SimLedger(Ledger):
    network_name = 'simnet'
    headers_class = SimHeaders
    checkpoints = {}
    genesis_hash = SimHeaders.genesis_hash.decode()


class Server:
    """scripted honest server: serves whatever chain it is currently on"""
    def __init__(self):
        self.chain = []
        self.on_header = StreamController().stream
        self.on_status = StreamController().stream
        self.is_connected = True

    def retriable_call(self, function, *args, **kwargs):
        return function(*args, **kwargs)

    async def get_headers(self, height, count=10000, b64=False):
        part = self.chain[height:height + count]
        return {'hex': hexlify(b''.join(part)).decode(), 'count': len(part)}

    async def get_merkle(self, txid, height):
        raise AssertionError("not used")


async def session(data_path, server):
    ledger = SimLedger({'data_path': data_path, 'db': Database(':memory:'), 'network': server})
    os.makedirs(ledger.path, exist_ok=True)
    await ledger.db.open()
    await ledger.headers.open()
    return ledger


async def end_session(ledger):
    await ledger.db.close()
    await ledger.headers.close()


async def main():
    data_path = tempfile.mkdtemp()
    try:
        blocks_a, chain_a = BLOCKS_A, CHAIN_A
        blocks_b = {h: [make_tx(9000 + h * 8 + i) for i in range(3)] for h in range(11, 15)}
        chain_b = chain_a[:11] + build_chain(
            Headers.hash_header(chain_a[10]), [proof_for(blocks_b[h], 0)[0] for h in range(11, 15)], nonce=2)
        server = Server()

        # session 1: sync branch A (20 headers), clean shutdown
        server.chain = chain_a
        ledger = await session(data_path, server)
        await ledger.update_headers()
        assert len(ledger.headers) == 20
        await end_session(ledger)

        # session 2: server is on the shorter branch B; notification of its tip B14
        server.chain = chain_b
        ledger = await session(data_path, server)
        assert len(ledger.headers) == 20
        await ledger.receive_header([{'height': 14, 'hex': hexlify(chain_b[14]).decode()}])
        assert len(ledger.headers) == 15, len(ledger.headers)
        assert await ledger.headers.get_raw_header(14) == chain_b[14]
        _, proof_a17 = proof_for(blocks_a[17], 1)
        tx = Transaction(blocks_a[17][1])
        await ledger.maybe_verify_transaction(tx, 17, dict(proof_a17))
        assert not tx.is_verified, "session 2 must not verify at a height above its tip"
        await end_session(ledger)

        # session 3: restart
        ledger = await session(data_path, server)
        await ledger.update_headers()           # honest server on B has nothing above height 14
        problems = []
        if len(ledger.headers) != 15:
            problems.append(
                f"after the restart the wallet has {len(ledger.headers)} headers, the chain it validated and "
                f"shut down with had 15 (tip B14)")
        if len(ledger.headers) > 17 and await ledger.headers.get_raw_header(17) == chain_a[17]:
            problems.append("height 17 is served from the abandoned branch A (header does not link to B14)")
        tx = Transaction(blocks_a[17][1])
        await ledger.maybe_verify_transaction(tx, 17, dict(proof_a17))
        if tx.is_verified:
            problems.append(
                f"transaction {tx.id[:16]}.. of abandoned block A17 is recorded VERIFIED at height 17 "
                f"(the same call in session 2, before the restart, left it unverified)")
        await end_session(ledger)
        if problems:
            print("C08 VIOLATED:")
            for p in problems:
                print("  -", p)
            return 1
        print("ok: stale headers of the abandoned branch do not survive the restart")
        return 0
    finally:
        shutil.rmtree(data_path, ignore_errors=True)


sys.exit(asyncio.run(main()))
