"""
C08 / F4 - in a block whose level has an odd number of nodes the last node is paired with a copy of itself; for
the transaction on that edge, flipping the position bit of that level swaps two EQUAL hashes, so the altered
proof folds to the same root.  The wallet accepts it and records a position that names the padding copy - a
leaf slot that holds no transaction of the block (e.g. position 3 in a block of 3 transactions).

A right-hand node that equals its left sibling cannot occur in a block (it would need the same transaction /
subtree twice, CVE-2012-2459 territory), so the verifier can tell: the fix refuses exactly that shape.

Quantifier walked: blocks of 1..64 transactions (heights 1..64 of a chain the real Ledger synced and validated),
every transaction index, genuine proof, then ONE position bit below len(branch) flipped.
Nothing is faulted or scheduled: plain inputs to the real Ledger.maybe_verify_transaction.
exit 1 = property violated, exit 0 = holds
"""
import os, sys, asyncio, tempfile, shutil, logging
from binascii import hexlify
import lbry.wallet  # noqa (before lbry.conf)
from lbry.wallet import Ledger, Database, Headers, Transaction, Output, Input
from lbry.wallet.header import UnvalidatedHeaders
from lbry.wallet.constants import COIN
from lbry.wallet.stream import StreamController
from lbry.crypto.hash import double_sha256

logging.disable(logging.CRITICAL)


def make_tx(n):
    src = Transaction().add_outputs([Output.pay_pubkey_hash(COIN, bytes([(n >> 8) % 256]) * 20)]).outputs[0]
    tx = Transaction().add_inputs([Input.spend(src)]).add_outputs(
        [Output.pay_pubkey_hash(COIN + n, bytes([n % 256]) * 20)])
    return tx.raw


def merkle(hashes, index):
    """textbook bitcoin merkle tree (odd levels padded with a copy of the last node): root and branch of a leaf"""
    branch, level, idx = [], list(hashes), index
    while len(level) > 1:
        if len(level) % 2:
            level.append(level[-1])
        branch.append(level[idx ^ 1])
        idx >>= 1
        level = [double_sha256(level[i] + level[i + 1]) for i in range(0, len(level), 2)]
    return level[0], branch


def proof_for(raws, index):
    root, branch = merkle([double_sha256(r) for r in raws], index)
    return hexlify(root[::-1]), {'merkle': [hexlify(b[::-1]).decode() for b in branch], 'pos': index}


def build_chain(prev_hex, roots, nonce):
    out = []
    for i, root in enumerate(roots):
        raw = Headers.serialize({
            'version': 1, 'prev_block_hash': prev_hex, 'merkle_root': root, 'claim_trie_root': b'00' * 32,
            'timestamp': 1600000000 + i, 'bits': 0x207fffff, 'nonce': nonce})
        out.append(raw)
        prev_hex = Headers.hash_header(raw)
    return out


# block at height n (1..64) holds the first n of 64 distinct transactions; height 0 is a 1-tx genesis block
RAWS = [make_tx(i) for i in range(64)]
BLOCKS = {0: [make_tx(9999)]}
BLOCKS.update({n: RAWS[:n] for n in range(1, 65)})
CHAIN = build_chain(b'00' * 32, [proof_for(BLOCKS[h], 0)[0] for h in range(65)], nonce=1)


class SimHeaders(UnvalidatedHeaders):   # what RegTestLedger uses; links are validated, difficulty is not
    genesis_hash = Headers.hash_header(CHAIN[0])
    checkpoints = {}


class SimLedger(Ledger):
    network_name = 'simnet'
    headers_class = SimHeaders
    checkpoints = {}
    genesis_hash = SimHeaders.genesis_hash.decode()


class Server:
    def __init__(self, chain):
        self.chain = chain
        self.on_header = StreamController().stream
        self.on_status = StreamController().stream
        self.is_connected = True

    def retriable_call(self, function, *args, **kwargs):
        return function(*args, **kwargs)

    async def get_headers(self, height, count=10000, b64=False):
        part = self.chain[height:height + count]
        return {'hex': hexlify(b''.join(part)).decode(), 'count': len(part)}


async def synced_ledger():
    ledger = SimLedger({'db': Database(':memory:'), 'headers': SimHeaders(':memory:'), 'network': Server(CHAIN)})
    await ledger.db.open()
    await ledger.headers.open()
    await ledger.update_headers()      # the real header sync: every header is link-validated by connect()
    assert len(ledger.headers) == 65
    return ledger

async def main():
    ledger = await synced_ledger()
    genuine = accepted = tried = 0
    examples = []
    for n in range(1, 65):
        for index in range(n):
            _, proof = proof_for(BLOCKS[n], index)
            tx = Transaction(BLOCKS[n][index])
            await ledger.maybe_verify_transaction(tx, n, dict(proof))
            assert tx.is_verified and tx.position == index, "genuine proof must be accepted"
            genuine += 1
            for bit in range(len(proof['merkle'])):
                pos = index ^ (1 << bit)
                tried += 1
                tx = Transaction(BLOCKS[n][index])
                try:
                    await ledger.maybe_verify_transaction(tx, n, {'merkle': list(proof['merkle']), 'pos': pos})
                except Exception:      # refusing loudly is also a failed verification
                    continue
                if tx.is_verified:
                    accepted += 1
                    if len(examples) < 5:
                        examples.append(f"block of {n} tx (height {n}), tx index {index}: position bit {bit} flipped "
                                        f"({index} -> {pos}) -> is_verified=True, tx.position={tx.position}"
                                        + (f" (block has no position {pos})" if pos >= n else ""))
    await ledger.db.close()
    print(f"{genuine} genuine proofs accepted; {tried} single in-branch position bit flips tried, "
          f"{accepted} still verified")
    if accepted:
        print("C08 VIOLATED: altering the position does not make verification fail")
        for e in examples:
            print("  -", e)
        return 1
    print("ok: every altered position is rejected")
    return 0


sys.exit(asyncio.run(main()))
