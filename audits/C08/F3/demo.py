"""
C08 / F3 - the position of a proof is only used up to the branch length: any position bit at or above
len(branch) (and the sign) can be altered and the proof still verifies; the altered position is recorded.

Ledger.get_root_of_merkle_tree() reads bit i of the position for branch element i and never looks at the rest,
so pos, pos + 2**len(branch), pos + 2**40, pos - 2**len(branch) (negative) ... all fold to the same root.
maybe_verify_transaction() then stores tx.position = merkle['pos'] and is_verified = True: e.g. the only
transaction of a 1-transaction block (empty branch) is "verified at position 1", "at position 12345", "at -1".

Quantifier walked: blocks of 1..64 transactions (heights 1..64 of a chain the real Ledger synced and validated),
every transaction index, genuine proof, then ONE position bit flipped (bits len(branch) .. len(branch)+7 and
bit 40) or the sign changed.  Every one of these is a single mutation of the position of a genuine proof.
Nothing is faulted or scheduled: plain inputs to the real Ledger.maybe_verify_transaction.
exit 1 = property violated, exit 0 = holds
"""
import os, sys, asyncio, tempfile, shutil, logging
from binascii import hexlify
import lbry.wallet  # noqa (before lbry.conf)
from lbry.wallet import Ledger, Database, Headers, Transaction, Output, Input
from lbry.wallet.header import UnvalidatedHeaders
from lbry.wallet.constants import COIN
from lbry.wallet.stream import StreamController
from lbry.crypto.hash import double_sha256

logging.disable(logging.CRITICAL)


def make_tx(n):
    src = Transaction().add_outputs([Output.pay_pubkey_hash(COIN, bytes([(n >> 8) % 256]) * 20)]).outputs[0]
    tx = Transaction().add_inputs([Input.spend(src)]).add_outputs(
        [Output.pay_pubkey_hash(COIN + n, bytes([n % 256]) * 20)])
    return tx.raw


def merkle(hashes, index):
    """textbook bitcoin merkle tree (odd levels padded with a copy of the last node): root and branch of a leaf"""
    branch, level, idx = [], list(hashes), index
    while len(level) > 1:
        if len(level) % 2:
            level.append(level[-1])
        branch.append(level[idx ^ 1])
        idx >>= 1
        level = [double_sha256(level[i] + level[i + 1]) for i in range(0, len(level), 2)]
    return level[0], branch


def proof_for(raws, index):
    root, branch = merkle([double_sha256(r) for r in raws], index)
    return hexlify(root[::-1]), {'merkle': [hexlify(b[::-1]).decode() for b in branch], 'pos': index}


def build_chain(prev_hex, roots, nonce):
    out = []
    for i, root in enumerate(roots):
        raw = Headers.serialize({
            'version': 1, 'prev_block_hash': prev_hex, 'merkle_root': root, 'claim_trie_root': b'00' * 32,
            'timestamp': 1600000000 + i, 'bits': 0x207fffff, 'nonce': nonce})
        out.append(raw)
        prev_hex = Headers.hash_header(raw)
    return out


# block at height n (1..64) holds the first n of 64 distinct transactions; height 0 is a 1-tx genesis block
RAWS = [make_tx(i) for i in range(64)]
BLOCKS = {0: [make_tx(9999)]}
BLOCKS.update({n: RAWS[:n] for n in range(1, 65)})
CHAIN = build_chain(b'00' * 32, [proof_for(BLOCKS[h], 0)[0] for h in range(65)], nonce=1)


class SimHeaders(UnvalidatedHeaders):   # what RegTestLedger uses; links are validated, difficulty is not
    genesis_hash = Headers.hash_header(CHAIN[0])
    checkpoints = {}


class SimLedger(Ledger):
    network_name = 'simnet'
    headers_class = SimHeaders
    checkpoints = {}
    genesis_hash = SimHeaders.genesis_hash.decode()


class Server:
    def __init__(self, chain):
        self.chain = chain
        self.on_header = StreamController().stream
        self.on_status = StreamController().stream
        self.is_connected = True

    def retriable_call(self, function, *args, **kwargs):
        return function(*args, **kwargs)

    async def get_headers(self, height, count=10000, b64=False):
        part = self.chain[height:height + count]
        return {'hex': hexlify(b''.join(part)).decode(), 'count': len(part)}


async def synced_ledger():
    ledger = SimLedger({'db': Database(':memory:'), 'headers': SimHeaders(':memory:'), 'network': Server(CHAIN)})
    await ledger.db.open()
    await ledger.headers.open()
    await ledger.update_headers()      # the real header sync: every header is link-validated by connect()
    assert len(ledger.headers) == 65
    return ledger

async def main():
    ledger = await synced_ledger()
    genuine = accepted = tried = 0
    examples = []
    for n in range(1, 65):
        for index in range(n):
            _, proof = proof_for(BLOCKS[n], index)
            tx = Transaction(BLOCKS[n][index])
            await ledger.maybe_verify_transaction(tx, n, dict(proof))
            assert tx.is_verified and tx.position == index, "genuine proof must be accepted"
            genuine += 1
            depth = len(proof['merkle'])
            mutated_positions = [index ^ (1 << bit) for bit in list(range(depth, depth + 8)) + [40]]
            mutated_positions.append(index - (1 << depth))      # same low bits, negative
            for pos in mutated_positions:
                tried += 1
                tx = Transaction(BLOCKS[n][index])
                try:
                    await ledger.maybe_verify_transaction(tx, n, {'merkle': list(proof['merkle']), 'pos': pos})
                except Exception:      # refusing loudly is also a failed verification
                    continue
                if tx.is_verified:
                    accepted += 1
                    if len(examples) < 4 or (pos < 0 and len(examples) < 6):
                        examples.append(f"block of {n} tx (height {n}), tx index {index}, branch length {depth}: "
                                        f"position altered to {pos} -> is_verified=True, tx.position={tx.position}")
    await ledger.db.close()
    print(f"{genuine} genuine proofs accepted; {tried} single position mutations tried, {accepted} still verified")
    if accepted:
        print("C08 VIOLATED: altering the position does not make verification fail")
        for e in examples:
            print("  -", e)
        return 1
    print("ok: every altered position is rejected")
    return 0


sys.exit(asyncio.run(main()))
