"""
C01 / F2 - crash point: the daemon dies while the verified bytes are being written (BlobFile._write_blob writes
straight into <blob_dir>/<blob_hash>).  The truncated file keeps the blob's SHA-384 name, and at the next start
BlobManager.setup() / BlobFile.__init__ accept it as a verified blob (length := file size), mark it 'finished' in
the database (=> announced, served) and hand its bytes to readers.  The node never downloads the blob again.

Legal circumstance forced by the harness: the process is killed in the middle of the write.  A child process runs
the real BlobManager + BlobExchangeClientProtocol against an in-memory honest peer; the kernel kills it with SIGXFSZ
when the blob file grows past RLIMIT_FSIZE (= 1 MiB of the 1.5 MiB blob) - i.e. `kill -9` / power loss at that
moment.  Then this (parent) process "restarts the daemon": a new SQLiteStorage + BlobManager on the same database
file and blob directory.  Nothing of lbry is patched.

exit 0: property holds after the restart      exit 1: violation
"""
import asyncio
import hashlib
import json
import logging
import os
import resource
import shutil
import signal
import subprocess
import sys
import tempfile
import warnings

warnings.simplefilter("ignore")
import lbry.wallet  # noqa: E402  (must be imported before lbry.conf)
from lbry.conf import Config  # noqa: E402
from lbry.extras.daemon.storage import SQLiteStorage  # noqa: E402
from lbry.blob.blob_manager import BlobManager  # noqa: E402
from lbry.blob_exchange.client import BlobExchangeClientProtocol  # noqa: E402

logging.disable(logging.CRITICAL)

BLOB_SIZE = 1_500_000
KILL_AT = 1_048_576


def blob_bytes_and_hash():
    data = hashlib.shake_256(b'C01-F2').digest(BLOB_SIZE)   # same bytes in child and parent
    return data, hashlib.sha384(data).hexdigest()


class MemTransport(asyncio.Transport):
    def __init__(self, loop, protocol, peername, peer):
        super().__init__(extra={'peername': peername})
        self.loop, self.protocol, self.peer = loop, protocol, peer
        self._closing = False

    def is_closing(self):
        return self._closing

    def write(self, data):
        if not self._closing:
            self.loop.call_soon(self.peer, self, data)

    def close(self):
        if not self._closing:
            self._closing = True
            self.loop.call_soon(self.protocol.connection_lost, None)

    def deliver(self, data):
        if not self._closing:
            self.protocol.data_received(data)


def honest_peer(blob_hash, blob_bytes, chunk=65536):
    def on_request(transport: MemTransport, request: bytes):
        response = json.dumps({
            'available_blobs': [blob_hash], 'blob_data_payment_rate': 'RATE_ACCEPTED',
            'incoming_blob': {'blob_hash': blob_hash, 'length': len(blob_bytes)}
        }).encode()
        chunks = [response] + [blob_bytes[i:i + chunk] for i in range(0, len(blob_bytes), chunk)]

        def step():
            if chunks:
                transport.deliver(chunks.pop(0))
                transport.loop.call_soon(step)
        transport.loop.call_soon(step)
    return on_request


async def open_node(work_dir):
    loop = asyncio.get_running_loop()
    blob_dir = os.path.join(work_dir, 'blobfiles')
    os.makedirs(blob_dir, exist_ok=True)
    conf = Config(data_dir=work_dir, download_dir=work_dir, wallet_dir=work_dir)
    storage = SQLiteStorage(conf, os.path.join(work_dir, 'lbrynet.sqlite'), loop)
    await storage.open()
    manager = BlobManager(loop, blob_dir, storage, conf)
    await manager.setup()
    return blob_dir, storage, manager


async def child(work_dir):
    """first life of the daemon: downloads the blob and is killed while the file is written"""
    loop = asyncio.get_running_loop()
    blob_dir, storage, manager = await open_node(work_dir)
    data, blob_hash = blob_bytes_and_hash()
    blob = manager.get_blob(blob_hash, BLOB_SIZE)
    protocol = BlobExchangeClientProtocol(loop, peer_timeout=5)
    protocol.connection_made(MemTransport(loop, protocol, ('10.0.0.1', 3333), honest_peer(blob_hash, data)))
    # from now on: a file growing past KILL_AT bytes terminates the process (SIGXFSZ, default action)
    signal.signal(signal.SIGXFSZ, signal.SIG_DFL)
    hard = resource.getrlimit(resource.RLIMIT_FSIZE)[1]
    resource.setrlimit(resource.RLIMIT_FSIZE, (KILL_AT, hard))
    await protocol.download_blob(blob)
    print("child: survived ?!")
    os._exit(7)


async def parent() -> int:
    work_dir = tempfile.mkdtemp(prefix='c01f2-')
    try:
        env = dict(os.environ)
        proc = subprocess.run([sys.executable, os.path.abspath(__file__), 'child', work_dir], env=env, timeout=50)
        if proc.returncode != -signal.SIGXFSZ:
            print(f"harness problem: child was expected to be killed by SIGXFSZ, returncode={proc.returncode}")
            return 2
        data, blob_hash = blob_bytes_and_hash()
        blob_dir = os.path.join(work_dir, 'blobfiles')
        left = sorted(os.listdir(blob_dir))
        print(f"daemon killed during the blob write; blob directory now holds: "
              f"{[(name[:12] + '..' + name[96:], os.path.getsize(os.path.join(blob_dir, name))) for name in left]}")

        # ---- restart
        blob_dir, storage, manager = await open_node(work_dir)
        problems = []
        path = os.path.join(blob_dir, blob_hash)
        if os.path.isfile(path):
            on_disk = open(path, 'rb').read()
            if hashlib.sha384(on_disk).hexdigest() != blob_hash:
                problems.append(f"a file named by the blob hash with {len(on_disk)} of {BLOB_SIZE} bytes sits in the "
                                f"blob directory (sha384 does not match)")
        if manager.is_blob_verified(blob_hash):
            problems.append("after the restart BlobManager.is_blob_verified() is True for it")
        if blob_hash in manager.completed_blob_hashes:
            problems.append("it is in completed_blob_hashes (served to peers)")
        if await storage.get_blob_status(blob_hash) == 'finished':
            problems.append("database status is 'finished' (=> announced to the DHT)")
        blob = manager.get_blob(blob_hash, BLOB_SIZE)      # what a stream download of this blob does
        if blob.get_is_verified():
            with blob.reader_context() as reader:
                got = reader.read()
            if got != data:
                problems.append(f"get_blob(hash, {BLOB_SIZE}) returns a verified blob of length {blob.length}; "
                                f"reader_context() yields {len(got)} bytes != the blob; it will never be "
                                f"downloaded again")
        manager.stop()
        await storage.close()
        if problems:
            print("C01 VIOLATED after a crash in the middle of saving a verified blob:")
            for problem in problems:
                print("  *", problem)
            return 1
        print("ok: after the restart the interrupted blob is not verified / announced / readable")
        return 0
    finally:
        shutil.rmtree(work_dir, ignore_errors=True)


if __name__ == '__main__':
    if len(sys.argv) == 3 and sys.argv[1] == 'child':
        asyncio.run(child(sys.argv[2]))
    else:
        sys.exit(asyncio.run(parent()))
