"""
C01 / F3 - converse clause ("as soon as any one writer has delivered a complete correct copy, the blob does become
verified"): one peer that announces a wrong length for a blob of unknown length (sd blob, `blob get`) still makes
the blob permanently undownloadable from honest peers.  Commit 1774bbd forgets a peer-supplied length only if the
failing request itself started while the length was unknown AND no other writer is open at that moment.  Schedule
that slips through:

   t=0.00  request to the liar starts (length unknown)          -> liar answers  "length": 1000  (true: 300000)
   t=0.10  request to the honest peer starts; blob.length is already 1000, so for this request the length
           "was known"; its writer is open, its response is still in flight
   t=0.15  the liar drops the connection -> its request fails, but the honest writer is open -> length NOT forgotten
   t=0.20  honest response: length 300000 != 1000 -> "unexpected length", connection closed; this request did not
           see the length as unknown -> length NOT forgotten
   later   every honest attempt is rejected the same way; blob.length stays 1000 for the life of the process.

What the harness replaces: only the network (loop.create_connection gives in-memory transports with the connect
and reply latencies above; the liar refuses every later connection).  The real BlobDownloader, request_blob,
BlobExchangeClientProtocol, BlobManager and blob code run unmodified on the real clock.

exit 0: the blob gets verified from the honest peer       exit 1: violation
"""
import asyncio
import hashlib
import json
import logging
import os
import shutil
import sys
import tempfile
import warnings

warnings.simplefilter("ignore")
import lbry.wallet  # noqa: E402  (must be imported before lbry.conf)
from lbry.conf import Config  # noqa: E402
from lbry.extras.daemon.storage import SQLiteStorage  # noqa: E402
from lbry.blob.blob_manager import BlobManager  # noqa: E402
from lbry.blob_exchange.downloader import BlobDownloader  # noqa: E402
from lbry.dht.peer import make_kademlia_peer  # noqa: E402

logging.disable(logging.CRITICAL)

BLOB_SIZE = 300_000
LIE = 1000
LIAR, HONEST = '1.2.3.4', '5.6.7.8'
RUN_FOR = 9.0


class MemTransport(asyncio.Transport):
    def __init__(self, loop, protocol, peername, peer):
        super().__init__(extra={'peername': peername})
        self.loop, self.protocol, self.peer = loop, protocol, peer
        self._closing = False

    def is_closing(self):
        return self._closing

    def write(self, data):
        if not self._closing:
            self.loop.call_soon(self.peer, self, data)

    def close(self):
        if not self._closing:
            self._closing = True
            self.loop.call_soon(self.protocol.connection_lost, None)

    def deliver(self, data):
        if not self._closing:
            self.protocol.data_received(data)

    def peer_closes(self):
        self.close()


class Network:
    def __init__(self, loop, blob_hash, blob_bytes):
        self.loop, self.blob_hash, self.blob_bytes = loop, blob_hash, blob_bytes
        self.liar_connections = 0
        self.honest_complete_copies = 0
        self.log = []
        self.t0 = loop.time()

    def note(self, msg):
        self.log.append(f"   t={self.loop.time() - self.t0:5.2f}  {msg}")

    def header(self, length):
        return json.dumps({
            'available_blobs': [self.blob_hash], 'blob_data_payment_rate': 'RATE_ACCEPTED',
            'incoming_blob': {'blob_hash': self.blob_hash, 'length': length}
        }).encode()

    def liar(self, transport: MemTransport, request: bytes):
        self.note(f"liar answers: length {LIE}")
        transport.deliver(self.header(LIE))
        self.loop.call_later(0.15, lambda: (self.note("liar drops the connection"), transport.peer_closes()))

    def honest(self, transport: MemTransport, request: bytes):
        def reply():
            self.note(f"honest peer answers: length {BLOB_SIZE} + the complete correct blob")
            chunks = [self.header(BLOB_SIZE)] + [self.blob_bytes[i:i + 65536] for i in range(0, BLOB_SIZE, 65536)]

            def step():
                if chunks:
                    transport.deliver(chunks.pop(0))
                    self.loop.call_soon(step)
                else:
                    self.honest_complete_copies += 1
            step()
        self.loop.call_later(0.10, reply)

    async def create_connection(self, protocol_factory, host, port, **kwargs):
        if host == LIAR:
            self.liar_connections += 1
            if self.liar_connections > 1:
                raise ConnectionRefusedError("liar is gone")
            peer = self.liar
        else:
            await asyncio.sleep(0.10)
            peer = self.honest
        protocol = protocol_factory()
        transport = MemTransport(self.loop, protocol, (host, port), peer)
        protocol.connection_made(transport)
        self.note(f"connected to {'liar' if host == LIAR else 'honest peer'}")
        return transport, protocol


async def main() -> int:
    loop = asyncio.get_running_loop()
    blob_dir = tempfile.mkdtemp(prefix='c01f3-')
    try:
        conf = Config(data_dir=blob_dir, download_dir=blob_dir, wallet_dir=blob_dir)
        storage = SQLiteStorage(conf, ':memory:', loop)
        await storage.open()
        manager = BlobManager(loop, blob_dir, storage, conf)
        await manager.setup()

        blob_bytes = os.urandom(BLOB_SIZE)
        blob_hash = hashlib.sha384(blob_bytes).hexdigest()
        network = Network(loop, blob_hash, blob_bytes)
        loop.create_connection = network.create_connection          # the outside world

        peer_queue = asyncio.Queue()
        peer_queue.put_nowait([make_kademlia_peer(None, LIAR, tcp_port=3333),
                               make_kademlia_peer(None, HONEST, tcp_port=3333)])
        downloader = BlobDownloader(loop, conf, manager, peer_queue)
        try:
            blob = await asyncio.wait_for(downloader.download_blob(blob_hash), RUN_FOR)   # length unknown (sd blob)
        except asyncio.TimeoutError:
            blob = manager.get_blob(blob_hash)
        downloader.close()
        await asyncio.sleep(0.1)
        print("\n".join(network.log))
        verified, length = blob.get_is_verified(), blob.get_length()
        manager.stop()
        await storage.close()
        if not verified:
            print(f"C01 VIOLATED: in {RUN_FOR:.0f}s the honest peer sent {network.honest_complete_copies} complete "
                  f"correct copies (length {BLOB_SIZE}, sha384 = blob hash) and the blob is still not verified;\n"
                  f"  blob.length is still {length!r} - the length announced by a peer whose request failed long ago "
                  f"and who is no longer reachable; every honest response is rejected as 'unexpected length'.")
            return 1
        print(f"ok: blob verified from the honest peer after the liar's length was forgotten (length {length})")
        return 0
    finally:
        shutil.rmtree(blob_dir, ignore_errors=True)


if __name__ == '__main__':
    sys.exit(asyncio.run(main()))
