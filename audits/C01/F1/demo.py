"""
C01 / F1 - a verified download whose write into the blob directory FAILS (disk full, file-size limit, EIO, EMFILE ...)
still makes the blob verified, readable, 'finished' in the database (=> announced) - with a truncated file (or no
file at all) stored under the blob's SHA-384 name.

Legal circumstance forced by the harness: the operating system refuses the second half of the file write.  The real
kernel does it: RLIMIT_FSIZE is lowered (soft limit only) to half of the blob size while the download runs, so the
product's own  open(path, 'wb').write(bytes)  in the executor thread writes a prefix and then gets OSError(EFBIG) -
exactly what ENOSPC / EDQUOT look like to the program.  Nothing of lbry is patched; the peer is an in-memory
transport that answers the real BlobExchangeClientProtocol with a correct response and the correct bytes.

exit 0: property holds (blob not verified / not announced, nothing bad in the blob directory)
exit 1: violation
"""
import asyncio
import hashlib
import json
import logging
import os
import resource
import shutil
import sys
import tempfile
import warnings

warnings.simplefilter("ignore")
import lbry.wallet  # noqa: E402  (must be imported before lbry.conf)
from lbry.conf import Config  # noqa: E402
from lbry.extras.daemon.storage import SQLiteStorage  # noqa: E402
from lbry.blob.blob_manager import BlobManager  # noqa: E402
from lbry.blob_exchange.client import BlobExchangeClientProtocol  # noqa: E402

logging.disable(logging.CRITICAL)

BLOB_SIZE = 600_000


class MemTransport(asyncio.Transport):
    """client side of an in-memory TCP connection to a scripted peer"""

    def __init__(self, loop, protocol, peername, peer):
        super().__init__(extra={'peername': peername})
        self.loop, self.protocol, self.peer = loop, protocol, peer
        self._closing = False

    def is_closing(self):
        return self._closing

    def write(self, data):
        if not self._closing:
            self.loop.call_soon(self.peer, self, data)

    def close(self):
        if not self._closing:
            self._closing = True
            self.loop.call_soon(self.protocol.connection_lost, None)

    def deliver(self, data):
        if not self._closing:
            self.protocol.data_received(data)


def honest_peer(blob_hash, blob_bytes, chunk=65536):
    def on_request(transport: MemTransport, request: bytes):
        assert json.loads(request)['requested_blob'] == blob_hash
        response = json.dumps({
            'available_blobs': [blob_hash], 'blob_data_payment_rate': 'RATE_ACCEPTED',
            'incoming_blob': {'blob_hash': blob_hash, 'length': len(blob_bytes)}
        }).encode()
        transport.loop.call_soon(transport.deliver, response)
        for i in range(0, len(blob_bytes), chunk):
            transport.loop.call_soon(transport.deliver, blob_bytes[i:i + chunk])
    return on_request


async def main() -> int:
    loop = asyncio.get_running_loop()
    blob_dir = tempfile.mkdtemp(prefix='c01f1-')
    soft, hard = resource.getrlimit(resource.RLIMIT_FSIZE)
    try:
        conf = Config(data_dir=blob_dir, download_dir=blob_dir, wallet_dir=blob_dir)
        storage = SQLiteStorage(conf, ':memory:', loop)
        await storage.open()
        manager = BlobManager(loop, blob_dir, storage, conf)
        await manager.setup()

        blob_bytes = os.urandom(BLOB_SIZE)
        blob_hash = hashlib.sha384(blob_bytes).hexdigest()
        blob = manager.get_blob(blob_hash, BLOB_SIZE)

        protocol = BlobExchangeClientProtocol(loop, peer_timeout=3)
        transport = MemTransport(loop, protocol, ('10.0.0.1', 3333), honest_peer(blob_hash, blob_bytes))
        protocol.connection_made(transport)

        # ---- the fault: the OS accepts only the first half of any file written from now on
        resource.setrlimit(resource.RLIMIT_FSIZE, (BLOB_SIZE // 2, hard))
        try:
            try:
                await asyncio.wait_for(protocol.download_blob(blob), 10)
            except (asyncio.TimeoutError, asyncio.CancelledError, OSError) as err:
                print(f"download_blob ended with {type(err).__name__} (acceptable when the disk write failed)")
            await asyncio.sleep(0.2)   # let blob_completed -> storage.add_blobs run
        finally:
            resource.setrlimit(resource.RLIMIT_FSIZE, (soft, hard))

        path = os.path.join(blob_dir, blob_hash)
        on_disk = open(path, 'rb').read() if os.path.isfile(path) else None
        disk_ok = on_disk is not None and hashlib.sha384(on_disk).hexdigest() == blob_hash
        status = await storage.get_blob_status(blob_hash)
        problems = []
        if on_disk is not None and not disk_ok:
            problems.append(f"blob directory holds a file named {blob_hash[:12]}.. with {len(on_disk)} of "
                            f"{BLOB_SIZE} bytes (sha384 does not match its name)")
        if blob.get_is_verified() and not disk_ok:
            problems.append("blob.get_is_verified() is True although the stored bytes are not the verified bytes "
                            f"(file: {'missing' if on_disk is None else str(len(on_disk)) + ' bytes'})")
        if blob_hash in manager.completed_blob_hashes and not disk_ok:
            problems.append("blob hash is in BlobManager.completed_blob_hashes (served to peers / DHT data store)")
        if status == 'finished' and not disk_ok:
            problems.append("database status is 'finished' => the blob gets announced to the DHT")
        if blob.get_is_verified() and not disk_ok:
            try:
                with blob.reader_context() as reader:
                    got = reader.read()
                if got != blob_bytes:
                    problems.append(f"reader_context() hands out {len(got)} bytes that are not the blob")
            except OSError as err:
                problems.append(f"verified blob cannot be read: {err}")

        # a restart trusts whatever sits in the blob directory under a blob-hash name
        manager.stop()
        manager2 = BlobManager(loop, blob_dir, storage, conf)
        await manager2.setup()
        if not disk_ok and manager2.is_blob_verified(blob_hash):
            problems.append("after a restart of the BlobManager the truncated file is again a verified blob of length "
                            f"{manager2.get_blob(blob_hash).length}")
        manager2.stop()
        await storage.close()

        if problems:
            print("C01 VIOLATED - the write of the verified bytes failed half way (EFBIG, like ENOSPC) and yet:")
            for problem in problems:
                print("  *", problem)
            return 1
        print("ok: the failed write left the blob unverified, unannounced and nothing wrong in the blob directory")
        return 0
    finally:
        shutil.rmtree(blob_dir, ignore_errors=True)


if __name__ == '__main__':
    sys.exit(asyncio.run(main()))
