"""
C01 / F4 - converse clause: a writer delivers a complete, correct copy and the blob does NOT become verified - the
verified bytes are silently dropped and the blob is stuck (unverified AND un-writeable) for the life of the process.

AbstractBlob.save_verified_blob() only stores the winner's bytes `if self.is_writeable()`, and BlobFile.is_writeable()
is also False whenever *a file of that name exists* - which is taken to mean "somebody is writing right now".  That
is not true when the file was put there by the still queued write of an older BlobFile object of the same hash:

   1. download #1 of blob H finishes; its verified bytes are handed to loop.run_in_executor (the job is queued -
      the default executor is busy, e.g. with other blob writes or hanging getaddrinfo calls)
   2. the user deletes the blob / the stream (BlobManager.delete_blobs): object #1 is dropped, no file yet to remove
   3. H is requested again (BlobManager.get_blob -> object #2, no file on disk -> writeable), download #2 starts
   4. the executor gets to job #1 and writes <blob_dir>/H
   5. download #2 delivers the last byte: correct length, correct hash -> save_verified_blob -> is_writeable() is
      False -> nothing is written, verified is never set, nobody is told.
      BlobExchangeClientProtocol._download_blob waits on blob.verified forever; every later request for H returns at
      once because the blob "is not writeable"; BlobManager.is_blob_verified(H) stays False.

What the harness replaces: the network (in-memory transport, honest peer that can pause mid-blob) and the event
loop's default executor (a ThreadPoolExecutor that keeps submitted jobs queued until released = a busy executor).
All lbry code is unmodified.

exit 0: blob verified after the complete correct copy     exit 1: violation
"""
import asyncio
import concurrent.futures
import hashlib
import json
import logging
import os
import shutil
import sys
import tempfile
import warnings

warnings.simplefilter("ignore")
import lbry.wallet  # noqa: E402  (must be imported before lbry.conf)
from lbry.conf import Config  # noqa: E402
from lbry.extras.daemon.storage import SQLiteStorage  # noqa: E402
from lbry.blob.blob_manager import BlobManager  # noqa: E402
from lbry.blob_exchange.client import BlobExchangeClientProtocol  # noqa: E402

logging.disable(logging.CRITICAL)

BLOB_SIZE = 400_000


class BusyExecutor(concurrent.futures.ThreadPoolExecutor):
    """default executor whose worker threads are 'busy': jobs stay queued until release() is called"""

    def __init__(self):
        super().__init__(max_workers=2)
        self.held = None   # None: run normally, list: queue

    def hold(self):
        self.held = []

    def submit(self, fn, *args, **kwargs):
        if self.held is None:
            return super().submit(fn, *args, **kwargs)
        fut = concurrent.futures.Future()
        self.held.append((fut, fn, args, kwargs))
        return fut

    def release(self):
        held, self.held = self.held, None
        for fut, fn, args, kwargs in held:
            def run(fut=fut, fn=fn, args=args, kwargs=kwargs):
                if fut.set_running_or_notify_cancel():
                    try:
                        fut.set_result(fn(*args, **kwargs))
                    except BaseException as err:  # noqa
                        fut.set_exception(err)
            super().submit(run)
        return len(held)


class MemTransport(asyncio.Transport):
    def __init__(self, loop, protocol, peername, peer):
        super().__init__(extra={'peername': peername})
        self.loop, self.protocol, self.peer = loop, protocol, peer
        self._closing = False

    def is_closing(self):
        return self._closing

    def write(self, data):
        if not self._closing:
            self.loop.call_soon(self.peer, self, data)

    def close(self):
        if not self._closing:
            self._closing = True
            self.loop.call_soon(self.protocol.connection_lost, None)

    def deliver(self, data):
        if not self._closing:
            self.protocol.data_received(data)


class HonestPeer:
    """sends the correct response and the correct bytes; optionally pauses after the first half"""

    def __init__(self, loop, blob_hash, blob_bytes, pause_half_way=False):
        self.loop, self.blob_hash, self.blob_bytes = loop, blob_hash, blob_bytes
        self.resume = asyncio.Event()
        if not pause_half_way:
            self.resume.set()
        self.sent_everything = asyncio.Event()

    def __call__(self, transport: MemTransport, request: bytes):
        self.loop.create_task(self.serve(transport))

    async def serve(self, transport):
        transport.deliver(json.dumps({
            'available_blobs': [self.blob_hash], 'blob_data_payment_rate': 'RATE_ACCEPTED',
            'incoming_blob': {'blob_hash': self.blob_hash, 'length': len(self.blob_bytes)}
        }).encode())
        for i in range(0, BLOB_SIZE, 50_000):
            if i >= BLOB_SIZE // 2:
                await self.resume.wait()
            await asyncio.sleep(0)
            transport.deliver(self.blob_bytes[i:i + 50_000])
        self.sent_everything.set()


def connect(loop, address, peer):
    protocol = BlobExchangeClientProtocol(loop, peer_timeout=3)
    protocol.connection_made(MemTransport(loop, protocol, (address, 3333), peer))
    return protocol


async def main() -> int:
    loop = asyncio.get_running_loop()
    executor = BusyExecutor()
    loop.set_default_executor(executor)
    blob_dir = tempfile.mkdtemp(prefix='c01f4-')
    try:
        conf = Config(data_dir=blob_dir, download_dir=blob_dir, wallet_dir=blob_dir)
        storage = SQLiteStorage(conf, ':memory:', loop)
        await storage.open()
        manager = BlobManager(loop, blob_dir, storage, conf)
        await manager.setup()
        blob_bytes = os.urandom(BLOB_SIZE)
        blob_hash = hashlib.sha384(blob_bytes).hexdigest()
        path = os.path.join(blob_dir, blob_hash)

        # 1. first download: transfer completes, the write job stays queued in the busy executor
        executor.hold()
        blob1 = manager.get_blob(blob_hash, BLOB_SIZE)
        peer1 = HonestPeer(loop, blob_hash, blob_bytes)
        download1 = loop.create_task(connect(loop, '10.0.0.1', peer1).download_blob(blob1))
        await peer1.sent_everything.wait()
        await asyncio.sleep(0.05)
        assert len(executor.held) == 1 and not os.path.exists(path) and not blob1.get_is_verified()

        # 2. the user deletes the blob while it is being saved
        await manager.delete_blobs([blob_hash])
        download1.cancel()

        # 3. ... and asks for it again: new object, second download starts and pauses half way
        blob2 = manager.get_blob(blob_hash, BLOB_SIZE)
        assert blob2 is not blob1 and blob2.is_writeable()
        peer2 = HonestPeer(loop, blob_hash, blob_bytes, pause_half_way=True)
        download2 = loop.create_task(connect(loop, '10.0.0.2', peer2).download_blob(blob2))
        await asyncio.sleep(0.05)
        assert len(blob2.writers) == 1

        # 4. the executor gets to the queued job of object #1
        executor.release()
        for _ in range(100):
            if os.path.isfile(path) and os.path.getsize(path) == BLOB_SIZE:
                break
            await asyncio.sleep(0.01)
        await asyncio.sleep(0.05)

        # 5. the honest peer delivers the rest: a complete correct copy has now been written to blob2's writer
        peer2.resume.set()
        await peer2.sent_everything.wait()
        done, _ = await asyncio.wait([download2], timeout=5)
        await asyncio.sleep(0.05)

        problems = []
        if not blob2.get_is_verified():
            problems.append("the blob object of the BlobManager is NOT verified although its writer received all "
                            f"{BLOB_SIZE} correct bytes (nothing is being written: writing={blob2.writing.is_set()}, "
                            f"open writers={len(blob2.writers)})")
        if not done:
            problems.append("BlobExchangeClientProtocol.download_blob() is still waiting for blob.verified 5s after the "
                            "last byte (it waits without a timeout)")
        if not manager.is_blob_verified(blob_hash):
            problems.append("BlobManager.is_blob_verified(hash) is False")
        if blob_hash not in manager.completed_blob_hashes or await storage.get_blob_status(blob_hash) != 'finished':
            problems.append("the blob is neither in completed_blob_hashes nor 'finished' in the database "
                            "(never announced)")
        if not blob2.get_is_verified() and not blob2.is_writeable():
            # what every later attempt does first (client.download_blob / request_blob / should_race_continue)
            peer3 = HonestPeer(loop, blob_hash, blob_bytes)
            got = await asyncio.wait_for(connect(loop, '10.0.0.3', peer3).download_blob(blob2), 5)
            problems.append(f"it can never be repaired in this process: the blob is not writeable, a new "
                            f"download_blob() returns {got[0]} bytes at once without requesting anything")
        if not download2.done():
            download2.cancel()
        manager.stop()
        await storage.close()
        if problems:
            print("C01 VIOLATED (a complete correct copy was delivered, the blob did not become verified):")
            for problem in problems:
                print("  *", problem)
            return 1
        print("ok: the second download's verified bytes were stored and the blob is verified")
        return 0
    finally:
        executor.shutdown(wait=False)
        shutil.rmtree(blob_dir, ignore_errors=True)


if __name__ == '__main__':
    sys.exit(asyncio.run(main()))
