"""
C14 / F4 -- a build that is cancelled WHILE its reservation is being written loses track of the
outputs it reserved.  Ledger.get_spendable_utxos() awaits the database call that marks the selected
outputs `is_reserved`; that call runs in the writer thread and cannot be interrupted, so when the
awaiting task is cancelled the thread still commits the reservation, but the coroutine is unwound
by CancelledError before the outputs were handed to the transaction (tx.add_inputs), so no
release (neither the one in Transaction.create nor any the caller could do) ever names them.
Every build has failed, yet the outputs stay unavailable (until restart / `utxo_release`).

Real code driven: Transaction.create, Ledger.get_spendable_utxos, Database/AIOSQLite.
Harness: the database's single writer thread is wrapped by a pass-through executor.  When the
reserving job (standard strategies: db call #2 of the build = UPDATE is_reserved; sqlite strategy:
db call #1 = select+update in one SQL transaction) STARTS in the writer thread, the harness asks
the loop to cancel the build task - what any caller does with task.cancel() / wait_for() - and lets
the job carry on once the cancellation was delivered: i.e. a database write that takes a moment
while the caller gives up.  Nothing is reordered, dropped or altered.

exit 1 = outputs are still reserved although no build is alive; exit 0 = all available again.
"""
import sys
import asyncio
import logging
import threading
from concurrent.futures import Executor
import lbry.wallet
from lbry.wallet import Wallet, Account, Ledger, Database, Headers, Transaction, Output, Input
from lbry.wallet.constants import COIN, NULL_HASH32
from lbry.error import InsufficientFundsError

logging.disable(logging.CRITICAL)


class SimLedger(Ledger):
    network_name = 'simnet'
    checkpoints = {}


class NoNetwork:
    is_connected = False


class ObservingExecutor(Executor):
    """ pass-through to the real single writer thread; `on_start(n)` is called in the writer thread
        right before job number n runs """
    def __init__(self, inner):
        self.inner, self.count, self.on_start = inner, 0, None

    def submit(self, fn, *args, **kwargs):
        self.count += 1
        number = self.count

        def job():
            if self.on_start:
                self.on_start(number)
            return fn(*args, **kwargs)
        return self.inner.submit(job)

    def shutdown(self, wait=True, **kwargs):
        return self.inner.shutdown(wait=wait)


async def make_wallet(amounts, strategy):
    ledger = SimLedger({'db': Database(':memory:'), 'headers': Headers(':memory:')})
    await ledger.db.open()
    ledger.coin_selection_strategy = strategy
    ledger.network = NoNetwork()
    account = Account.from_dict(ledger, Wallet(), {
        "seed": "carbon smart garage balance margin twelve chest sword "
                "toast envelope bottom stomach absent"})
    hashes = [ledger.address_to_hash160(a) for a in await account.ensure_address_gap()]
    utxos = [Output.pay_pubkey_hash(int(a * COIN), hashes[i % len(hashes)]) for i, a in enumerate(amounts)]
    source = Transaction(height=-2).add_outputs([Output.pay_pubkey_hash(1000 * COIN, NULL_HASH32)]).outputs[0]
    funding = Transaction(is_verified=True, height=5).add_inputs([Input.spend(source)]).add_outputs(utxos)
    await ledger.db.insert_transaction(funding)
    for utxo in utxos:
        pkh = utxo.script.values['pubkey_hash']
        await ledger.db.save_transaction_io(funding, ledger.hash160_to_address(pkh), pkh, '')
    return ledger, account


def pay(account, lbc):
    return Transaction.create(
        [], [Output.pay_pubkey_hash(int(lbc * COIN), NULL_HASH32)], [account], account)


async def run(strategy, reserving_call):
    amounts = [1, 1, 3, 5, 10, 2, 2]
    ledger, account = await make_wallet(amounts, strategy)
    label = f"[strategy={strategy or 'standard'}]"
    observer = ObservingExecutor(ledger.db.db.writer_executor)
    ledger.db.db.writer_executor = observer
    loop = asyncio.get_running_loop()

    victim = loop.create_task(pay(account, 2))
    base = observer.count
    cancel_delivered = threading.Event()

    async def cancel_victim():
        victim.cancel()
        for _ in range(10):         # let the CancelledError reach the build before the write goes on
            await asyncio.sleep(0)
        cancel_delivered.set()

    def on_start(number):           # runs in the writer thread
        if number - base == reserving_call:
            asyncio.run_coroutine_threadsafe(cancel_victim(), loop)
            cancel_delivered.wait(10)
    observer.on_start = on_start

    try:
        await victim
        outcome = 'completed'
        await ledger.release_tx(victim.result())
    except asyncio.CancelledError:
        outcome = 'cancelled'
    assert outcome == 'cancelled', (label, outcome)
    observer.on_start = None

    # three more builds run concurrently and are released (abandoned) by their owners
    others = await asyncio.gather(*(pay(account, 2) for _ in range(3)), return_exceptions=True)
    for other in others:
        if isinstance(other, Transaction):
            await ledger.release_tx(other)
        elif not isinstance(other, InsufficientFundsError):
            raise other

    # every build has now failed or has been released
    problems = []
    rows = await ledger.db.db.execute_fetchall("SELECT txoid, amount FROM txo WHERE is_reserved")
    if rows:
        problems.append(
            f"{label} build cancelled while its reservation was being committed; no build is in flight, yet "
            f"{len(rows)} output(s) worth {sum(r['amount'] for r in rows) / COIN} LBC stay reserved: "
            f"{sorted(r['txoid'][:8] + ':' + r['txoid'].split(':')[1] for r in rows)}; "
            f"spendable balance {await account.get_balance() / COIN} of {sum(amounts)} LBC")
    await ledger.db.close()
    return problems


async def main():
    problems = []
    problems += await run(None, 2)                  # read utxos (#1), UPDATE is_reserved (#2)
    problems += await run('prefer_confirmed', 2)
    problems += await run('sqlite', 1)              # select + UPDATE in one SQL transaction (#1)
    if problems:
        print("C14 VIOLATED: outputs reserved on behalf of a cancelled build are never available again")
        for p in problems:
            print("  -", p)
        return 1
    print("C14 holds: a build cancelled during its reservation left nothing reserved")
    return 0


if __name__ == '__main__':
    sys.exit(asyncio.run(main()))
