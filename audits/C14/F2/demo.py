"""
C14 / F2 -- Account.fund(..., broadcast=True) calls ledger.broadcast() instead of
ledger.broadcast_or_release(): when the broadcast fails, the transaction is dead (never sent,
never returned to the caller, nobody can release it) but every output it selected stays reserved.
"Once every build has either succeeded and been released or failed, every output is available
again" does not hold: the outputs are gone until the daemon is restarted / `utxo_release` is run.

Real code driven: Account.fund, Transaction.create, Ledger.get_spendable_utxos, Database.
Replaced outside part: the SPV server, which REJECTS the broadcast (what a real server does for a
transaction it does not like, or what a timed-out / dropped connection looks like to the caller).

exit 1 = outputs of the failed build are still unavailable; exit 0 = all outputs available again.
"""
import sys
import asyncio
import logging
import lbry.wallet
from lbry.wallet import Wallet, Account, Ledger, Database, Headers, Transaction, Output, Input
from lbry.wallet.constants import COIN, NULL_HASH32
from lbry.wallet.rpc.jsonrpc import RPCError
from lbry.error import InsufficientFundsError

logging.disable(logging.CRITICAL)


class SimLedger(Ledger):
    network_name = 'simnet'
    checkpoints = {}


class RejectingNetwork:
    """ stands in for the SPV server: refuses the transaction """
    is_connected = False

    async def broadcast(self, raw_hex):
        raise RPCError(1, "the transaction was rejected by network rules.")


async def make_wallet(amounts, strategy):
    ledger = SimLedger({'db': Database(':memory:'), 'headers': Headers(':memory:')})
    await ledger.db.open()
    ledger.coin_selection_strategy = strategy
    ledger.network = RejectingNetwork()
    account = Account.from_dict(ledger, Wallet(), {
        "seed": "carbon smart garage balance margin twelve chest sword "
                "toast envelope bottom stomach absent"})
    other = Account.generate(ledger, account.wallet, 'other')
    hashes = [ledger.address_to_hash160(a) for a in await account.ensure_address_gap()]
    await other.ensure_address_gap()
    utxos = [Output.pay_pubkey_hash(int(a * COIN), hashes[i % len(hashes)]) for i, a in enumerate(amounts)]
    source = Transaction(height=-2).add_outputs([Output.pay_pubkey_hash(1000 * COIN, NULL_HASH32)]).outputs[0]
    funding = Transaction(is_verified=True, height=5).add_inputs([Input.spend(source)]).add_outputs(utxos)
    await ledger.db.insert_transaction(funding)
    for utxo in utxos:
        pkh = utxo.script.values['pubkey_hash']
        await ledger.db.save_transaction_io(funding, ledger.hash160_to_address(pkh), pkh, '')
    return ledger, account, other


async def run(strategy, everything):
    amounts = [1, 1, 3, 5, 10]
    ledger, account, other = await make_wallet(amounts, strategy)
    label = f"[strategy={strategy or 'standard'}, {'--everything' if everything else 'amount=4'}]"
    before = await account.get_balance()
    # concurrent transfers (3 x 4 LBC, or 1 x everything: concurrent `everything` transfers are the
    # subject of F1), every one of them is refused by the server => every build has failed
    count = 1 if everything else 3
    results = await asyncio.gather(*(
        account.fund(other, everything=True, broadcast=True) if everything else
        account.fund(other, amount=4 * COIN, broadcast=True)
        for _ in range(count)
    ), return_exceptions=True)
    failures = [r for r in results if isinstance(r, Exception)]
    assert len(failures) == count, results   # RPCError (rejected) or InsufficientFundsError
    problems = []
    rows = await ledger.db.db.execute_fetchall("SELECT txoid, amount FROM txo WHERE is_reserved")
    after = await account.get_balance()
    if rows:
        problems.append(
            f"{label} all {count} transfer(s) failed ({', '.join(type(f).__name__ for f in failures)}) yet "
            f"{len(rows)} of {len(amounts)} outputs worth {sum(r['amount'] for r in rows) / COIN} LBC stay "
            f"reserved; spendable balance {before / COIN} -> {after / COIN} LBC")
        try:
            await ledger.release_tx(await Transaction.create(
                [], [Output.pay_pubkey_hash(15 * COIN, NULL_HASH32)], [account], account))
        except InsufficientFundsError:
            problems.append(f"{label} a later 15 LBC payment fails with InsufficientFundsError "
                            f"although the wallet owns {sum(amounts)} LBC and nothing is in flight")
    await ledger.db.close()
    return problems


async def main():
    problems = []
    for strategy in (None, 'sqlite'):
        for everything in (False, True):
            problems += await run(strategy, everything)
    if problems:
        print("C14 VIOLATED: outputs of failed builds are not available again")
        for p in problems:
            print("  -", p)
        return 1
    print("C14 holds: after the failed transfers every output is available again")
    return 0


if __name__ == '__main__':
    sys.exit(asyncio.run(main()))
