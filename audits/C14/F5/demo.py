"""
C14 / F5 -- a paid download whose fee payment is refused by the server releases the payment's
inputs TWICE (FileManager.download_from_uri: once inside broadcast_or_release(), once more in its
own `finally`).  With the `sqlite` coin selection strategy (select + reserve in ONE database
call) another build B can reserve those very outputs between the two releases; the second release
then frees outputs that B is holding, and the next build C is given them as well:
B and C - two live transactions - spend the same outputs.

Real code driven: FileManager.download_from_uri, WalletManager.create_purchase_transaction /
broadcast_or_release, Ledger.resolve / get_spendable_utxos / broadcast_or_release,
Transaction.create, Database (sqlite strategy), StreamManager / ManagedStream / BlobManager /
SQLiteStorage.  No schedule is forced: plain asyncio loop, real writer thread.
Replaced outside parts:
  * the SPV server: answers `resolve` for one priced claim (its transaction is already in the
    ledger's verified tx cache) and REJECTS the fee payment broadcast;
  * the "other API client": at the moment the rejection is delivered it asks for a payment (B);
  * the stream's blobs are already in the blob directory (no peers needed).
Legal circumstance: coin_selection_strategy=sqlite (a documented setting), a refused/failed fee
broadcast, and a second wallet request arriving at that moment.

exit 1 = two live transactions share outputs; exit 0 = property holds.
"""
import os
import sys
import base64
import shutil
import asyncio
import logging
import tempfile
from decimal import Decimal
import lbry.wallet
from lbry.wallet import Wallet, Account, Ledger, Database, Headers, Transaction, Output, Input, WalletManager
from lbry.wallet.ledger import TransactionCacheItem
from lbry.wallet.constants import CENT, COIN, NULL_HASH32
from lbry.wallet.rpc.jsonrpc import RPCError
from lbry.conf import Config
from lbry.error import InsufficientFundsError
from lbry.extras.daemon.storage import SQLiteStorage
from lbry.extras.daemon.exchange_rate_manager import ExchangeRateManager
from lbry.blob.blob_manager import BlobManager
from lbry.stream.stream_manager import StreamManager
from lbry.stream.descriptor import StreamDescriptor
from lbry.file.file_manager import FileManager
from lbry.schema.claim import Claim
from lbry.schema.types.v2.result_pb2 import Outputs as OutputsMessage

logging.disable(logging.CRITICAL)


class SimLedger(Ledger):
    network_name = 'simnet'
    checkpoints = {}


class FakeClient:
    server = ('spv.sim', 50001)


class FakeSPVServer:
    """ the wallet server as seen by the ledger: resolves one claim, refuses the fee payment """
    is_connected = False
    client = FakeClient()

    def __init__(self):
        self.resolve_reply = None
        self.on_rejection = None

    async def retriable_call(self, function, *args, **kwargs):
        return await function(*args, **kwargs)

    async def resolve(self, urls, session_override=None):
        return self.resolve_reply

    async def broadcast(self, raw_hex):
        if self.on_rejection:
            self.on_rejection()
        raise RPCError(1, "the transaction was rejected by network rules.")


def outpoints(tx):
    return {f"{txi.txo_ref.tx_ref.id[:8]}:{txi.txo_ref.position}" for txi in tx.inputs}


async def run(strategy, tmp):
    loop = asyncio.get_running_loop()
    ledger = SimLedger({'db': Database(':memory:'), 'headers': Headers(':memory:')})
    await ledger.db.open()
    ledger.coin_selection_strategy = strategy
    server = ledger.network = FakeSPVServer()
    wallet = Wallet()
    account = Account.from_dict(ledger, wallet, {
        "seed": "carbon smart garage balance margin twelve chest sword "
                "toast envelope bottom stomach absent"})
    hashes = [ledger.address_to_hash160(a) for a in await account.ensure_address_gap()]
    amounts = [1, 1, 3, 5, 10]
    utxos = [Output.pay_pubkey_hash(int(a * COIN), hashes[i % len(hashes)]) for i, a in enumerate(amounts)]
    source = Transaction(height=-2).add_outputs([Output.pay_pubkey_hash(1000 * COIN, NULL_HASH32)]).outputs[0]
    funding = Transaction(is_verified=True, height=5).add_inputs([Input.spend(source)]).add_outputs(utxos)
    await ledger.db.insert_transaction(funding)
    for utxo in utxos:
        pkh = utxo.script.values['pubkey_hash']
        await ledger.db.save_transaction_io(funding, ledger.hash160_to_address(pkh), pkh, '')

    config = Config(data_dir=tmp, download_dir=tmp, wallet=tmp, save_files=False, fixed_peers=[], tracker_servers=[])
    config.transaction_cache_size = 10000
    config.max_key_fee = {'currency': 'LBC', 'amount': '50.0'}    # no exchange rate feed needed
    manager = WalletManager([wallet], {SimLedger: ledger})
    manager.config = config
    storage = SQLiteStorage(config, os.path.join(tmp, 'lbrynet.sqlite'))
    await storage.open()
    blob_manager = BlobManager(loop, tmp, storage, config)
    await blob_manager.setup()
    content = os.path.join(tmp, 'content.bin')
    with open(content, 'wb') as f:
        f.write(os.urandom(300000))
    descriptor = await StreamDescriptor.create_stream(loop, blob_manager.blob_dir, content)
    stream_manager = StreamManager(loop, config, blob_manager, manager, storage, None, None)
    file_manager = FileManager(loop, config, manager, storage, None)
    file_manager.source_managers['stream'] = stream_manager

    # a stream claim (not ours) that costs 2 LBC; its transaction is in the ledger's verified tx cache
    claim = Claim()
    claim.stream.fee.lbc = Decimal('2.0')
    claim.stream.title = 'paid'
    claim.stream.source.sd_hash = descriptor.sd_hash
    claim.stream.source.media_type = 'application/octet-stream'
    someone = Transaction(height=-2).add_outputs([Output.pay_pubkey_hash(CENT, NULL_HASH32)]).outputs[0]
    claim_tx = Transaction(is_verified=True, height=7) \
        .add_inputs([Input.spend(someone)]) \
        .add_outputs([Output.pay_claim_name_pubkey_hash(CENT, 'paidstream', claim, b'\x22' * 20)])
    ledger._tx_cache[claim_tx.id] = TransactionCacheItem(tx=claim_tx)
    reply = OutputsMessage()
    reply.total = 1
    row = reply.txos.add()
    row.tx_hash, row.nout, row.height = claim_tx.hash, 0, 7
    row.claim.short_url = row.claim.canonical_url = 'paidstream#' + claim_tx.outputs[0].claim_id[:1]
    row.claim.is_controlling = True
    row.claim.creation_height = row.claim.activation_height = 7
    server.resolve_reply = base64.b64encode(reply.SerializeToString()).decode()

    def pay(lbc):
        return Transaction.create(
            [], [Output.pay_pubkey_hash(int(lbc * COIN), NULL_HASH32)], [account], account)

    other_requests = []
    # another client asks for a 2 LBC payment (B) just when the server's rejection comes in
    server.on_rejection = lambda: other_requests.append(loop.create_task(pay(2)))

    try:
        await file_manager.download_from_uri('paidstream', ExchangeRateManager(), timeout=10, save_file=False)
        raise AssertionError("the download was expected to fail: its fee payment is refused")
    except RPCError:
        pass            # purchase A: refused, released (abandoned) by the file manager
    assert len(other_requests) == 1
    problems = []
    label = f"[strategy={strategy or 'standard'}]"
    held = (await asyncio.gather(*other_requests, return_exceptions=True))[0]
    if isinstance(held, Transaction):       # B is alive: built, neither broadcast nor released
        rows = await ledger.db.db.execute_fetchall("SELECT txoid FROM txo WHERE NOT is_reserved")
        free = {f"{r['txoid'][:8]}:{r['txoid'].split(':')[1]}" for r in rows}
        if free & outpoints(held):
            problems.append(
                f"{label} payment B {held.id[:8]} is held (not broadcast, not released) but its inputs "
                f"{sorted(free & outpoints(held))} are available again: the failed purchase released them "
                f"a second time after B had reserved them")
        try:
            third = await pay(2)
            if outpoints(third) & outpoints(held):
                problems.append(
                    f"{label} the next build C {third.id[:8]} got inputs {sorted(outpoints(third))}; "
                    f"B {held.id[:8]} holds {sorted(outpoints(held))}: both would be broadcast spending "
                    f"{sorted(outpoints(third) & outpoints(held))}")
        except InsufficientFundsError:
            pass
    elif not isinstance(held, InsufficientFundsError):
        raise held
    await stream_manager.stop()
    await storage.close()
    await ledger.db.close()
    return problems


async def main():
    problems = []
    for strategy in ('sqlite', None):
        tmp = tempfile.mkdtemp()
        try:
            problems += await run(strategy, tmp)
        finally:
            shutil.rmtree(tmp, ignore_errors=True)
    if problems:
        print("C14 VIOLATED: two live transactions hold the same outputs")
        for p in problems:
            print("  -", p)
        return 1
    print("C14 holds: the failed purchase did not free outputs held by another build")
    return 0


if __name__ == '__main__':
    sys.exit(asyncio.run(main()))
