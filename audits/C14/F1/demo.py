"""
C14 / F1 -- Account.fund(everything=True) selects and reserves its inputs OUTSIDE the ledger's
UTXO reservation lock, so it shares outputs with any transaction build running at the same time.

Real code driven: lbry.wallet Account.fund, Transaction.create, Ledger.get_spendable_utxos,
Database (sqlite, in memory).  Nothing is forced: a plain asyncio loop, the real single writer
thread, two API-level operations started together with asyncio.gather().  The only replaced part
is the network (a recorder standing in for the SPV server's `broadcast`).

Scenario 1 (both broadcast):  `account_fund --everything --broadcast` and a normal payment are
  started together; both are broadcast; they must not spend a common output.
Scenario 2 (fund only previewed, which is the default of account_fund): a payment P is built and
  HELD (neither broadcast nor released) while a previewing fund(everything) runs and finishes;
  a third payment built afterwards must not receive P's outputs.

exit 1 = an output is held by two transactions (property violated); exit 0 = property holds.
"""
import sys
import asyncio
import logging
import lbry.wallet
from lbry.wallet import Wallet, Account, Ledger, Database, Headers, Transaction, Output, Input
from lbry.wallet.constants import CENT, COIN, NULL_HASH32
from lbry.error import InsufficientFundsError

logging.disable(logging.CRITICAL)


class SimLedger(Ledger):
    network_name = 'simnet'
    checkpoints = {}


class RecordingNetwork:
    """ stands in for the SPV server: accepts every broadcast and remembers it """
    is_connected = False    # no server to subscribe addresses with

    def __init__(self):
        self.sent = []

    async def broadcast(self, raw_hex):
        self.sent.append(Transaction(bytes.fromhex(raw_hex)))
        return 'ok'


async def make_wallet(amounts, strategy):
    ledger = SimLedger({'db': Database(':memory:'), 'headers': Headers(':memory:')})
    await ledger.db.open()
    ledger.coin_selection_strategy = strategy
    ledger.network = RecordingNetwork()
    account = Account.from_dict(ledger, Wallet(), {
        "seed": "carbon smart garage balance margin twelve chest sword "
                "toast envelope bottom stomach absent"})
    other = Account.generate(ledger, account.wallet, 'other')
    hashes = [ledger.address_to_hash160(a) for a in await account.ensure_address_gap()]
    await other.ensure_address_gap()
    utxos = [Output.pay_pubkey_hash(int(a * COIN), hashes[i % len(hashes)]) for i, a in enumerate(amounts)]
    source = Transaction(height=-2).add_outputs([Output.pay_pubkey_hash(1000 * COIN, NULL_HASH32)]).outputs[0]
    funding = Transaction(is_verified=True, height=5).add_inputs([Input.spend(source)]).add_outputs(utxos)
    await ledger.db.insert_transaction(funding)
    for utxo in utxos:
        pkh = utxo.script.values['pubkey_hash']
        await ledger.db.save_transaction_io(funding, ledger.hash160_to_address(pkh), pkh, '')
    return ledger, account, other


def outpoints(tx):
    return {f"{txi.txo_ref.tx_ref.id[:8]}:{txi.txo_ref.position}" for txi in tx.inputs}


def pay(account, lbc):
    return Transaction.create(
        [], [Output.pay_pubkey_hash(int(lbc * COIN), NULL_HASH32)], [account], account)


async def scenario_both_broadcast(strategy, fund_first):
    ledger, account, other = await make_wallet([1, 1, 3, 5, 10], strategy)

    async def payment():
        tx = await pay(account, 2)
        await ledger.broadcast_or_release(tx)
        return tx

    jobs = [account.fund(other, everything=True, broadcast=True), payment()]
    if not fund_first:
        jobs.reverse()
    results = await asyncio.gather(*jobs, return_exceptions=True)
    for r in results:
        if isinstance(r, Exception) and not isinstance(r, InsufficientFundsError):
            raise r
    sent = ledger.network.sent
    problems = []
    for i, a in enumerate(sent):
        for b in sent[i + 1:]:
            shared = outpoints(a) & outpoints(b)
            if shared:
                problems.append(
                    f"[strategy={strategy or 'standard'}, {'fund' if fund_first else 'payment'} started first] "
                    f"two BROADCAST transactions spend the same output(s) {sorted(shared)}: "
                    f"{a.id[:8]} inputs={sorted(outpoints(a))} / {b.id[:8]} inputs={sorted(outpoints(b))}")
    await ledger.db.close()
    return problems


async def scenario_preview(strategy):
    ledger, account, other = await make_wallet([1, 1, 3, 5, 10], strategy)
    results = await asyncio.gather(
        pay(account, 2),                                              # P: built, then held by its owner
        account.fund(other, everything=True, broadcast=False),        # preview (the API default)
        return_exceptions=True
    )
    held = results[0]
    if isinstance(results[1], Exception):
        raise results[1]
    if isinstance(held, InsufficientFundsError):
        # legitimate: the preview held every output while P was looking for funds; nothing is shared
        await ledger.db.close()
        return []
    if isinstance(held, Exception):
        raise held
    problems = []
    rows = await ledger.db.db.execute_fetchall("SELECT txoid, is_reserved FROM txo")
    freed = sorted(f"{r['txoid'][:8]}:{r['txoid'].split(':')[1]}" for r in rows
                   if not r['is_reserved'] and f"{r['txoid'][:8]}:{r['txoid'].split(':')[1]}" in outpoints(held))
    if freed:
        problems.append(
            f"[strategy={strategy or 'standard'}] payment {held.id[:8]} is still held (not broadcast, not released) "
            f"but its output(s) {freed} are available again after a concurrent `fund --everything` preview")
    try:
        third = await pay(account, 2)
        shared = outpoints(third) & outpoints(held)
        if shared:
            problems.append(
                f"[strategy={strategy or 'standard'}] a later build {third.id[:8]} was given output(s) {sorted(shared)} "
                f"that the held payment {held.id[:8]} also spends")
    except InsufficientFundsError:
        pass
    await ledger.db.close()
    return problems


async def main():
    problems = []
    for strategy in (None, 'sqlite', 'prefer_confirmed'):
        for fund_first in (True, False):
            problems += await scenario_both_broadcast(strategy, fund_first)
        problems += await scenario_preview(strategy)
    if problems:
        print("C14 VIOLATED: concurrent transaction builds share an output")
        for p in problems:
            print("  -", p)
        return 1
    print("C14 holds: fund(everything) never shared an output with a concurrent build")
    return 0


if __name__ == '__main__':
    sys.exit(asyncio.run(main()))
