"""
C14 / F3 -- a transaction build that is CANCELLED after its inputs were reserved never gives them
back.  Transaction.create() releases the inputs only in `except Exception`, and
asyncio.CancelledError is a BaseException, so cancellation (API client goes away, daemon
component stop, a caller's wait_for() timeout) skips the release.  The build has failed - it
returned no transaction, nobody has a handle to release - yet its outputs stay unavailable.

Real code driven: Transaction.create, Ledger.get_spendable_utxos, Database/AIOSQLite.
Harness: the database's single writer thread is wrapped by a pass-through executor that only
COUNTS the jobs; when the build submits database call #k - a call issued AFTER the reservation was
committed (looking up a change address / the signing keys) - the harness cancels the build task,
exactly what a caller does with task.cancel().  Nothing is reordered or dropped.

exit 1 = outputs of cancelled builds are still reserved; exit 0 = every output is available again.
"""
import sys
import asyncio
import logging
from concurrent.futures import Executor
import lbry.wallet
from lbry.wallet import Wallet, Account, Ledger, Database, Headers, Transaction, Output, Input
from lbry.wallet.constants import COIN, NULL_HASH32
from lbry.error import InsufficientFundsError

logging.disable(logging.CRITICAL)


class SimLedger(Ledger):
    network_name = 'simnet'
    checkpoints = {}


class NoNetwork:
    is_connected = False


class CountingExecutor(Executor):
    """ pass-through to the real single writer thread; tells the harness the number of each job """
    def __init__(self, inner):
        self.inner, self.count, self.on_submit = inner, 0, None

    def submit(self, fn, *args, **kwargs):
        self.count += 1
        if self.on_submit:
            self.on_submit(self.count)
        return self.inner.submit(fn, *args, **kwargs)

    def shutdown(self, wait=True, **kwargs):
        return self.inner.shutdown(wait=wait)


async def make_wallet(amounts, strategy):
    ledger = SimLedger({'db': Database(':memory:'), 'headers': Headers(':memory:')})
    await ledger.db.open()
    ledger.coin_selection_strategy = strategy
    ledger.network = NoNetwork()
    account = Account.from_dict(ledger, Wallet(), {
        "seed": "carbon smart garage balance margin twelve chest sword "
                "toast envelope bottom stomach absent"})
    hashes = [ledger.address_to_hash160(a) for a in await account.ensure_address_gap()]
    utxos = [Output.pay_pubkey_hash(int(a * COIN), hashes[i % len(hashes)]) for i, a in enumerate(amounts)]
    source = Transaction(height=-2).add_outputs([Output.pay_pubkey_hash(1000 * COIN, NULL_HASH32)]).outputs[0]
    funding = Transaction(is_verified=True, height=5).add_inputs([Input.spend(source)]).add_outputs(utxos)
    await ledger.db.insert_transaction(funding)
    for utxo in utxos:
        pkh = utxo.script.values['pubkey_hash']
        await ledger.db.save_transaction_io(funding, ledger.hash160_to_address(pkh), pkh, '')
    return ledger, account


def pay(account, lbc):
    return Transaction.create(
        [], [Output.pay_pubkey_hash(int(lbc * COIN), NULL_HASH32)], [account], account)


async def run(strategy, reservation_call, cancel_at_call):
    """ 4 concurrent builds; the first one is cancelled while it waits for its database call
        number `cancel_at_call` (> reservation_call, the call that committed its reservation) """
    amounts = [1, 1, 3, 5, 10, 2, 2]
    ledger, account = await make_wallet(amounts, strategy)
    label = f"[strategy={strategy or 'standard'}, cancelled while awaiting db call #{cancel_at_call} of the build]"
    counter = CountingExecutor(ledger.db.db.writer_executor)
    ledger.db.db.writer_executor = counter
    loop = asyncio.get_running_loop()

    victim = loop.create_task(pay(account, 2))
    base = counter.count
    counter.on_submit = lambda n: n - base == cancel_at_call and loop.call_soon(victim.cancel)
    try:
        await victim
        outcome = 'completed'
        await ledger.release_tx(victim.result())
    except asyncio.CancelledError:
        outcome = 'cancelled'
    counter.on_submit = None
    assert outcome == 'cancelled', (label, outcome)

    # three more builds run concurrently and are released (abandoned) by their owners
    others = await asyncio.gather(*(pay(account, 2) for _ in range(3)), return_exceptions=True)
    for other in others:
        if isinstance(other, Transaction):
            await ledger.release_tx(other)
        elif not isinstance(other, InsufficientFundsError):
            raise other

    # every build has now failed or has been released
    problems = []
    rows = await ledger.db.db.execute_fetchall("SELECT txoid, amount FROM txo WHERE is_reserved")
    if rows:
        problems.append(
            f"{label} no build is in flight, yet {len(rows)} output(s) worth "
            f"{sum(r['amount'] for r in rows) / COIN} LBC stay reserved: "
            f"{sorted(r['txoid'][:8] + ':' + r['txoid'].split(':')[1] for r in rows)}; "
            f"spendable balance {await account.get_balance() / COIN} of {sum(amounts)} LBC")
    await ledger.db.close()
    return problems


async def main():
    problems = []
    # standard strategy: db call #1 reads the utxos, #2 reserves, #3.. change address + signing keys
    for k in (3, 4):
        problems += await run(None, 2, k)
    # sqlite strategy: db call #1 selects and reserves atomically, #2.. change address + signing keys
    for k in (2, 3, 4, 5):
        problems += await run('sqlite', 1, k)
    if problems:
        print("C14 VIOLATED: outputs reserved by a cancelled (failed) build are never available again")
        for p in problems:
            print("  -", p)
        return 1
    print("C14 holds: outputs of cancelled builds were released")
    return 0


if __name__ == '__main__':
    sys.exit(asyncio.run(main()))
