"""
C09 / F1 -- an output that pays a wallet address (or any pay-to-pubkey-hash output of a transaction the wallet
spends in) carrying a claim/support script whose *name bytes are not UTF-8* makes Database.txo_to_row raise
UnicodeDecodeError inside the save transaction; the whole batch rolls back, Ledger.update_history dies, and the
address can never be synced again: its history stays empty, its funds (also the older, perfectly ordinary ones)
never show up in balance / UTXO set, and the address gap is not extended.

Claim names are arbitrary bytes on the LBRY chain (the hub itself has a fallback for names that do not decode),
and anybody can send such an output: a "tip" (OP_SUPPORT_CLAIM) for a name b'\\xff\\xfe' to an address of the victim.

Harness: real Ledger / Database(':memory:') / Account; only the wallet server is replaced by an in-process model
that answers blockchain.address.subscribe / get_history / transaction.get_batch truthfully. No scheduling tricks:
notifications are delivered once, sequentially, after each stage.

exit 0: wallet converged to the server's history / balance / UTXO set.   exit 1: it did not.
"""
import sys
import asyncio
import hashlib
import logging
from binascii import hexlify

import lbry.wallet  # noqa: must be imported before lbry.conf
from lbry.wallet import Ledger, Database, Headers, Wallet, Account, Transaction, Output, Input
from lbry.wallet.transaction import TXORef
from lbry.wallet.hash import TXRefImmutable
from lbry.wallet.script import InputScript, OutputScript
from lbry.wallet.stream import StreamController

logging.disable(logging.CRITICAL)


class SimLedger(Ledger):
    network_name = 'simnet'
    checkpoints = {}


class Server:
    """truthful model of the wallet server: append-only transactions, per-address history and status"""

    def __init__(self):
        self.txs, self.heights, self.order, self.subscribed = {}, {}, [], set()

    @staticmethod
    def out_address(txo):
        try:
            if txo.script.is_pay_pubkey_hash:
                return SimLedger.hash160_to_address(txo.pubkey_hash)
        except Exception:
            pass

    def add_tx(self, tx, height):
        tx = Transaction(tx.raw)
        self.txs[tx.id], self.heights[tx.id] = tx, height
        self.order.append(tx.id)
        return tx

    def addresses_of(self, tx):
        found = {self.out_address(txo) for txo in tx.outputs}
        for txi in tx.inputs:
            prev = self.txs.get(txi.txo_ref.tx_ref.id)
            if prev is not None:
                found.add(self.out_address(prev.outputs[txi.txo_ref.position]))
        return found - {None}

    def history(self, address):
        confirmed = sorted((self.heights[t], i, t) for i, t in enumerate(self.order)
                           if self.heights[t] > 0 and address in self.addresses_of(self.txs[t]))
        mempool = [(t, self.heights[t]) for t in self.order
                   if self.heights[t] <= 0 and address in self.addresses_of(self.txs[t])]
        return [(t, h) for h, _, t in confirmed] + mempool

    def status(self, address):
        history = ''.join(f'{t}:{h}:' for t, h in self.history(address))
        return hexlify(hashlib.sha256(history.encode()).digest()).decode() if history else None

    def utxos(self, addresses):
        spent = {f'{txi.txo_ref.tx_ref.id}:{txi.txo_ref.position}' for tx in self.txs.values() for txi in tx.inputs}
        return {txo.id: txo for tx in self.txs.values() for txo in tx.outputs
                if self.out_address(txo) in addresses and txo.id not in spent}


class FakeNetwork:
    def __init__(self, server):
        self.server = server
        self.on_header = StreamController().stream
        self.on_status = StreamController().stream
        self.is_connected, self.client, self.remote_height = True, None, 0

    async def retriable_call(self, function, *args, **kwargs):
        return await function(*args, **kwargs)

    async def subscribe_address(self, address, *addresses):
        self.server.subscribed.update([address, *addresses])
        return [self.server.status(a) for a in [address, *addresses]]

    async def get_history(self, address):
        return [{'tx_hash': t, 'height': h} for t, h in self.server.history(address)]

    async def get_transaction_batch(self, txids, restricted=True):
        assert len(txids) <= 100
        return {t: (hexlify(self.server.txs[t].raw).decode(),
                    {'block_height': self.server.heights[t] if self.server.heights[t] > 0 else -1}) for t in txids}


_n = [0]


def third_party_input():
    _n[0] += 1
    prev = hashlib.sha256(b'somebody elses coin %d' % _n[0]).digest()
    return Input(TXORef(TXRefImmutable.from_hash(prev, -1), 0), InputScript.redeem_pubkey_hash(b'\x01' * 72, b'\x02' * 33))


def spend_input(txo):
    return Input(TXORef(TXRefImmutable.from_id(txo.tx_ref.id, -1), txo.position),
                 InputScript.redeem_pubkey_hash(b'\x01' * 72, b'\x02' * 33))


def make_tx(inputs, outputs):
    return Transaction(Transaction().add_inputs(inputs).add_outputs(outputs).raw)


async def settle(ledger):
    for _ in range(100):
        await asyncio.sleep(0)
        if not len(ledger._update_tasks):
            await asyncio.sleep(0)
            if not len(ledger._update_tasks):
                return
        await ledger._update_tasks.done.wait()


async def notify(ledger, server):
    for address in sorted(server.subscribed):
        ledger.process_status_update((address, server.status(address)))
    await settle(ledger)
    await asyncio.sleep(0.05)


async def check(ledger, server, account, label):
    problems = []
    records = await ledger.db.get_addresses(accounts=[account])
    addresses = {r['address'] for r in records}
    for r in records:
        remote = ''.join(f'{t}:{h}:' for t, h in server.history(r['address']))
        if (r['history'] or '') != remote:
            problems.append(f"history of {r['address']} (chain {r['chain']}, n={r['pubkey'].n}): wallet has "
                            f"{(r['history'] or '').count(':') // 2} entries, server has {remote.count(':') // 2}")
    truth = server.utxos(addresses)
    local = {txo.id for txo in await ledger.db.get_utxos(accounts=[account], no_tx=True, no_channel_info=True)}
    if local != set(truth):
        problems.append(f"UTXO set: wallet misses {sorted(set(truth) - local)}, wallet has extra {sorted(local - set(truth))}")
    total = sum(txo.amount for txo in truth.values())
    plain = sum(txo.amount for txo in truth.values() if not txo.script.is_claim_involved)
    detailed = await account.get_detailed_balance()
    if (detailed['total'], detailed['available']) != (total, plain):
        problems.append(f"balance: wallet total={detailed['total']} available={detailed['available']}, "
                        f"server-side truth total={total} spendable={plain}")
    for chain, manager in account.address_managers.items():
        chain_records = [r for r in records if r['chain'] == chain]
        used = [r['pubkey'].n for r in chain_records if server.history(r['address'])]
        if len(chain_records) < (max(used) + 1 if used else 0) + manager.gap:
            problems.append(f"gap of chain {chain} not maintained: last used n={max(used)}, "
                            f"{len(chain_records)} addresses exist, gap is {manager.gap}")
    print(f'--- {label}: ' + ('OK' if not problems else 'VIOLATION'))
    for p in problems:
        print('    ' + p)
    return problems


async def scenario(kind):
    server = Server()
    ledger = SimLedger({'db': Database(':memory:'), 'headers': Headers(':memory:'), 'network': FakeNetwork(server)})
    await ledger.db.open()
    await ledger.headers.open()
    account = Account.from_dict(ledger, Wallet(), {'seed': ' '.join(['abandon'] * 11 + ['about'])})
    await ledger.subscribe_account(account)
    await settle(ledger)
    recv = [r['address'] for r in sorted(await account.receiving.get_address_records(), key=lambda r: r['pubkey'].n)]
    chg = [r['address'] for r in sorted(await account.change.get_address_records(), key=lambda r: r['pubkey'].n)]
    h160 = ledger.address_to_hash160
    bad_name = b'\xff\xfe'  # not UTF-8

    # stage 1: an ordinary payment of 1000 to receiving address #0
    t1 = server.add_tx(make_tx([third_party_input()], [Output.pay_pubkey_hash(1000, h160(recv[0]))]), 5)
    await notify(ledger, server)
    problems = await check(ledger, server, account, f'{kind}: stage 1 (ordinary payment)')

    if kind == 'tip to a wallet address':
        # stage 2: somebody tips 700 to the same address, as a support for a claim whose name is not UTF-8
        tip = Output(700, OutputScript.pay_support_pubkey_hash(bad_name, b'\x11' * 20, h160(recv[0])))
        server.add_tx(make_tx([third_party_input()], [tip, Output.pay_pubkey_hash(5, b'\x07' * 20)]), 6)
    else:
        # stage 2: the wallet's coin is spent in a transaction that also carries a THIRD-PARTY support output
        # (to somebody else's address) for a claim whose name is not UTF-8; change goes to change address #0
        foreign = Output(300, OutputScript.pay_support_pubkey_hash(bad_name, b'\x11' * 20, b'\x07' * 20))
        server.add_tx(make_tx([spend_input(t1.outputs[0])], [foreign, Output.pay_pubkey_hash(600, h160(chg[0]))]), 6)
    await notify(ledger, server)
    await notify(ledger, server)  # delivering the notifications again does not help either
    problems += await check(ledger, server, account, f'{kind}: stage 2 (name bytes that are not UTF-8)')
    await ledger.db.close()
    return problems


async def main():
    problems = []
    for kind in ('tip to a wallet address', 'third-party output in a transaction spending a wallet coin'):
        problems += await scenario(kind)
    if problems:
        print('FAIL: wallet did not converge to the server state')
        return 1
    print('PASS: wallet converged in all scenarios')
    return 0


if __name__ == '__main__':
    sys.exit(asyncio.run(main()))
