"""
C17 / F2 - a store request that is NOT a well-formed protocol message (its blob hash is a bencoded
list of 48 items instead of a 48 byte string) is rejected by the node - error reply sent, sender's
failure recorded - but it has already rewritten the stored announcements: KademliaRPC.store calls
rpc_contact.update_tcp_port(port) before the request has been validated, and the contact object is
the one held by every announcement this sender made earlier.

Real code under test: KademliaProtocol / KademliaRPC / DictDataStore of node N; P and Q are real
KademliaProtocol peers.  Outside replaced: the UDP network (in-memory transport, sendto() schedules
datagram_received on the destination with loop.call_later).  The malformed datagram is a plain byte
string (< 400 bytes) delivered from P's address.

exit 0: property holds, exit 1: violated.
"""
import asyncio
import logging
import sys

from lbry.dht import constants
from lbry.dht.peer import PeerManager, make_kademlia_peer
from lbry.dht.protocol.protocol import KademliaProtocol
from lbry.dht.serialization.datagram import decode_datagram, decode_compact_address, ErrorDatagram

logging.disable(logging.CRITICAL)


class Net:
    def __init__(self, loop):
        self.loop, self.endpoints, self.log = loop, {}, []

    def send(self, src, dst, data):
        self.log.append((src, dst, data))
        if dst in self.endpoints:
            self.loop.call_later(0.001, self.endpoints[dst], data, src)


class Transport:
    def __init__(self, net, addr):
        self.net, self.addr = net, addr

    def sendto(self, data, addr):
        self.net.send(self.addr, addr, data)

    def is_closing(self):
        return False

    def close(self):
        pass


def make_node(loop, net, n, ip, udp_port, tcp_port):
    proto = KademliaProtocol(loop, PeerManager(loop), constants.generate_id(n), ip, udp_port, tcp_port)
    proto.connection_made(Transport(net, (ip, udp_port)))
    net.endpoints[(ip, udp_port)] = proto.datagram_received
    return proto


def announcements(node):
    return {
        blob.hex()[:8]: sorted((p.node_id.hex()[:8], p.address, p.tcp_port) for p, _ in stored)
        for blob, stored in node.data_store._data_store.items()
    }


async def main():
    loop = asyncio.get_running_loop()
    net = Net(loop)
    N = make_node(loop, net, 1, '1.2.3.4', 4444, 3333)      # node under test
    P = make_node(loop, net, 2, '5.6.7.8', 4444, 3333)      # announcer, blob server on tcp 3333
    Q = make_node(loop, net, 3, '7.7.7.7', 4444, 3333)      # searcher
    N_at_P = make_kademlia_peer(N.node_id, '1.2.3.4', 4444)
    N_at_Q = make_kademlia_peer(N.node_id, '1.2.3.4', 4444)

    blob_a, blob_b = constants.generate_id(1001), constants.generate_id(1002)
    for blob in (blob_a, blob_b):
        assert await P.get_rpc_peer(N_at_P).store(blob) == b'OK'
    before = announcements(N)
    found_before = [decode_compact_address(c)[1:] for c in (await Q.get_rpc_peer(N_at_Q).find_value(blob_a))[blob_a]]

    # the malformed datagram: store([<list of 48 empty strings>, <token>, 6666, <node id>, 0, {protocolVersion: 1}])
    bad = b'd' \
          b'i0e' b'i0e' \
          b'i1e' b'20:' + constants.generate_rpc_id(77) + \
          b'i2e' b'48:' + P.node_id + \
          b'i3e' b'5:store' \
          b'i4e' b'l' \
          b'l' + b'0:' * 48 + b'e' \
          b'48:' + b'\x00' * 48 + \
          b'i6666e' \
          b'48:' + P.node_id + \
          b'i0e' \
          b'd15:protocolVersioni1ee' \
          b'e' \
          b'e'
    mark = len(net.log)
    fail_before = N.peer_manager._rpc_failures.get(('5.6.7.8', 4444))
    net.send(('5.6.7.8', 4444), ('1.2.3.4', 4444), bad)
    await asyncio.sleep(0.05)
    replies = [decode_datagram(d) for s, dst, d in net.log[mark + 1:] if s == ('1.2.3.4', 4444)]
    fail_after = N.peer_manager._rpc_failures.get(('5.6.7.8', 4444))
    after = announcements(N)
    found_after = [decode_compact_address(c)[1:] for c in (await Q.get_rpc_peer(N_at_Q).find_value(blob_a))[blob_a]]

    rejected = len(replies) == 1 and isinstance(replies[0], ErrorDatagram)
    print("node's reply to the malformed store:",
          [(type(r).__name__, getattr(r, 'exception_type', ''), r.response) for r in replies])
    print("sender's failure recorded:", fail_before != fail_after)
    print("stored announcements before:", before)
    print("stored announcements after: ", after)
    print("find_value(blob_a) served to a searcher before:", found_before, " after:", found_after)
    problems = []
    if not rejected:
        problems.append("the malformed store was not rejected")
    if fail_before == fail_after:
        problems.append("sender's failure not recorded")
    if before != after:
        problems.append("the rejected, malformed store changed the stored announcements")
    if found_before != found_after:
        problems.append(f"searchers are now sent to {found_after} instead of {found_before}")
    if problems:
        print("C17 VIOLATED:")
        for p in problems:
            print("  -", p)
        return 1
    print("ok: rejected datagram left the stored announcements untouched")
    return 0


if __name__ == '__main__':
    sys.exit(asyncio.run(main()))
