"""
C17 / F4 (clause: compact peer addresses round-trip; may equally be filed under the peer-search property) - the compact peer address a node
SERVES does not round-trip through the decoder the searching node USES when the announced tcp port is
1..1023:  KademliaRPC.store accepts 0 < port < 65535, KademliaPeer.compact_address_tcp() /
make_compact_address encode it, decode_compact_address accepts it, but
decode_tcp_peer_from_compact_address -> KademliaPeer rejects tcp ports below 1024 with ValueError.
IterativeValueFinder.send_probe then treats the honest storing node as misbehaving: it records a failure
against it and throws away the WHOLE page of peers.  One well-formed store(port=80) from any node
therefore hides every honest announcement of that blob held by the storing node.

Real code: three real Nodes/KademliaProtocols (storing node N, honest announcer A, searcher Q) and the
real IterativeValueFinder; M is a real KademliaProtocol whose configured peer_port is 80 and which
announces through the normal RemoteKademliaRPC.store path.  Outside replaced: the UDP network only.
exit 0: searcher still finds the honest announcer, exit 1: it does not.
"""
import asyncio
import logging
import sys

from lbry.dht import constants
from lbry.dht.error import RemoteException
from lbry.dht.node import Node
from lbry.dht.peer import PeerManager, make_kademlia_peer

logging.disable(logging.CRITICAL)


class Net:
    def __init__(self, loop):
        self.loop, self.endpoints = loop, {}


class Transport:
    def __init__(self, net, addr):
        self.net, self.addr = net, addr

    def sendto(self, data, addr):
        if addr in self.net.endpoints:
            self.net.loop.call_later(0.001, self.net.endpoints[addr], data, self.addr)

    def is_closing(self):
        return False

    def close(self):
        pass


def make_node(loop, net, n, ip, tcp_port):
    node = Node(loop, PeerManager(loop), constants.generate_id(n), 4444, 4444, tcp_port, ip)
    node.protocol.connection_made(Transport(net, (ip, 4444)))
    net.endpoints[(ip, 4444)] = node.protocol.datagram_received
    return node


async def search(q_node, n_peer, blob):
    found = []
    finder = q_node.get_iterative_value_finder(blob, shortlist=[n_peer])
    async for peers in finder:
        found.extend((p.address, p.tcp_port) for p in peers)
    await finder.aclose()
    return found


async def main():
    loop = asyncio.get_running_loop()
    net = Net(loop)
    N = make_node(loop, net, 1, '1.2.3.4', 3333)     # storing node
    A = make_node(loop, net, 2, '5.6.7.8', 3333)     # honest announcer
    M = make_node(loop, net, 3, '6.6.6.6', 80)       # announces the same blob with tcp port 80
    blob = constants.generate_id(4242)
    n_peer = make_kademlia_peer(N.protocol.node_id, '1.2.3.4', 4444)
    assert await A.protocol.get_rpc_peer(n_peer).store(blob) == b'OK'

    Q1 = make_node(loop, net, 4, '7.7.7.7', 3333)
    before = await search(Q1, n_peer, blob)
    print("search before:", before, " N rated by searcher:", Q1.protocol.peer_manager.peer_is_good(n_peer))

    try:
        reply = await M.protocol.get_rpc_peer(n_peer).store(blob)   # a well-formed store request, port 80
    except RemoteException as err:
        reply = f"rejected: {err}"
    print("N's reply to store(port=80):", reply)

    Q2 = make_node(loop, net, 5, '8.8.4.4', 3333)
    after = await search(Q2, n_peer, blob)
    failure = Q2.protocol.peer_manager._rpc_failures.get(('1.2.3.4', 4444))
    print("search after: ", after, " failure recorded by searcher against honest N:", failure is not None)
    if ('5.6.7.8', 3333) not in after:
        print("VIOLATED: the address N serves for the port-80 announcement does not decode at the searcher; the whole "
              "page (including the honest announcer) is dropped and N is charged with a failure")
        return 1
    return 0


if __name__ == '__main__':
    sys.exit(asyncio.run(main()))
