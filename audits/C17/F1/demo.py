"""
C17 / F1 - a malformed request that carries the node id of a peer we already know is not
charged to its sender: the error reply and the recorded failure go to the *known peer's*
address, and that innocent peer's stored announcement stops being served and is purged.

Real code under test: lbry.dht.protocol.protocol.KademliaProtocol (node N), a second real
KademliaProtocol (honest peer P).  Outside of the system replaced: the UDP network (an in-memory
transport whose sendto() schedules datagram_received on the destination with loop.call_later).
The attacker M only needs to send ONE datagram from its own address (no IP spoofing): a ping
whose method was mutated by one byte (b'pinx') and whose node-id field is P's public node id.

exit 0: property holds, exit 1: violated.
"""
import asyncio
import logging
import sys

from lbry.dht import constants
from lbry.dht.peer import PeerManager, make_kademlia_peer
from lbry.dht.protocol.protocol import KademliaProtocol
from lbry.dht.serialization.datagram import RequestDatagram, decode_datagram, ErrorDatagram

logging.disable(logging.CRITICAL)


class Net:
    def __init__(self, loop):
        self.loop = loop
        self.endpoints = {}   # (ip, port) -> callable(data, from_addr)
        self.log = []         # (from, to, data)

    def attach(self, addr, receiver):
        self.endpoints[addr] = receiver

    def send(self, src, dst, data):
        self.log.append((src, dst, data))
        if dst in self.endpoints:
            self.loop.call_later(0.001, self.endpoints[dst], data, src)


class Transport:
    def __init__(self, net, addr):
        self.net, self.addr, self._closing = net, addr, False

    def sendto(self, data, addr):
        self.net.send(self.addr, addr, data)

    def is_closing(self):
        return self._closing

    def close(self):
        self._closing = True


def make_node(loop, net, n, ip, udp_port, tcp_port):
    proto = KademliaProtocol(loop, PeerManager(loop), constants.generate_id(n), ip, udp_port, tcp_port)
    proto.connection_made(Transport(net, (ip, udp_port)))
    net.attach((ip, udp_port), proto.datagram_received)
    proto.start()
    return proto


async def main():
    loop = asyncio.get_running_loop()
    net = Net(loop)
    N = make_node(loop, net, 1, '1.2.3.4', 4444, 3333)      # node under test
    P = make_node(loop, net, 2, '5.6.7.8', 4444, 3333)      # honest peer
    N_at_P = make_kademlia_peer(N.node_id, '1.2.3.4', 4444)
    P_at_N = make_kademlia_peer(P.node_id, '5.6.7.8', 4444)
    M_ADDR = ('9.8.7.6', 4444)                               # the sender of the malformed datagram
    m_inbox = []
    net.attach(M_ADDR, lambda data, src: m_inbox.append((src, data)))

    # history: N and P know each other, P announced a blob to N
    await N.get_rpc_peer(P_at_N).ping()
    blob = constants.generate_id(1234)
    assert await P.get_rpc_peer(N_at_P).store(blob) == b'OK'
    await asyncio.sleep(0.3)  # routing table task adds P
    assert N.routing_table.get_peer(P.node_id) is not None, "setup: P must be in N's routing table"
    assert [p.node_id for p in N.data_store.get_peers_for_blob(blob)] == [P.node_id], "setup: P's announcement"
    assert N.peer_manager.peer_is_good(P_at_N) is True

    # the malformed datagram: a ping with a one byte mutation in the method name, claiming P's node id,
    # sent by M from M's own address
    good = RequestDatagram.make_ping(P.node_id).bencode()
    bad = good.replace(b'4:ping', b'4:pinx')
    assert bad != good and len(bad) == len(good)
    failures_before = dict(N.peer_manager._rpc_failures.items())
    log_mark = len(net.log)
    net.send(M_ADDR, ('1.2.3.4', 4444), bad)
    await asyncio.sleep(0.1)

    problems = []
    replies = [(dst, decode_datagram(data)) for src, dst, data in net.log[log_mark + 1:] if src == ('1.2.3.4', 4444)]
    failures_after = dict(N.peer_manager._rpc_failures.items())
    new_failures = {k: v for k, v in failures_after.items() if failures_before.get(k) != v}
    print("datagram sent by", M_ADDR, "->", bad[-40:])
    print("N replied to:", [(dst, type(msg).__name__, getattr(msg, 'response', None)) for dst, msg in replies])
    print("failures newly recorded by N:", sorted(new_failures))
    if M_ADDR not in new_failures:
        problems.append(f"no failure recorded for the sender {M_ADDR}")
    if ('5.6.7.8', 4444) in new_failures:
        problems.append("a failure was recorded for the innocent known peer 5.6.7.8:4444 instead")
    if any(dst == ('5.6.7.8', 4444) and isinstance(msg, ErrorDatagram) for dst, msg in replies):
        problems.append("the error reply was sent to the innocent known peer 5.6.7.8:4444, not to the sender")
    if N.peer_manager.peer_is_good(P_at_N) is not True:
        problems.append(f"known peer P is now rated {N.peer_manager.peer_is_good(P_at_N)} (was True)")
    served = [p.node_id for p in N.data_store.get_peers_for_blob(blob)]
    if served != [P.node_id]:
        problems.append(f"P's stored announcement is no longer served by find_value: {served}")
    N.data_store.removed_expired_peers()   # what Node.refresh_node does on every round
    if not N.data_store.has_peers_for_blob(blob):
        problems.append("P's stored announcement was purged from the data store on the next refresh")

    N.stop()
    P.stop()
    if problems:
        print("C17 VIOLATED (malformed datagram not charged to its sender):")
        for p in problems:
            print("  -", p)
        return 1
    print("ok: the malformed datagram was charged to its sender only")
    return 0


if __name__ == '__main__':
    sys.exit(asyncio.run(main()))
