"""
C17 / F3 - decode_compact_address (lbry/dht/serialization/datagram.py) is not total: for a compact
address shorter than 4 bytes it raises IndexError (from str.format) instead of the ValueError it raises
for every other malformed value.  The only product caller, IterativeValueFinder.send_probe, guards the
decode with `except ValueError` to drop the reply and record the sender's failure ("misbehaving peer
... returned invalid peer for blob").  A findValue reply whose peer page holds e.g. b'abc' therefore
is NOT dropped with the sender's failure recorded: the IndexError kills the probe task ("Task exception
was never retrieved"), nothing is recorded against the sender, and the sender is kept as a peer that
replied correctly.

Real code: Node / KademliaProtocol / IterativeValueFinder / decode_compact_address.  Outside replaced:
the UDP network (in-memory transport) and the remote peer S, a script that answers every request with a
well-formed response datagram; only the findValue peer page is malformed.  Control run: the same reply
with a 5 byte entry (ValueError path) is charged to S - that is the behaviour the code intends.

exit 0: both malformed peer pages are charged to the sender, exit 1: not.
"""
import asyncio
import gc
import logging
import sys

from lbry.dht import constants
from lbry.dht.node import Node
from lbry.dht.peer import PeerManager, make_kademlia_peer
from lbry.dht.serialization.datagram import decode_datagram, ResponseDatagram, RESPONSE_TYPE

logging.disable(logging.CRITICAL)
S_ADDR = ('5.6.7.8', 4444)
S_ID = constants.generate_id(2)


class Transport:
    """in-memory network with one scripted remote peer S"""
    def __init__(self, loop, node, bad_entry, blob):
        self.loop, self.node, self.bad_entry, self.blob = loop, node, bad_entry, blob

    def sendto(self, data, addr):
        if addr != S_ADDR:
            return
        req = decode_datagram(data)
        if req.method == b'ping':
            result = b'pong'
        elif req.method == b'findNode':
            result = []
        else:  # findValue: token, no closer contacts, one page of "peers" for the blob
            result = {b'token': b'\x01' * 48, b'contacts': [], b'p': 1, b'protocolVersion': 1,
                      self.blob: [self.bad_entry]}
        reply = ResponseDatagram(RESPONSE_TYPE, req.rpc_id, S_ID, result).bencode()
        self.loop.call_later(0.001, self.node.protocol.datagram_received, reply, S_ADDR)

    def is_closing(self):
        return False

    def close(self):
        pass


async def run(bad_entry):
    loop = asyncio.get_running_loop()
    unhandled = []
    loop.set_exception_handler(lambda l, ctx: unhandled.append(ctx.get('exception')))
    node = Node(loop, PeerManager(loop), constants.generate_id(1), 4444, 4444, 3333, '1.2.3.4')
    blob = constants.generate_id(77)
    node.protocol.connection_made(Transport(loop, node, bad_entry, blob))
    s_peer = make_kademlia_peer(S_ID, *S_ADDR)
    finder = node.get_iterative_value_finder(blob, shortlist=[s_peer])
    results = []
    async for peers in finder:
        results.extend(peers)
    await finder.aclose()
    await asyncio.sleep(0.05)
    gc.collect()
    await asyncio.sleep(0)
    failure = node.protocol.peer_manager._rpc_failures.get(S_ADDR)
    print(f"peer page entry {bad_entry!r}: search results {results}, failure recorded for sender: {failure is not None}, "
          f"sender rated {node.protocol.peer_manager.peer_is_good(s_peer)}, "
          f"unhandled task exceptions: {[repr(e) for e in unhandled]}")
    return failure is not None and not unhandled


async def main():
    control = await run(b'abcde')      # 5 bytes: ValueError path, handled as intended
    short = await run(b'abc')          # 3 bytes: IndexError
    empty = await run(b'')             # 0 bytes: IndexError
    if control and not (short and empty):
        print("C17 VIOLATED: a reply with a malformed compact address shorter than 4 bytes is not charged to its "
              "sender and crashes the probe (decode_compact_address raised IndexError, not ValueError)")
        return 1
    return 0 if control and short and empty else 1


if __name__ == '__main__':
    sys.exit(asyncio.run(main()))
