"""
C02 / F3 - the suggested file name of a published stream can contain control characters.

RE_ILLEGAL_FILENAME_CHARS only strips U+0000..U+001F.  DEL (U+007F) and the C1 control characters
U+0080..U+009F (Unicode category Cc, e.g. U+009B = CSI, the single-character form of "ESC [" that terminals in
UTF-8 mode honour, U+0085 = NEL "next line") survive sanitize_file_name(), so create_stream() commits a
suggested_file_name with control characters into the descriptor, and the downloader's own second call of
sanitize_file_name() does not remove them either.

Input only: files whose (legal, valid UTF-8) names contain such characters are published with the real
StreamDescriptor.create_stream().

exit 0: no suggested file name contains a path separator, NUL or control character;  exit 1 otherwise
"""
import asyncio
import os
import shutil
import sys
import tempfile
import unicodedata
import warnings

warnings.filterwarnings("ignore")
import lbry.wallet  # noqa: E402
from lbry.stream.descriptor import StreamDescriptor, sanitize_file_name  # noqa: E402

NAMES = [
    "holiday\x7f.mp4",                      # DEL
    "invoice\u009b2J\u009b31mPAID.pdf",     # C1 CSI: clears the screen / switches colour when the name is printed
    "notes\u0085hidden.txt",                # C1 NEL: a line break
    "clip.mp\u009f4",                       # control character inside the extension
    "tab\tnew\nline\x1b[0m.txt",            # C0 controls (these ARE handled, kept as a control)
]


def offending(name: str):
    return [f"U+{ord(c):04X}" for c in name if c in '/\\\0' or unicodedata.category(c) == 'Cc']


async def main() -> int:
    loop = asyncio.get_event_loop()
    tmp = tempfile.mkdtemp(prefix='c02f3-')
    failures = 0
    try:
        blob_dir = os.path.join(tmp, 'blobs')
        os.mkdir(blob_dir)
        for name in NAMES:
            path = os.path.join(tmp, name)
            with open(path, 'wb') as f:
                f.write(b'some content')
            descriptor = await StreamDescriptor.create_stream(loop, blob_dir, path)
            for label, suggested in (("descriptor.suggested_file_name", descriptor.suggested_file_name),
                                     ("sanitized again on download  ", sanitize_file_name(
                                         descriptor.suggested_file_name))):
                bad = offending(suggested)
                if bad:
                    failures += 1
                    print(f"published {name!r}: {label} = {suggested!r} contains {', '.join(bad)}")
        if failures:
            print("FAIL: suggested file names contain control characters")
            return 1
        print("OK: no suggested file name contains a path separator, NUL or control character")
        return 0
    finally:
        shutil.rmtree(tmp, ignore_errors=True)


if __name__ == '__main__':
    sys.exit(asyncio.run(main()))
