"""
C02 / F2 - tampered IV / length / blob hash of a valid descriptor pass the stream-hash check on load.

StreamDescriptor.get_blob_hashsum() hashes  blob_hash + str(blob_num) + iv + str(length)  with no separators
and _from_stream_descriptor_blob() never checks the width or type of these fields.  So characters can be moved
across the field boundaries of a VALID descriptor (or the JSON type of `length` changed) without changing the
stream hash; the tampered descriptor blob is loaded without complaint and only blows up later (17-byte IV,
string length, 97-character blob hash, wrong blob length ...).

Input only: a descriptor produced by the real create_stream(), three tamperings of hash-committed fields,
each stored as a blob and loaded with the real StreamDescriptor.from_stream_descriptor_blob().

exit 0: every tampered descriptor is refused (and the genuine one is accepted);  exit 1 otherwise
"""
import asyncio
import copy
import hashlib
import json
import os
import shutil
import sys
import tempfile
import warnings

warnings.filterwarnings("ignore")
import lbry.wallet  # noqa: E402
from lbry.blob import MAX_BLOB_SIZE  # noqa: E402
from lbry.blob.blob_file import BlobFile  # noqa: E402
from lbry.error import InvalidStreamDescriptorError  # noqa: E402
from lbry.stream.descriptor import StreamDescriptor  # noqa: E402


async def load(loop, blob_dir, sd_json: bytes):
    sd_hash = hashlib.sha384(sd_json).hexdigest()
    with open(os.path.join(blob_dir, sd_hash), 'wb') as f:
        f.write(sd_json)
    blob = BlobFile(loop, sd_hash, len(sd_json), None, blob_dir)
    try:
        return await StreamDescriptor.from_stream_descriptor_blob(loop, blob_dir, blob)
    except Exception as err:  # any exception is a refusal
        return err


def ivs():
    # a legal IV sequence: 16 bytes each, all different; the IV of blob #1 starts with the hex digit "1"
    n = 0
    while True:
        yield bytes([0x1a + n]) + bytes([n]) * 15
        n += 1


async def main() -> int:
    loop = asyncio.get_event_loop()
    tmp = tempfile.mkdtemp(prefix='c02f2-')
    try:
        blob_dir = os.path.join(tmp, 'blobs')
        os.mkdir(blob_dir)
        file_path = os.path.join(tmp, 'video.mp4')
        with open(file_path, 'wb') as f:
            f.write(os.urandom(MAX_BLOB_SIZE - 1 + 123450))  # blob #0: 2097152 bytes, blob #1: 123456 bytes
        published = await StreamDescriptor.create_stream(loop, blob_dir, file_path, key=b'k' * 16,
                                                         iv_generator=ivs())
        good = json.loads(published.as_json())
        if isinstance(await load(loop, blob_dir, published.as_json()), Exception):
            print("FAIL: the genuine descriptor is refused")
            return 1
        assert good['blobs'][1]['length'] == 123456 and good['blobs'][1]['iv'].startswith('1')

        tampered = {}
        # 1. move the first two digits of blob #1's length to the end of its IV (IV: 17 bytes, length: 3456)
        t = copy.deepcopy(good)
        t['blobs'][1]['iv'] = good['blobs'][1]['iv'] + '12'
        t['blobs'][1]['length'] = 3456
        tampered["IV '%s'->'%s' and length 123456->3456 of blob #1" % (good['blobs'][1]['iv'], t['blobs'][1]['iv'])] = t
        # 2. change the JSON type of a length: 2097152 -> "2097152"
        t = copy.deepcopy(good)
        t['blobs'][0]['length'] = str(good['blobs'][0]['length'])
        tampered["length of blob #0: 2097152 (number) -> \"2097152\" (string)"] = t
        # 3. shift one character through blob #1: blob_hash grows to 97 characters, IV and length change
        t = copy.deepcopy(good)
        t['blobs'][1]['blob_hash'] = good['blobs'][1]['blob_hash'] + '1'
        t['blobs'][1]['iv'] = good['blobs'][1]['iv'][1:] + '1'
        t['blobs'][1]['length'] = 23456
        tampered["blob_hash (+'1'), IV (rotated) and length (123456->23456) of blob #1"] = t

        failures = 0
        for what, descriptor_dict in tampered.items():
            result = await load(loop, blob_dir, json.dumps(descriptor_dict, sort_keys=True).encode())
            if isinstance(result, Exception):
                print(f"refused  ({type(result).__name__}: {result}): {what}")
            else:
                failures += 1
                b = result.blobs[1]
                print(f"ACCEPTED (stream_hash unchanged: {result.stream_hash == published.stream_hash}): {what}\n"
                      f"          loaded blob #0 length={result.blobs[0].length!r}; blob #1 iv={b.iv} "
                      f"length={b.length!r} len(blob_hash)={len(b.blob_hash)}")
        if failures:
            print(f"FAIL: {failures} tampered descriptor(s) were loaded as valid")
            return 1
        print("OK: every tampered descriptor was refused")
        return 0
    finally:
        shutil.rmtree(tmp, ignore_errors=True)


if __name__ == '__main__':
    sys.exit(asyncio.run(main()))
