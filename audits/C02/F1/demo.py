"""
C02 / F1 - a failed blob write during publish is reported as success.

The operating system refuses part of a blob write while a file is being published (here: EFBIG from
RLIMIT_FSIZE, the same OSError path as ENOSPC "disk full" / EDQUOT / EIO).  Nothing of the product is
patched; the only thing forced is the file system's failure behaviour, through a real kernel limit.

Property: after a successful publish every data blob is named by the SHA-384 of its ciphertext and
decrypting the blobs in descriptor order reproduces the file.  A publish that fails loudly is fine.

exit 0: create_stream raised (publish failed visibly, no corrupt blob left) or the stream round-trips
exit 1: create_stream returned a descriptor although a blob it names is not on disk intact
"""
import asyncio
import binascii
import hashlib
import logging
import os
import resource
import shutil
import signal
import sys
import tempfile
import warnings

warnings.filterwarnings("ignore")
import lbry.wallet  # noqa: E402  (import order required by the package)
from lbry.blob import MAX_BLOB_SIZE  # noqa: E402
from lbry.blob.blob_file import BlobFile  # noqa: E402
from lbry.stream.descriptor import StreamDescriptor  # noqa: E402

logging.getLogger("asyncio").setLevel(logging.CRITICAL)
LIMIT = 1 << 20  # files may not grow beyond 1 MiB while the limit is in force


def check_stream(loop, blob_dir, descriptor, plaintext) -> list:
    problems, out = [], b''
    for info in descriptor.blobs[:-1]:
        path = os.path.join(blob_dir, info.blob_hash)
        if not os.path.isfile(path):
            problems.append(f"blob #{info.blob_num} {info.blob_hash[:12]}.. is missing on disk")
            continue
        raw = open(path, 'rb').read()
        if len(raw) != info.length or hashlib.sha384(raw).hexdigest() != info.blob_hash:
            problems.append(f"blob #{info.blob_num} {info.blob_hash[:12]}.. holds {len(raw)} bytes whose SHA-384 is "
                            f"{hashlib.sha384(raw).hexdigest()[:12]}.., descriptor says {info.length} bytes")
            continue
        out += BlobFile(loop, info.blob_hash, info.length, None, blob_dir).decrypt(
            binascii.unhexlify(descriptor.key), binascii.unhexlify(info.iv))
    if not problems and out != plaintext:
        problems.append("decrypted stream differs from the published file")
    return problems


async def main() -> int:
    loop = asyncio.get_event_loop()
    tmp = tempfile.mkdtemp(prefix='c02f1-')
    try:
        blob_dir = os.path.join(tmp, 'blobs')
        os.mkdir(blob_dir)
        file_path = os.path.join(tmp, 'video.bin')
        plaintext = os.urandom(MAX_BLOB_SIZE - 1 + 1000)  # one full 2 MiB blob + one small blob
        with open(file_path, 'wb') as f:
            f.write(plaintext)

        # control: without the fault the same publish round-trips
        control_dir = os.path.join(tmp, 'control')
        os.mkdir(control_dir)
        control = await StreamDescriptor.create_stream(loop, control_dir, file_path)
        assert not check_stream(loop, control_dir, control, plaintext), "control run failed"

        # the fault: the kernel refuses to let any file grow beyond 1 MiB -> write() raises OSError(EFBIG)
        signal.signal(signal.SIGXFSZ, signal.SIG_IGN)
        soft, hard = resource.getrlimit(resource.RLIMIT_FSIZE)
        resource.setrlimit(resource.RLIMIT_FSIZE, (LIMIT, hard))
        try:
            descriptor = await asyncio.wait_for(StreamDescriptor.create_stream(loop, blob_dir, file_path), 30)
        except OSError as err:
            descriptor, error = None, err
        finally:
            resource.setrlimit(resource.RLIMIT_FSIZE, (soft, hard))

        if descriptor is None:
            leftovers = [name for name in os.listdir(blob_dir)
                         if hashlib.sha384(open(os.path.join(blob_dir, name), 'rb').read()).hexdigest() != name]
            if leftovers:
                print(f"FAIL: publish raised {error!r} but left corrupt blob files behind: {leftovers}")
                return 1
            print(f"OK: the publish failed visibly ({error!r}) and left no corrupt blob behind")
            return 0
        problems = check_stream(loop, blob_dir, descriptor, plaintext)
        if problems:
            print("FAIL: create_stream() returned a descriptor (sd_hash %s..) as if the publish had succeeded, but:"
                  % descriptor.sd_hash[:12])
            for problem in problems:
                print("   -", problem)
            return 1
        print("OK: stream round-trips")
        return 0
    finally:
        shutil.rmtree(tmp, ignore_errors=True)


if __name__ == '__main__':
    sys.exit(asyncio.run(main()))
