"""
C02 / F4 - a publish whose (key, IV, plaintext chunk) repeats fails with "File already exists".

create_from_unencrypted() always asks a fresh BlobFile for a writer.  When a blob with the same hash is
already in the blob directory (the BlobFile constructor then marks it verified) get_blob_writer() raises
OSError, so create_stream() aborts - although the blob that is needed is already there, byte for byte
(make_sd_blob() handles exactly this case for the descriptor blob with `if not sd_blob.get_is_verified()`).

It happens for perfectly legal inputs of the quantifier "all file contents, all keys/IV sequences":
  A. one file with two identical 2 MiB-1 chunks published with an IV sequence that repeats
  B. the same file published a second time with the same key and IV sequence into the same blob directory
     (the second time something happens to the same object)

Input only; nothing is patched.
exit 0: both publishes succeed and round-trip;  exit 1: a publish raised or the round trip failed
"""
import asyncio
import binascii
import os
import shutil
import sys
import tempfile
import warnings

warnings.filterwarnings("ignore")
import lbry.wallet  # noqa: E402
from lbry.blob import MAX_BLOB_SIZE  # noqa: E402
from lbry.blob.blob_file import BlobFile  # noqa: E402
from lbry.stream.descriptor import StreamDescriptor  # noqa: E402

KEY = b'0123456789abcdef'


def constant_ivs():
    while True:
        yield b'\x07' * 16


def counting_ivs():
    n = 0
    while True:
        n += 1
        yield n.to_bytes(16, 'big')


def decrypt_stream(loop, blob_dir, descriptor) -> bytes:
    return b''.join(
        BlobFile(loop, info.blob_hash, info.length, None, blob_dir).decrypt(
            binascii.unhexlify(descriptor.key), binascii.unhexlify(info.iv))
        for info in descriptor.blobs[:-1]
    )


async def publish(loop, blob_dir, path, ivs, label) -> bool:
    try:
        descriptor = await StreamDescriptor.create_stream(loop, blob_dir, path, key=KEY, iv_generator=ivs)
    except Exception as err:
        print(f"{label}: create_stream raised {type(err).__name__}: {str(err)[:60]}...")
        return False
    with open(path, 'rb') as f:
        ok = decrypt_stream(loop, blob_dir, descriptor) == f.read()
    print(f"{label}: published, round trip {'ok' if ok else 'WRONG'}")
    return ok


async def main() -> int:
    loop = asyncio.get_event_loop()
    tmp = tempfile.mkdtemp(prefix='c02f4-')
    try:
        blob_dir = os.path.join(tmp, 'blobs')
        os.mkdir(blob_dir)
        results = []

        path_a = os.path.join(tmp, 'zeros.img')
        with open(path_a, 'wb') as f:
            f.write(b'\x00' * (2 * (MAX_BLOB_SIZE - 1)))  # exactly two identical full chunks
        results.append(await publish(loop, blob_dir, path_a, constant_ivs(), "A  (repeating IV, repeating chunk)"))

        path_b = os.path.join(tmp, 'hello.txt')
        with open(path_b, 'wb') as f:
            f.write(b'hello world')
        results.append(await publish(loop, blob_dir, path_b, counting_ivs(), "B1 (first publish)               "))
        results.append(await publish(loop, blob_dir, path_b, counting_ivs(), "B2 (same file, key and IVs again)"))

        if all(results):
            print("OK")
            return 0
        print("FAIL: a non-empty file with a legal key / IV sequence could not be published")
        return 1
    finally:
        shutil.rmtree(tmp, ignore_errors=True)


if __name__ == '__main__':
    sys.exit(asyncio.run(main()))
