"""
C19 / F2: two cleanup passes that overlap (the periodic DiskSpaceManager.cleaning_loop pass and a
user-issued `blob_clean` RPC -> Daemon.jsonrpc_blob_clean -> DiskSpaceManager.clean) delete twice the
excess: the second pass measures usage BEFORE the first pass has removed its blobs from the database
but lists the removable blobs AFTER, so it picks a fresh set of victims for an excess that is already gone.

Nothing of the product is altered.  The harness only chooses WHEN the user's RPC arrives: at the moment
the periodic pass calls storage.stop_all_files() (i.e. it has already selected its victims).  All
database calls go through the real AIOSQLite (single writer thread + FIFO asyncio.Lock), so the order
of the queries is the order the real code produces for that arrival time:
    A.usage A.sd_list A.content_list | A.stop_all_files  B.usage  A.delete  B.sd_list  B.content_list  B.delete

Set-up: one downloaded stream of 6 full 2 MB blobs (12 MB), blob_storage_limit = 10 MB  -> excess 2 MB.
A single pass removes exactly one 2 MB blob.  Expected for any number of passes: 10 MB remain.
"""
import asyncio
import os
import shutil
import sys
import tempfile

import lbry.wallet  # noqa: F401
from lbry.conf import Config
from lbry.extras.daemon.storage import SQLiteStorage
from lbry.blob.blob_manager import BlobManager
from lbry.blob.disk_space_manager import DiskSpaceManager
from lbry.stream.descriptor import StreamDescriptor
from lbry.stream.managed_stream import ManagedStream

MB = 1024 * 1024
FULL = 2 * MB - 1   # plaintext bytes that make one full 2 MB blob


async def download_stream(loop, conf, bm, root, name, n_full_blobs):
    """Create a stream 'remotely', hand its blobs to the local BlobManager through the normal
    blob-writer path (what a blob exchange client does) and start it with the real ManagedStream."""
    remote = os.path.join(root, "remote-" + name)
    os.mkdir(remote)
    src = os.path.join(root, name)
    with open(src, "wb") as f:
        f.write(os.urandom(n_full_blobs * FULL))
    descriptor = await StreamDescriptor.create_stream(loop, remote, src)
    os.remove(src)
    for blob_hash in [descriptor.sd_hash] + [b.blob_hash for b in descriptor.blobs[:-1]]:
        with open(os.path.join(remote, blob_hash), "rb") as f:
            data = f.read()
        blob = bm.get_blob(blob_hash, len(data))
        writer = blob.get_blob_writer("10.0.0.1", 3333)
        writer.write(data)
        await blob.verified.wait()
    shutil.rmtree(remote)
    await asyncio.sleep(0.1)
    stream = ManagedStream(loop, conf, bm, descriptor.sd_hash, download_directory=root, file_name=name)
    await stream.start(save_now=False)
    await stream.stop()
    return [b.blob_hash for b in descriptor.blobs[:-1]]


async def main():
    loop = asyncio.get_running_loop()
    root = tempfile.mkdtemp(prefix="c19f2-")
    try:
        blob_dir = os.path.join(root, "blobfiles")
        os.mkdir(blob_dir)
        conf = Config(data_dir=root, download_dir=root, wallet_dir=root, fixed_peers=[], reflect_streams=False,
                      blob_storage_limit=10, network_storage_limit=0)
        storage = SQLiteStorage(conf, os.path.join(root, "lbrynet.sqlite"), loop)
        await storage.open()
        bm = BlobManager(loop, blob_dir, storage, conf)
        await bm.setup()
        hashes = await download_stream(loop, conf, bm, root, "video.bin", 6)
        dsm = DiskSpaceManager(conf, storage, bm)
        used = await dsm.get_space_used_mb(cached=False)
        print("before:", used, "limit:", conf.blob_storage_limit, "MB")
        assert used["content_storage"] == 12, used

        # ---- the user's `blob_clean` RPC arrives while the periodic pass is running -------------
        second = []
        real_stop_all_files = storage.stop_all_files

        def stop_all_files_observed():
            if not second:   # first pass reached "victims selected"; this is when the RPC comes in
                second.append(loop.create_task(dsm.clean()))
            return real_stop_all_files()
        storage.stop_all_files = stop_all_files_observed

        await dsm.clean()            # periodic pass (cleaning_loop body)
        await second[0]              # the RPC's pass
        storage.stop_all_files = real_stop_all_files

        used_after = await dsm.get_space_used_mb(cached=False)
        left = [h for h in hashes if os.path.isfile(os.path.join(blob_dir, h))]
        freed_mb = 2 * (len(hashes) - len(left))
        print("after :", used_after, f"-> {len(hashes) - len(left)} blobs / {freed_mb} MB freed for an excess of 2 MB")
        bm.stop()
        await storage.close()
    finally:
        shutil.rmtree(root, ignore_errors=True)

    if freed_mb > 2:
        print(f"C19 VIOLATED: overlapping passes freed {freed_mb} MB, the excess was 2 MB and a single blob "
              f"(2 MB, exactly representable in whole megabytes) was enough; usage is now "
              f"{used_after['content_storage']} MB, {10 - used_after['content_storage']} MB below the limit")
        return 1
    print("C19 holds: exactly the excess was freed")
    return 0


if __name__ == "__main__":
    sys.exit(asyncio.run(main()))
