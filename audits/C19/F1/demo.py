"""
C19 / F1: after a start-up stream recovery the user's own published blobs are re-labelled
is_mine=0 and the next cleanup pass deletes them.

History (every step is the product's own code; the only outside event is that the small
sd-blob FILE of the published stream is missing from the blob directory at the next start -
deleted by hand, lost in a crash before it reached the disk, blob dir on a drive that was
not mounted ... - the exact situation StreamManager.initialize_from_database() ->
recover_streams() exists for):

 1. the user publishes a file (StreamManager.create)      -> 3 data blobs + sd blob, is_mine=1
 2. cleanup pass with blob_storage_limit=1 MB              -> deletes nothing (all blobs are the user's own)
 3. daemon restart, sd blob file missing                   -> recover_streams() rebuilds the sd blob and
    re-stores the stream; SQLiteStorage.recover_streams deletes the blob rows and re-inserts them
    from BlobInfo objects that carry the default is_mine=False
 4. cleanup pass (same limit)                              -> deletes the user's published blobs
"""
import asyncio
import os
import shutil
import sys
import tempfile

import lbry.wallet  # noqa: F401  (must be imported before lbry.conf)
from lbry.conf import Config
from lbry.extras.daemon.storage import SQLiteStorage
from lbry.blob.blob_manager import BlobManager
from lbry.blob.disk_space_manager import DiskSpaceManager
from lbry.stream.stream_manager import StreamManager
from lbry.schema.claim import Claim


async def blob_rows(storage, hashes):
    rows = await storage.db.execute_fetchall(
        "select blob_hash, is_mine, status from blob where blob_hash in (%s)" % ",".join("?" * len(hashes)), hashes
    )
    return {h: (mine, status) for h, mine, status in rows}


async def main():
    loop = asyncio.get_running_loop()
    root = tempfile.mkdtemp(prefix="c19f1-")
    problems = []
    try:
        blob_dir = os.path.join(root, "blobfiles")
        os.mkdir(blob_dir)
        conf = Config(data_dir=root, download_dir=root, wallet_dir=root,
                      blob_storage_limit=1, network_storage_limit=0, reflect_streams=False)
        db_path = os.path.join(root, "lbrynet.sqlite")

        # ---- epoch 1: publish -------------------------------------------------------------
        storage = SQLiteStorage(conf, db_path, loop)
        await storage.open()
        bm = BlobManager(loop, blob_dir, storage, conf)
        await bm.setup()
        sm = StreamManager(loop, conf, bm, None, storage, None)
        src = os.path.join(root, "my_video.bin")
        with open(src, "wb") as f:
            f.write(os.urandom(5 * 1024 * 1024))
        stream = await sm.create(src)
        await asyncio.sleep(0.2)  # let the blob_completed tasks land
        sd_hash = stream.sd_hash
        # what Daemon.jsonrpc_stream_create / jsonrpc_publish does after broadcasting the claim transaction
        claim = Claim()
        claim.stream.source.sd_hash = sd_hash
        claim.stream.title = "my video"
        txid, nout = "ab" * 32, 0
        await storage.save_claims([{
            "claim_id": "cd" * 20, "name": "my-video", "amount": "1.0", "address": "bT6wc54qiUUYt34HQF9wnW8b2o2yQTXf2S",
            "txid": txid, "nout": nout, "value": claim, "height": -1, "claim_sequence": -1,
        }])
        await storage.save_content_claim(stream.stream_hash, f"{txid}:{nout}")
        own = [b.blob_hash for b in stream.descriptor.blobs[:-1]] + [sd_hash]
        before = await blob_rows(storage, own)
        assert all(m == 1 and s == "finished" for m, s in before.values()), before

        dsm = DiskSpaceManager(conf, storage, bm)
        n = await dsm.clean()
        present = [h for h in own if os.path.isfile(os.path.join(blob_dir, h))]
        print(f"epoch 1: published {len(own)} blobs, usage={await dsm.get_space_used_mb(False)}; "
              f"cleanup (limit 1 MB) left {len(present)}/{len(own)} own blobs on disk")
        if len(present) != len(own):
            problems.append("cleanup removed own blobs already before the restart")

        # ---- shutdown ---------------------------------------------------------------------
        await sm.stop()
        bm.stop()
        await storage.close()

        # ---- the outside event: the sd blob file is gone at the next start ------------------
        os.remove(os.path.join(blob_dir, sd_hash))

        # ---- epoch 2: normal start-up sequence ----------------------------------------------
        storage = SQLiteStorage(conf, db_path, loop)
        await storage.open()
        bm = BlobManager(loop, blob_dir, storage, conf)
        await bm.setup()
        sm = StreamManager(loop, conf, bm, None, storage, None)
        await sm.initialize_from_database()      # -> recover_streams()
        await asyncio.sleep(0.2)
        after = await blob_rows(storage, own)
        print("epoch 2: (is_mine, status) of the published blobs after start-up recovery:",
              sorted(set(after.values())))
        if any(m != 1 for m, _ in after.values()):
            problems.append(f"{sum(1 for m, _ in after.values() if m != 1)}/{len(own)} blobs of the user's own "
                            f"published stream are is_mine=0 after start-up recovery")

        dsm = DiskSpaceManager(conf, storage, bm)
        await dsm.clean()
        gone = [h for h in own if not os.path.isfile(os.path.join(blob_dir, h))]
        print(f"epoch 2: cleanup pass (limit 1 MB) removed {len(gone)}/{len(own)} of the user's published blobs")
        if gone:
            problems.append(f"cleanup pass deleted {len(gone)} blobs the user published")

        await sm.stop()
        bm.stop()
        await storage.close()
    finally:
        shutil.rmtree(root, ignore_errors=True)

    if problems:
        print("C19 VIOLATED (never removes blobs the user published):")
        for p in problems:
            print("  -", p)
        return 1
    print("C19 holds: own blobs survived recovery + cleanup")
    return 0


if __name__ == "__main__":
    sys.exit(asyncio.run(main()))
