"""
C19 / F4: blobs that belong to more than one downloaded stream are counted once per stream by
get_stored_blob_disk_usage() (`blob left join stream_blob` yields one row per (blob, stream) pair), so a
cleanup pass deletes content although the content class is within blob_storage_limit.

Input (legal, remote-controlled): two published streams whose descriptors reference the same data blobs
(same key, same blob hashes; only the stream name differs, hence different stream_hash / sd_hash - both
descriptors pass every validation of StreamDescriptor.from_stream_descriptor_blob).  The user downloads
both; the blob files exist once on disk.

  blob_storage_limit = 12 MB
  stream X (older, unrelated)     : 2 x 2 MB           = 4 MB on disk
  streams A and B (shared blobs)  : 3 x 2 MB, stored once = 6 MB on disk
  real content usage = 10 MB  (<= 12 MB)  -> a pass must remove nothing
Observed: usage is reported as 16 MB and the pass deletes stream X's blobs.
"""
import asyncio
import os
import shutil
import sys
import tempfile

import lbry.wallet  # noqa: F401
from lbry.conf import Config
from lbry.extras.daemon.storage import SQLiteStorage
from lbry.blob.blob_manager import BlobManager
from lbry.blob.disk_space_manager import DiskSpaceManager
from lbry.stream.descriptor import StreamDescriptor
from lbry.stream.managed_stream import ManagedStream

MB = 1024 * 1024
FULL = 2 * MB - 1


async def receive(bm, remote, blob_hash):
    """hand one remote blob to the local BlobManager through the normal blob-writer path"""
    with open(os.path.join(remote, blob_hash), "rb") as f:
        data = f.read()
    blob = bm.get_blob(blob_hash, len(data))
    if not blob.get_is_verified():
        blob.get_blob_writer("10.0.0.1", 3333).write(data)
        await blob.verified.wait()


async def download(loop, conf, bm, root, remote, descriptor, name):
    for blob_hash in [descriptor.sd_hash] + [b.blob_hash for b in descriptor.blobs[:-1]]:
        await receive(bm, remote, blob_hash)
    await asyncio.sleep(0.1)
    stream = ManagedStream(loop, conf, bm, descriptor.sd_hash, download_directory=root, file_name=name)
    await stream.start(save_now=False)     # real path: StreamDownloader.start -> store_stream, save_downloaded_file
    await stream.stop()


async def main():
    loop = asyncio.get_running_loop()
    root = tempfile.mkdtemp(prefix="c19f4-")
    try:
        blob_dir = os.path.join(root, "blobfiles")
        remote = os.path.join(root, "remote")
        os.mkdir(blob_dir)
        os.mkdir(remote)
        conf = Config(data_dir=root, download_dir=root, wallet_dir=root, fixed_peers=[], reflect_streams=False,
                      blob_storage_limit=12, network_storage_limit=0)
        storage = SQLiteStorage(conf, os.path.join(root, "lbrynet.sqlite"), loop)
        await storage.open()
        bm = BlobManager(loop, blob_dir, storage, conf)
        await bm.setup()

        # remote side: stream X, stream A, and stream B = A's blobs under another stream name
        def source(name, n):
            path = os.path.join(root, name)
            with open(path, "wb") as f:
                f.write(os.urandom(n * FULL))
            return path
        desc_x = await StreamDescriptor.create_stream(loop, remote, source("x.bin", 2))
        desc_a = await StreamDescriptor.create_stream(loop, remote, source("a.bin", 3))
        desc_b = StreamDescriptor(loop, remote, "a-reupload.bin", desc_a.key, "a-reupload.bin", desc_a.blobs)
        desc_b.sd_hash = (await desc_b.make_sd_blob()).blob_hash
        assert desc_b.sd_hash != desc_a.sd_hash and desc_b.stream_hash != desc_a.stream_hash

        await download(loop, conf, bm, root, remote, desc_x, "x.bin")
        await storage.db.execute_fetchall("update blob set added_on=added_on-1000")   # X is the oldest download
        await download(loop, conf, bm, root, remote, desc_a, "a.bin")
        await download(loop, conf, bm, root, remote, desc_b, "a-reupload.bin")

        data_blobs = {b.blob_hash for d in (desc_x, desc_a, desc_b) for b in d.blobs[:-1]}
        on_disk = sum(os.path.getsize(os.path.join(blob_dir, h)) for h in data_blobs)
        dsm = DiskSpaceManager(conf, storage, bm)
        reported = await dsm.get_space_used_mb(cached=False)
        print(f"data blobs on disk: {len(data_blobs)} files, {on_disk / MB:.1f} MB; limit {conf.blob_storage_limit} MB; "
              f"reported: {reported}")
        await dsm.clean()
        gone = [h for h in data_blobs if not os.path.isfile(os.path.join(blob_dir, h))]
        print(f"cleanup pass removed {len(gone)} data blobs")
        bm.stop()
        await storage.close()
    finally:
        shutil.rmtree(root, ignore_errors=True)

    if gone or reported["content_storage"] * MB > on_disk:
        print(f"C19 VIOLATED: content class holds {on_disk / MB:.0f} MB (limit 12 MB) but is accounted as "
              f"{reported['content_storage']} MB; the pass deleted {len(gone)} blob(s) of the unrelated older stream")
        return 1
    print("C19 holds: usage within the limit, nothing removed")
    return 0


if __name__ == "__main__":
    sys.exit(asyncio.run(main()))
