"""
C19 / F5: the byte count the cleanup works with (blob.blob_length) is whatever the FIRST stream descriptor
that mentioned a blob hash claimed, not the verified size of the blob that is on disk.
  store_stream():  insert or ignore into blob (hash, <length from the descriptor>, 'pending', ...)
  add_blobs(finished=True) after the blob was downloaded and verified:
                   insert or ignore ... (ignored, row exists);  update blob set status='finished'   <- length kept
So a remote publisher can make a victim's node account 2 MB blobs as a few bytes: usage is under-reported,
a pass does nothing although the class is far over its limit and removable blobs exist; and when a pass
does delete such blobs they are credited 0 MB.

History (all product code; remote data is the only thing the "attacker" controls):
 1. the user starts stream EVIL whose (valid) descriptor lists the blob hashes of another, popular stream
    GOOD with length 16.  Its data never arrives (length mismatch), the entry stays in the file list.
 2. daemon restart (fresh BlobManager objects)
 3. the user downloads GOOD (3 x 2 MB).  Every blob is verified and saved.
 4. cleanup pass with blob_storage_limit = 2 MB.
Expected: content usage 6 MB > 2 MB -> the pass frees >= 4 MB.   Observed: usage reported 0 MB, nothing freed.
"""
import asyncio
import os
import shutil
import sys
import tempfile
import time

import lbry.wallet  # noqa: F401
from lbry.conf import Config
from lbry.extras.daemon.storage import SQLiteStorage
from lbry.blob.blob_manager import BlobManager
from lbry.blob.blob_info import BlobInfo
from lbry.blob.disk_space_manager import DiskSpaceManager
from lbry.stream.descriptor import StreamDescriptor
from lbry.stream.managed_stream import ManagedStream

MB = 1024 * 1024
FULL = 2 * MB - 1


async def receive(bm, remote, blob_hash):
    with open(os.path.join(remote, blob_hash), "rb") as f:
        data = f.read()
    blob = bm.get_blob(blob_hash, len(data))
    if not blob.get_is_verified():
        blob.get_blob_writer("10.0.0.1", 3333).write(data)
        await blob.verified.wait()


async def main():
    loop = asyncio.get_running_loop()
    root = tempfile.mkdtemp(prefix="c19f5-")
    try:
        blob_dir = os.path.join(root, "blobfiles")
        remote = os.path.join(root, "remote")
        os.mkdir(blob_dir)
        os.mkdir(remote)
        conf = Config(data_dir=root, download_dir=root, wallet_dir=root, fixed_peers=[], reflect_streams=False,
                      blob_storage_limit=2, network_storage_limit=0)
        db_path = os.path.join(root, "lbrynet.sqlite")

        # ---- remote side ---------------------------------------------------------------------
        src = os.path.join(root, "good.bin")
        with open(src, "wb") as f:
            f.write(os.urandom(3 * FULL))
        good = await StreamDescriptor.create_stream(loop, remote, src)
        os.remove(src)
        evil_blobs = [BlobInfo(b.blob_num, 16, b.iv, time.time(), b.blob_hash) for b in good.blobs[:-1]]
        evil_blobs.append(BlobInfo(len(evil_blobs), 0, good.blobs[-1].iv, time.time(), None))
        evil = StreamDescriptor(loop, remote, "evil.bin", good.key, "evil.bin", evil_blobs)
        evil.sd_hash = (await evil.make_sd_blob()).blob_hash

        # ---- session 1: the user starts EVIL; only its sd blob can be fetched ------------------
        storage = SQLiteStorage(conf, db_path, loop)
        await storage.open()
        bm = BlobManager(loop, blob_dir, storage, conf)
        await bm.setup()
        await receive(bm, remote, evil.sd_hash)
        await asyncio.sleep(0.1)
        stream = ManagedStream(loop, conf, bm, evil.sd_hash, download_directory=root, file_name="evil.bin")
        await stream.start(save_now=False)
        await stream.stop()
        bm.stop()
        await storage.close()

        # ---- session 2: the user downloads GOOD ---------------------------------------------------
        storage = SQLiteStorage(conf, db_path, loop)
        await storage.open()
        bm = BlobManager(loop, blob_dir, storage, conf)
        await bm.setup()
        for blob_hash in [good.sd_hash] + [b.blob_hash for b in good.blobs[:-1]]:
            await receive(bm, remote, blob_hash)
        await asyncio.sleep(0.1)
        stream = ManagedStream(loop, conf, bm, good.sd_hash, download_directory=root, file_name="good.bin")
        await stream.start(save_now=False)
        await stream.stop()

        data = [b.blob_hash for b in good.blobs[:-1]]
        on_disk = sum(os.path.getsize(os.path.join(blob_dir, h)) for h in data)
        rows = await storage.db.execute_fetchall(
            "select blob_length, status from blob where blob_hash in (?, ?, ?)", data)
        dsm = DiskSpaceManager(conf, storage, bm)
        reported = await dsm.get_space_used_mb(cached=False)
        print(f"verified data blobs on disk: {on_disk / MB:.1f} MB; db rows (blob_length, status): {rows}")
        print(f"reported usage: {reported}; blob_storage_limit: {conf.blob_storage_limit} MB")
        await dsm.clean()
        left = sum(os.path.getsize(os.path.join(blob_dir, h)) for h in data if os.path.isfile(os.path.join(blob_dir, h)))
        print(f"after the cleanup pass: {left / MB:.1f} MB of downloaded content on disk")
        bm.stop()
        await storage.close()
    finally:
        shutil.rmtree(root, ignore_errors=True)

    if left > conf.blob_storage_limit * MB + MB:
        print(f"C19 VIOLATED: {left / MB:.0f} MB of removable downloaded blobs remain with a {conf.blob_storage_limit} MB "
              f"limit; the pass saw {reported['content_storage']} MB because blob_length still holds the value a "
              f"foreign descriptor claimed")
        return 1
    print("C19 holds: usage is within the limit after the pass")
    return 0


if __name__ == "__main__":
    sys.exit(asyncio.run(main()))
