"""
C19 / F3: the network-seeding class is cleaned although its usage is within network_storage_limit,
because get_stored_blob_disk_usage() counts the user's OWN blobs that are not (yet) attached to a
stream as 'network_storage' (the case is `stream_blob.stream_hash is null`, without `is_mine=0`).
Such blobs exist for the whole duration of every publish (StreamDescriptor.create_stream writes and
registers blob after blob, the stream row is stored only at the end) and for ever after a publish that
was interrupted.  They are never deletable (get_stored_blobs(is_mine=False)), so the pass makes up for
them by deleting seeded blobs.

Schedule (legal): the periodic cleanup pass fires while the user is publishing a large file.
The harness only makes the source file slow to read after the second chunk (a gated default executor:
the event loop's executor is outside of the product), runs the real pass, then lets the read continue.

  network_storage_limit = 8 MB, seeded blobs = 3 x 2 MB = 6 MB  (within the limit, 2 MB to spare)
  content limit = 0 (unlimited)
  publish of a 5-blob file in progress, 2 own blobs (4 MB) written so far
Expected: the pass removes nothing.   Observed: it reads network usage = 10 MB and deletes a seeded blob.
"""
import asyncio
import os
import shutil
import sys
import tempfile
import threading
from concurrent.futures import ThreadPoolExecutor

import lbry.wallet  # noqa: F401
from lbry.conf import Config
from lbry.extras.daemon.storage import SQLiteStorage
from lbry.blob.blob_manager import BlobManager
from lbry.blob.disk_space_manager import DiskSpaceManager
from lbry.stream.descriptor import StreamDescriptor
from lbry.stream.stream_manager import StreamManager

MB = 1024 * 1024
FULL = 2 * MB - 1


class SlowDiskExecutor(ThreadPoolExecutor):
    """default executor; the third and later reads of the published file wait until `go` is set"""
    def __init__(self):
        super().__init__(max_workers=4)
        self.go = threading.Event()
        self.reads = 0
        self.slow_path = None

    def submit(self, fn, *args, **kwargs):
        if getattr(fn, "__name__", "") == "read_bytes" and args and args[0] == self.slow_path:
            self.reads += 1
            if self.reads > 2:
                def slow(*a, **kw):
                    self.go.wait(30)
                    return fn(*a, **kw)
                return super().submit(slow, *args, **kwargs)
        return super().submit(fn, *args, **kwargs)


async def seed_blobs(loop, bm, root, n_full_blobs):
    """what BackgroundDownloader.download_blobs leaves behind: verified blobs written through the normal
    blob-writer path, registered by BlobManager.blob_completed, no stream row (save_stream=False)"""
    remote = os.path.join(root, "remote")
    os.mkdir(remote)
    src = os.path.join(root, "someone-elses.bin")
    with open(src, "wb") as f:
        f.write(os.urandom(n_full_blobs * FULL))
    descriptor = await StreamDescriptor.create_stream(loop, remote, src)
    os.remove(src)
    hashes = [b.blob_hash for b in descriptor.blobs[:-1]]
    for blob_hash in [descriptor.sd_hash] + hashes:
        with open(os.path.join(remote, blob_hash), "rb") as f:
            data = f.read()
        blob = bm.get_blob(blob_hash, len(data))
        blob.get_blob_writer("10.0.0.1", 3333).write(data)
        await blob.verified.wait()
    shutil.rmtree(remote)
    await asyncio.sleep(0.1)
    return hashes


async def main():
    loop = asyncio.get_running_loop()
    executor = SlowDiskExecutor()
    loop.set_default_executor(executor)
    root = tempfile.mkdtemp(prefix="c19f3-")
    try:
        blob_dir = os.path.join(root, "blobfiles")
        os.mkdir(blob_dir)
        conf = Config(data_dir=root, download_dir=root, wallet_dir=root, fixed_peers=[], reflect_streams=False,
                      blob_storage_limit=0, network_storage_limit=8)
        storage = SQLiteStorage(conf, os.path.join(root, "lbrynet.sqlite"), loop)
        await storage.open()
        bm = BlobManager(loop, blob_dir, storage, conf)
        await bm.setup()
        sm = StreamManager(loop, conf, bm, None, storage, None)
        dsm = DiskSpaceManager(conf, storage, bm)

        seeded = await seed_blobs(loop, bm, root, 3)
        print("seeded:", await dsm.get_space_used_mb(cached=False), "network limit:", conf.network_storage_limit, "MB")
        await dsm.clean()
        assert all(os.path.isfile(os.path.join(blob_dir, h)) for h in seeded), "pass with 6/8 MB used deleted blobs"

        # ---- the user publishes a 10 MB file; the periodic pass fires after two blobs were written ----
        src = os.path.join(root, "my_video.bin")
        with open(src, "wb") as f:
            f.write(os.urandom(5 * FULL))
        executor.slow_path = src
        publish = loop.create_task(sm.create(src))
        while True:
            own_done, = await storage.db.execute_fetchone(
                "select count(*) from blob where is_mine=1 and status='finished'")
            if own_done >= 2:
                break
            await asyncio.sleep(0.01)
        assert not publish.done()
        during = await dsm.get_space_used_bytes()
        print("mid-publish usage reported:", {k: round(v / MB, 1) for k, v in during.items()})
        await dsm.clean()                       # the periodic pass
        assert not publish.done()
        lost = [h for h in seeded if not os.path.isfile(os.path.join(blob_dir, h))]
        executor.go.set()
        stream = await publish
        await asyncio.sleep(0.1)
        print("after publish:", await dsm.get_space_used_mb(cached=False))
        await sm.stop()
        bm.stop()
        await storage.close()
    finally:
        executor.go.set()
        shutil.rmtree(root, ignore_errors=True)

    if lost:
        print(f"C19 VIOLATED: the pass deleted {len(lost)} seeded blob(s) ({2 * len(lost)} MB) although the "
              f"network-seeding class used 6 MB of its 8 MB limit; the 4 MB that pushed the reading to 10 MB were "
              f"the user's own blobs of the publish in progress (counted as network_storage AND private_storage)")
        return 1
    print("C19 holds: nothing was removed from a class that is within its limit")
    return 0


if __name__ == "__main__":
    sys.exit(asyncio.run(main()))
