"""
C18 / F1: startup reconciliation scans the blob directory by NAME only.

BlobManager.setup() builds the set of "blob files present" from os.scandir() without checking that the
entry is a regular file, while every other place of the blob code (BlobFile.file_exists, is_blob_verified,
delete_blob) uses os.path.isfile().  If the file of a finished blob has disappeared but a directory entry
of the same name is still there that is NOT a file (a symlink whose target vanished - e.g. blobs kept on
another volume that is not mounted - or a directory), then on every restart

  * the blob is still reported as completed (completed_blob_hashes, hence availability replies, blob_list,
    DHT find_value) although it has no file,
  * the database row is never downgraded from 'finished' to 'pending' (hence it keeps being announced),
  * and a further restart does not repair it.

The demo drives the real BlobManager / SQLiteStorage / BlobFile; the only "outside" action is replacing the
blob's file by a dangling symlink (and, second case, by a directory) while the daemon is down.
Exit 1 = property violated, exit 0 = holds.
"""
import asyncio
import hashlib
import logging
import os
import shutil
import sys
import tempfile
import warnings

warnings.filterwarnings("ignore")
import lbry.wallet  # noqa: E402  (must precede lbry.conf)
from lbry.conf import Config  # noqa: E402
from lbry.extras.daemon.storage import SQLiteStorage  # noqa: E402
from lbry.blob.blob_manager import BlobManager  # noqa: E402

logging.disable(logging.CRITICAL)


async def boot(tmp):
    conf = Config(data_dir=tmp, wallet_dir=tmp, download_dir=tmp)
    storage = SQLiteStorage(conf, os.path.join(tmp, 'lbrynet.sqlite'))
    await storage.open()
    manager = BlobManager(asyncio.get_running_loop(), os.path.join(tmp, 'blobfiles'), storage, conf)
    await manager.setup()
    return storage, manager


async def shutdown(storage, manager):
    manager.stop()
    await storage.close()


async def download(manager, data: bytes) -> str:
    blob_hash = hashlib.sha384(data).hexdigest()
    blob = manager.get_blob(blob_hash, len(data))
    blob.get_blob_writer('10.0.0.1', 3333).write(data)
    await blob.verified.wait()
    await asyncio.sleep(0.05)  # let the add_blobs(finished=True) task run
    return blob_hash


async def main() -> int:
    tmp = tempfile.mkdtemp(prefix='c18-f1-')
    blob_dir = os.path.join(tmp, 'blobfiles')
    os.mkdir(blob_dir)
    problems = []
    try:
        # epoch 1: two ordinary downloads
        storage, manager = await boot(tmp)
        h_link = await download(manager, b'a' * 1000)
        h_dir = await download(manager, b'b' * 1000)
        assert {h_link, h_dir} <= manager.completed_blob_hashes
        assert await storage.get_blob_status(h_link) == 'finished'
        await shutdown(storage, manager)

        # behind the daemon's back: the files disappear, a non-file entry of the same name remains
        os.remove(os.path.join(blob_dir, h_link))
        os.symlink(os.path.join(tmp, 'unmounted-volume', h_link), os.path.join(blob_dir, h_link))  # dangling
        os.remove(os.path.join(blob_dir, h_dir))
        os.mkdir(os.path.join(blob_dir, h_dir))

        for restart in (1, 2):
            storage, manager = await boot(tmp)
            for name, blob_hash in (('dangling symlink', h_link), ('directory', h_dir)):
                has_file = os.path.isfile(os.path.join(blob_dir, blob_hash))
                assert not has_file
                status = await storage.get_blob_status(blob_hash)
                reported = blob_hash in manager.completed_blob_hashes
                if reported:
                    problems.append(f"restart {restart}: blob {blob_hash[:8]} ({name}) is reported as completed "
                                    f"but has no file (is_blob_verified={manager.is_blob_verified(blob_hash)})")
                if status != 'pending':
                    problems.append(f"restart {restart}: blob {blob_hash[:8]} ({name}) has no file but is still "
                                    f"'{status}' in the database (not downgraded to pending)")
            await shutdown(storage, manager)
    finally:
        shutil.rmtree(tmp, ignore_errors=True)
    if problems:
        print("C18 VIOLATED:")
        for p in problems:
            print("  -", p)
        return 1
    print("C18 holds: blobs whose file disappeared were downgraded and are not reported")
    return 0


if __name__ == '__main__':
    sys.exit(asyncio.run(main()))
