"""
C13 / F2 - Wallet.unlock() called while nothing is locked accepts ANY password, returns True and
silently replaces the wallet's encryption password with it.

Legal history (single task, no fault):
  wallet_encrypt A                    -> wallet encrypted on disk with A, still unlocked in memory
  wallet_unlock  B   (B != A)         -> the wallet is not locked, so no account is decrypted and
                                         nothing checks B; unlock returns True and B becomes the
                                         encryption password
  any later save (account_set, channel_create, save_max_gap, preference_set ...)
                                      -> file re-encrypted with B
  restart / wallet_lock, wallet_unlock A  -> refused.  Only the never-chosen B opens the wallet.
With B == "" the next save writes seed and private key in PLAINTEXT while the encrypt-on-disk
preference stays True (Wallet.save tests `is not None`, Account.to_dict tests truthiness).

The same happens without any odd user action when two wallet_unlock requests overlap: the first
(correct) one decrypts the accounts and then awaits the channel-key cache (a real database call);
the second request runs in that gap, finds nothing encrypted and installs its own password.
That schedule is forced here only by starting the two coroutines in that order on the real loop
with the real sqlite Database.

exit 0 = property holds, exit 1 = violated.
"""
import asyncio
import os
import shutil
import sys
import tempfile

import lbry.wallet  # noqa: must be imported before lbry.conf
from lbry.wallet import Wallet, WalletStorage, Account, Ledger, Database, Headers
from lbry.wallet.wallet import ENCRYPT_ON_DISK

SEED = "carbon smart garage balance margin twelve chest sword toast envelope bottom stomach absent"


class SimLedger(Ledger):
    network_name = 'simnet'
    checkpoints = {}


class Manager:
    def __init__(self, ledger):
        self.ledger = ledger

    def get_or_create_ledger(self, _ledger_id):
        return self.ledger


def new_wallet(ledger, path):
    if os.path.exists(path):
        os.remove(path)
    wallet = Wallet(storage=WalletStorage(path))
    account = Account.from_dict(ledger, wallet, {'name': 'main', 'seed': SEED})
    return wallet, account, account.private_key.extended_key_string()


async def main():
    ledger = SimLedger({'db': Database(':memory:'), 'headers': Headers(':memory:')})
    await ledger.db.open()
    tmp = tempfile.mkdtemp(prefix='c13-f2-')
    path = os.path.join(tmp, 'wallet')
    problems = []
    try:
        # ---- (a) a different non-empty password on an unlocked wallet -------------------------
        wallet, account, xprv = new_wallet(ledger, path)
        wallet.encrypt('A')
        await wallet.unlock('B')              # wallet is not locked; 'B' was never chosen by the user
        wallet.save()                         # any routine save
        reloaded = Wallet.from_storage(WalletStorage(path), Manager(ledger))
        with_a = await reloaded.unlock('A')
        reloaded2 = Wallet.from_storage(WalletStorage(path), Manager(ledger))
        with_b = await reloaded2.unlock('B')
        if not with_a or with_b:
            problems.append(
                f"(a) encrypt('A'); unlock('B') on the unlocked wallet; save; restart: "
                f"unlock('A') -> {with_a}, unlock('B') -> {with_b} "
                f"(password in memory after unlock('B') was {wallet.encryption_password!r})"
            )

        # ---- (b) the empty password: plaintext secrets on disk, preference still on ----------
        wallet, account, xprv = new_wallet(ledger, path)
        wallet.encrypt('A')
        await wallet.unlock('')
        wallet.save()
        text = open(path).read()
        if SEED in text or xprv in text:
            problems.append(
                f"(b) encrypt('A'); unlock('') on the unlocked wallet; save: file contains plaintext "
                f"seed={SEED in text} private_key={xprv in text} while "
                f"encrypt-on-disk={wallet.preferences.get(ENCRYPT_ON_DISK)} and "
                f"encryption_password={wallet.encryption_password!r} (is_encrypted={bool(wallet.is_encrypted)})"
            )

        # ---- (c) two overlapping unlock requests, the later one with a wrong password ---------
        wallet, account, xprv = new_wallet(ledger, path)
        wallet.encrypt('A')
        wallet.lock()
        first = asyncio.ensure_future(wallet.unlock('A'))       # decrypts, then awaits the database
        second = asyncio.ensure_future(wallet.unlock('typo'))   # runs while the first one waits
        results = await asyncio.gather(first, second)
        wallet.save()
        reloaded = Wallet.from_storage(WalletStorage(path), Manager(ledger))
        with_a = await reloaded.unlock('A')
        if not with_a:
            problems.append(
                f"(c) locked wallet, overlapping unlock('A') and unlock('typo') -> {results}; "
                f"password in memory {wallet.encryption_password!r}; after save+restart unlock('A') -> {with_a}"
            )
    finally:
        shutil.rmtree(tmp, ignore_errors=True)
        await ledger.db.close()

    if problems:
        print("C13 VIOLATED: a password other than the one the wallet was encrypted with is accepted and adopted:")
        for p in problems:
            print("  -", p)
        return 1
    print("ok: unlock() on a wallet with nothing to decrypt leaves the encryption password alone")
    return 0


if __name__ == '__main__':
    sys.exit(asyncio.run(main()))
