"""
C13 / F4 - WalletStorage.write() is not atomic when os.rename() onto the existing wallet file fails:
its fallback DELETES the complete previous wallet file and only then tries to rename again.

    try:
        os.rename(temp_path, self.path)
    except Exception:
        os.remove(self.path)              # <- the only complete wallet is gone
        os.rename(temp_path, self.path)   # <- may fail again / the process may die before it

Circumstances forced by the harness (only the behaviour of the file system / OS is replaced, by
wrapping open/os.* while a save runs; the product code is untouched):
  (1) control: POSIX semantics, process death injected before and within every file-system
      operation of a save                                   -> must hold (and does)
  (2) rename semantics of Windows (os.rename raises FileExistsError when the destination exists;
      this is the very case the fallback was written for - there EVERY save takes that path) and
      process death injected before/within every file-system operation of the save
  (3) no crash at all: a file system on which the rename keeps failing (ENOSPC / EDQUOT / EIO, or a
      FUSE / network mount that refuses rename-over-existing) - save() raises, as it should, but the
      previous wallet file has been deleted.
After each run the wallet path must hold the complete previous or the complete new version.

exit 0 = property holds, exit 1 = violated.
"""
import asyncio
import builtins
import errno
import os
import shutil
import sys
import tempfile
from unittest import mock

import lbry.wallet  # noqa: must be imported before lbry.conf
from lbry.wallet import Wallet, WalletStorage, Account, Ledger, Database, Headers


class SimLedger(Ledger):
    network_name = 'simnet'
    checkpoints = {}


class Manager:
    def __init__(self, ledger):
        self.ledger = ledger

    def get_or_create_ledger(self, _ledger_id):
        return self.ledger


class ProcessDied(BaseException):
    """Not an Exception: nothing in the product may catch it - the process is gone."""


class FaultyFS:
    """Counts every file-system operation the save performs on `watched` paths, can kill the
    process at the n-th one (a torn write leaves half of the data behind), can give os.rename the
    Windows semantics, or make renames fail with an errno."""

    def __init__(self, watched_prefix, die_at=None, windows_rename=False, rename_errno=None):
        self.prefix = watched_prefix
        self.die_at = die_at
        self.windows_rename = windows_rename
        self.rename_errno = rename_errno
        self.ops = []
        self.real = {
            'open': builtins.open, 'rename': os.rename, 'replace': os.replace, 'remove': os.remove,
            'chmod': os.chmod, 'stat': os.stat, 'fsync': os.fsync,
        }

    def tick(self, name):
        index = len(self.ops)
        self.ops.append(name)
        if index == self.die_at:
            raise ProcessDied(f"op #{index} {name}")

    def mine(self, path):
        return isinstance(path, str) and path.startswith(self.prefix)

    # -- wrapped primitives -------------------------------------------------------------------
    def open(self, path, mode='r', *a, **kw):
        if not self.mine(path) or 'w' not in mode:
            return self.real['open'](path, mode, *a, **kw)
        self.tick('open(tmp, "w")')
        fs, f = self, self.real['open'](path, mode, *a, **kw)

        class File:
            def write(self, data):
                try:
                    fs.tick('write')
                except ProcessDied:
                    f.write(data[:len(data) // 2])   # torn write
                    f.flush()
                    raise
                return f.write(data)

            def flush(self):
                fs.tick('flush')
                return f.flush()

            def fileno(self):
                return f.fileno()

            def __enter__(self):
                return self

            def __exit__(self, *exc):
                f.close()
                return False
        return File()

    def fsync(self, fd):
        self.tick('fsync')
        return self.real['fsync'](fd)

    def really_exists(self, path):
        try:
            self.real['stat'](path)
            return True
        except OSError:
            return False

    def exists(self, path):
        if self.mine(path):
            self.tick('exists')
        return self.really_exists(path)

    def stat(self, path, *a, **kw):
        if self.mine(path):
            self.tick('stat')
        return self.real['stat'](path, *a, **kw)

    def chmod(self, path, mode, *a, **kw):
        self.tick('chmod')
        return self.real['chmod'](path, mode, *a, **kw)

    def remove(self, path, *a, **kw):
        self.tick('remove(wallet)')
        return self.real['remove'](path, *a, **kw)

    def rename(self, src, dst, *a, **kw):
        self.tick('rename(tmp, wallet)')
        if self.rename_errno is not None:
            raise OSError(self.rename_errno, os.strerror(self.rename_errno), src, None, dst)
        if self.windows_rename and self.really_exists(dst):
            raise FileExistsError(errno.EEXIST, "Cannot create a file when that file already exists", src, 183, dst)
        return self.real['rename'](src, dst, *a, **kw)

    def replace(self, src, dst, *a, **kw):          # atomic overwrite on POSIX and on Windows
        self.tick('replace(tmp, wallet)')
        if self.rename_errno is not None:
            raise OSError(self.rename_errno, os.strerror(self.rename_errno), src, None, dst)
        return self.real['replace'](src, dst, *a, **kw)

    def __enter__(self):
        self.patches = [
            mock.patch.object(builtins, 'open', self.open), mock.patch.object(os, 'fsync', self.fsync),
            mock.patch.object(os.path, 'exists', self.exists), mock.patch.object(os, 'stat', self.stat),
            mock.patch.object(os, 'chmod', self.chmod), mock.patch.object(os, 'remove', self.remove),
            mock.patch.object(os, 'rename', self.rename), mock.patch.object(os, 'replace', self.replace),
        ]
        for p in self.patches:
            p.start()
        return self

    def __exit__(self, *exc):
        for p in reversed(self.patches):
            p.stop()
        return False


async def main():
    ledger = SimLedger({'db': Database(':memory:'), 'headers': Headers(':memory:')})
    await ledger.db.open()
    tmp = tempfile.mkdtemp(prefix='c13-f4-')
    path = os.path.join(tmp, 'default_wallet')
    problems = []
    try:
        wallet = Wallet(storage=WalletStorage(path))
        Account.generate(ledger, wallet, 'first')
        wallet.encrypt('password')                       # previous version: one account, on disk
        old = open(path).read()
        Account.generate(ledger, wallet, 'second')       # new version: two accounts, not saved yet
        new = WalletStorage().write(wallet.to_dict(encrypt_password='password'))
        assert old != new

        def reset():
            for name in os.listdir(tmp):
                os.remove(os.path.join(tmp, name))
            with open(path, 'w') as f:
                f.write(old)
            os.chmod(path, 0o600)

        def verdict():
            if not os.path.exists(path):
                return "NO wallet file at all (only %s left)" % (sorted(os.listdir(tmp)) or 'nothing')
            content = open(path).read()
            if content == old or content == new:
                return None
            return f"partial/other content ({len(content)} bytes)"

        def run(label, **fault):
            reset()
            outcome = 'save returned'
            with FaultyFS(tmp, **fault) as fs:
                try:
                    wallet.save()
                except ProcessDied as e:
                    outcome = f'process died at {e}'
                except OSError as e:
                    outcome = f'save raised {type(e).__name__}({errno.errorcode.get(e.errno, e.errno)})'
            bad = verdict()
            if bad:
                restarted = Wallet.from_storage(WalletStorage(path), Manager(ledger))
                problems.append(f"{label}: {outcome}; ops so far {fs.ops}; wallet path holds {bad}; "
                                f"a restart loads {len(restarted.accounts)} accounts")
            return fs.ops, outcome

        # how many operations does a save perform?  (dry runs without faults)
        n_posix = len(run('posix, no fault')[0])
        n_windows = len(run('windows rename, no fault', windows_rename=True)[0])

        for k in range(n_posix):                                        # (1) control
            run(f"(1) posix, death at op {k}", die_at=k)
        for k in range(n_windows):                                      # (2)
            run(f"(2) windows rename semantics, death at op {k}", die_at=k, windows_rename=True)
        run("(3) no crash, rename keeps failing with ENOSPC", rename_errno=errno.ENOSPC)   # (3)
    finally:
        shutil.rmtree(tmp, ignore_errors=True)
        await ledger.db.close()

    if problems:
        print("C13 VIOLATED: after an interrupted/failed save the wallet file is neither the complete "
              "previous nor the complete new version:")
        for p in problems:
            print("  -", p)
        return 1
    print("ok: at every crash point and with a failing rename the wallet file is the complete old or new version")
    return 0


if __name__ == '__main__':
    sys.exit(asyncio.run(main()))
