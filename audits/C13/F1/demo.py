"""
C13 / F1 - the CORRECT password is refused for ever when the account's seed phrase is not
written exactly as lower-case words of the English word list.

Legal history (no fault, no scheduling, single task):
  1. account_add --seed="Carbon smart garage ..."  (the phrase typed sentence-case, or with a
     trailing full stop, or a phrase from one of the other word lists the project ships).
     Account.from_dict accepts it: Mnemonic.mnemonic_to_seed() normalises the text, so the keys and
     addresses are exactly those of the lower-case phrase.  The raw text is what is stored as 'seed'.
  2. wallet_encrypt <password>       -> file written encrypted
  3. restart (wallet loaded locked from the file) or wallet_lock
  4. wallet_unlock <same password>   -> must restore seed, keys and addresses.

The harness only supplies a Ledger subclass (simnet, no checkpoints), an in-memory Database and a
two-line stand-in for WalletManager.get_or_create_ledger; everything else is the real code.
exit 0 = property holds, exit 1 = violated.
"""
import asyncio
import os
import shutil
import sys
import tempfile

import lbry.wallet  # noqa: must be imported before lbry.conf
from lbry.wallet import Wallet, WalletStorage, Account, Ledger, Database, Headers

PASSWORD = "correct horse battery staple"
CANONICAL = "carbon smart garage balance margin twelve chest sword toast envelope bottom stomach absent"
VARIANTS = {
    "sentence-case": CANONICAL.capitalize(),
    "trailing full stop": CANONICAL + ".",
    "upper-case": CANONICAL.upper(),
    "spanish word list phrase": "ábaco abdomen abeja abierto abogado abono aborto abrazo abrir abuelo abuso acabar",
    "free text (as in tests/unit/wallet/test_mnemonic.py)": "foobar",
}


class SimLedger(Ledger):
    network_name = 'simnet'
    checkpoints = {}


class Manager:
    def __init__(self, ledger):
        self.ledger = ledger

    def get_or_create_ledger(self, _ledger_id):
        return self.ledger


async def main():
    ledger = SimLedger({'db': Database(':memory:'), 'headers': Headers(':memory:')})
    await ledger.db.open()
    tmp = tempfile.mkdtemp(prefix='c13-f1-')
    problems = []
    try:
        reference = Account.from_dict(ledger, Wallet(), {'seed': CANONICAL})
        for label, phrase in VARIANTS.items():
            path = os.path.join(tmp, 'wallet')
            if os.path.exists(path):
                os.remove(path)
            wallet = Wallet(storage=WalletStorage(path))
            account = Account.from_dict(ledger, wallet, {'name': 'imported', 'seed': phrase})
            before = (account.seed, account.private_key.extended_key_string(),
                      account.public_key.extended_key_string(), account.id)
            if label in ("sentence-case", "upper-case"):
                # the code itself says this is the very same account as the canonical phrase
                assert account.id == reference.id, "normalisation changed?"
            wallet.encrypt(PASSWORD)
            on_disk = open(path).read()
            assert phrase not in on_disk, "seed should be encrypted on disk"

            # same session: lock, unlock with the SAME password
            wallet.lock()
            ok_same_session = await wallet.unlock(PASSWORD)

            # next session: load the file, unlock with the SAME password
            reloaded = Wallet.from_storage(WalletStorage(path), Manager(ledger))
            ok_reload = await reloaded.unlock(PASSWORD)
            acc2 = reloaded.accounts[0]
            after = None
            if ok_reload and not acc2.encrypted:
                after = (acc2.seed, acc2.private_key.extended_key_string(),
                         acc2.public_key.extended_key_string(), acc2.id)
            if not ok_same_session or not ok_reload or after != before:
                problems.append(
                    f"[{label}] seed {phrase[:28]!r}...: unlock(correct password) -> "
                    f"same session {ok_same_session}, after reload {ok_reload}; "
                    f"wallet still locked={reloaded.is_locked}"
                )
    finally:
        shutil.rmtree(tmp, ignore_errors=True)
        await ledger.db.close()

    if problems:
        print("C13 VIOLATED: encrypt(password) then unlock(same password) does not restore the account:")
        for p in problems:
            print("  -", p)
        print("The seed check in Account._decrypt_seed only accepts lower-case words of the English list, "
              "although Account.from_dict / Mnemonic.mnemonic_to_seed accept (and normalise) any phrase. "
              "The wallet can never be unlocked again; funds are reachable only with a separate copy of the seed.")
        return 1
    print("ok: every accepted seed phrase survives encrypt -> lock/reload -> unlock with the same password")
    return 0


if __name__ == '__main__':
    sys.exit(asyncio.run(main()))
