"""
C13 / F3 - a REFUSED password still unlocks part of the wallet: Wallet.unlock() decrypts the
accounts one after the other and returns False at the first one that does not open, leaving every
account it had already "opened" unlocked.

Legal history (single task, no fault): an encrypted wallet whose first account is watch-only
(account_add --public_key=...; it carries no secret, so Account.decrypt accepts any password for it)
followed by an ordinary seeded account.  The wallet is loaded locked from its file and
wallet_unlock is called with a WRONG password.  unlock correctly returns False - but the property
says the wallet must then be "locked and unchanged".

exit 0 = property holds, exit 1 = violated.
"""
import asyncio
import json
import os
import shutil
import sys
import tempfile

import lbry.wallet  # noqa: must be imported before lbry.conf
from lbry.wallet import Wallet, WalletStorage, Account, Ledger, Database, Headers

SEED = "carbon smart garage balance margin twelve chest sword toast envelope bottom stomach absent"


class SimLedger(Ledger):
    network_name = 'simnet'
    checkpoints = {}


class Manager:
    def __init__(self, ledger):
        self.ledger = ledger

    def get_or_create_ledger(self, _ledger_id):
        return self.ledger


async def main():
    ledger = SimLedger({'db': Database(':memory:'), 'headers': Headers(':memory:')})
    await ledger.db.open()
    tmp = tempfile.mkdtemp(prefix='c13-f3-')
    path = os.path.join(tmp, 'wallet')
    problems = []
    try:
        # build the wallet: [watch-only, seeded], encrypt it with 'A'
        cold = Account.from_dict(ledger, Wallet(), {'seed': SEED})
        wallet = Wallet(storage=WalletStorage(path))
        Account.from_dict(ledger, wallet, {
            'name': 'cold storage (watch-only)', 'public_key': cold.public_key.extended_key_string()
        })
        Account.generate(ledger, wallet, 'spending')
        wallet.encrypt('A')

        # next session: the wallet is loaded locked
        wallet = Wallet.from_storage(WalletStorage(path), Manager(ledger))
        file_before = open(path).read()
        state_before = json.dumps(wallet.to_dict(), sort_keys=True)
        flags_before = [a.encrypted for a in wallet.accounts]
        assert flags_before == [True, True] and wallet.is_locked

        result = await wallet.unlock('not the password')

        flags_after = [a.encrypted for a in wallet.accounts]
        state_after = json.dumps(wallet.to_dict(), sort_keys=True)
        if result:
            problems.append("unlock('not the password') returned True")
        if flags_after != flags_before:
            problems.append(
                f"unlock(wrong password) returned {result} but account.encrypted went "
                f"{flags_before} -> {flags_after}: account #0 stays unlocked"
            )
        if state_after != state_before:
            problems.append("the wallet's serialised state differs after the refused password")
        wallet.save()   # any routine save (save_max_gap runs one at start-up)
        if open(path).read() != file_before:
            problems.append("after the next routine save the wallet FILE differs from the one before the refused password")

        # the right password must still work afterwards and restore everything
        ok = await wallet.unlock('A')
        if not ok or wallet.is_locked:
            problems.append(f"unlock('A') after the refused attempt -> {ok}, locked={wallet.is_locked}")
    finally:
        shutil.rmtree(tmp, ignore_errors=True)
        await ledger.db.close()

    if problems:
        print("C13 VIOLATED: a wrong password must leave the wallet locked and unchanged, but:")
        for p in problems:
            print("  -", p)
        return 1
    print("ok: a refused password leaves every account locked and the wallet unchanged")
    return 0


if __name__ == '__main__':
    sys.exit(asyncio.run(main()))
