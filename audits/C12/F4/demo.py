"""
C12 / F4 - requests of a node whose id is in the routing table are answered to the STALE endpoint stored there, not to
the sender: after a node comes back on another UDP port (or IP) with its persisted node id, nobody answers it for ~15-30
minutes; it cannot join through the bootstrap node and its value lookups find nothing in a loss-free honest network.

Drives the REAL lbry DHT code (Node.join_network, KademliaProtocol.handle_request_datagram, routing table, ping queue,
IterativeValueFinder) on a virtual-time event loop with an in-memory, loss-free datagram network.  Only the UDP
transport and the clock are replaced; ALL nodes are unmodified real nodes and all of them are honest.

History (a restart, as the daemon does it: the node id is persisted in the `node_id` file, the udp port is config / NAT):
   12 nodes join through the bootstrap node; A announces blob h; X looks h up and finds A               (sanity)
   X stops.  10 s later X starts again: same node id, same IP, udp port 5555 instead of 4444, and joins through the
   same bootstrap node.  At the same moment a brand-new node C (fresh id) joins the same way              (control)
   120 virtual seconds later (24 RPC timeouts; a join takes < 1 s) both look up h.
KademliaProtocol.handle_request_datagram does `peer = self.routing_table.get_peer(request_datagram.node_id)` and sends
the response to THAT peer's address:port.  Every node that still has X's old contact (the bootstrap node keeps every
contact) therefore answers X's findNode/findValue/ping to 11.0.0.9:4444 where nobody listens; each such request from X
additionally re-confirms the stale contact (add_peer(peer) with the old object while it is still 'good').
exit 1 = X has not joined / does not find the (unexpired) announcement while the control node does; exit 0 = it does.
"""
import asyncio
import heapq
import logging
import random
import selectors
import sys
import warnings
warnings.filterwarnings("ignore")

from lbry.dht import constants
from lbry.dht.node import Node
import lbry.dht.node as node_module
from lbry.dht.peer import PeerManager
from lbry.utils import aclosing

logging.disable(logging.CRITICAL)


# ---------------------------------------------------------------- virtual time loop + in-memory datagram network
class _VSelector(selectors.SelectSelector):
    def __init__(self, ref):
        super().__init__()
        self._ref = ref

    def select(self, timeout=None):
        ready = super().select(0)
        if not ready and timeout:
            self._ref[0].vtime += timeout
        return ready


class VLoop(asyncio.SelectorEventLoop):
    def __init__(self):
        self.vtime = 1000.0
        ref = [None]
        super().__init__(_VSelector(ref))
        ref[0] = self

    def time(self):
        return self.vtime


class SimTransport(asyncio.DatagramTransport):
    def __init__(self, net, addr):
        super().__init__()
        self.net, self.addr, self.closed = net, addr, False

    def sendto(self, data, addr=None):
        self.net.deliver(self.addr, addr, bytes(data))

    def is_closing(self):
        return self.closed

    def close(self):
        self.closed = True
        self.net.endpoints.pop(self.addr, None)


class SimNet:
    def __init__(self, loop, seed=0):
        self.loop, self.rng, self.endpoints = loop, random.Random(seed), {}

    def deliver(self, src, dst, data):
        self.loop.call_later(self.rng.uniform(0.01, 0.05), self._rx, src, dst, data)

    def _rx(self, src, dst, data):
        ep = self.endpoints.get(dst)
        if ep is not None:
            ep.datagram_received(data, src)

    def attach(self, protocol, addr):
        transport = SimTransport(self, addr)
        self.endpoints[addr] = protocol
        protocol.connection_made(transport)
        return transport

    def make_node(self, node_id, address, udp_port=4444, peer_port=3333, is_bootstrap=False) -> Node:
        node = Node(self.loop, PeerManager(self.loop), node_id, udp_port, udp_port, peer_port, address,
                    is_bootstrap_node=is_bootstrap)

        async def start_listening(interface='0.0.0.0'):
            if not node.listening_port:
                node.listening_port = self.attach(node.protocol, (address, udp_port))
                node.protocol.start()
        node.start_listening = start_listening
        return node


async def _resolve(host, port, proto):
    return host
node_module.resolve_host = _resolve


async def value_lookup(node, key):
    found = []
    async with aclosing(node.get_iterative_value_finder(key)) as finder:
        async for peers in finder:
            found.extend(peers)
    return found


async def scenario(loop):
    net = SimNet(loop, seed=11)
    nodes = [net.make_node(constants.generate_id(0), '11.0.0.1', is_bootstrap=True)]
    nodes[0].start('0.0.0.0', [])
    for i in range(1, 12):
        node = net.make_node(constants.generate_id(i), f'11.0.0.{i + 1}')
        node.start('0.0.0.0', [('11.0.0.1', 4444)])
        nodes.append(node)
        await asyncio.sleep(2)
    await asyncio.sleep(1000)
    announcer, x = nodes[3], nodes[8]
    key = constants.generate_id(4242)
    await announcer.announce_blob(key.hex())
    announced_at = loop.time()

    def has_announcer(peers):
        return any((p.address, p.tcp_port) == (announcer.protocol.external_ip, 3333) for p in peers)
    assert has_announcer(await value_lookup(x, key)), "sanity: X finds A before the restart"

    x.stop()
    await asyncio.sleep(10)
    x_again = net.make_node(constants.generate_id(8), '11.0.0.9', udp_port=5555)   # same id, same ip, other udp port
    control = net.make_node(constants.generate_id(99), '11.0.0.99', udp_port=5555)  # fresh id
    x_again.start('0.0.0.0', [('11.0.0.1', 4444)])
    control.start('0.0.0.0', [('11.0.0.1', 4444)])
    await asyncio.sleep(24 * x_again.protocol.rpc_timeout)

    problems = []
    control_ok = control.joined.is_set() and has_announcer(await value_lookup(control, key))
    print(f"control node (fresh id) 120 s after its start: joined={control.joined.is_set()} finds A={control_ok}")
    assert control_ok, "the network itself is broken?"
    x_found = has_announcer(await value_lookup(x_again, key))
    age = int(loop.time() - announced_at)
    print(f"restarted node X (same id, udp 5555) 120 s after its start: joined={x_again.joined.is_set()} "
          f"routing table={len(x_again.protocol.routing_table.get_peers())} peers, finds A={x_found}")
    if not x_again.joined.is_set():
        problems.append("X restarted on udp port 5555 with its persisted node id: 120 s (24 RPC timeouts) later it still "
                        "has not joined through the bootstrap node - every reply goes to its old port 4444")
    if not x_found:
        problems.append(f"X's value lookup does not return the announcer A although the announcement is {age} s old, "
                        f"the network is loss-free and all nodes are honest (the control node finds A)")
    for node in nodes + [x_again, control]:
        node.stop()
    return problems


def main():
    loop = VLoop()
    asyncio.set_event_loop(loop)
    try:
        problems = loop.run_until_complete(scenario(loop))
    finally:
        for task in asyncio.all_tasks(loop):
            task.cancel()
        loop.run_until_complete(asyncio.sleep(0))
        loop.close()
    if problems:
        print("PROPERTY VIOLATED (C12: every other node's value lookup returns the announcer):")
        for problem in problems:
            print(" -", problem)
        sys.exit(1)
    print("ok: the restarted node joined and found the announcer")
    sys.exit(0)


if __name__ == '__main__':
    main()
