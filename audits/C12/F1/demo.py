"""
C12 / F1 - a node lookup yields contacts that never replied (alias of a live endpoint under a forged node id).

Drives the REAL lbry DHT code (Node, KademliaProtocol, IterativeNodeFinder, routing table, PeerManager) on a
virtual-time event loop with an in-memory, loss-free datagram network.  Only the OUTSIDE is replaced:
  * the UDP transport (sendto -> datagram_received of the destination after a small delay),
  * the clock of the event loop (virtual time, so the 5 minute ping delay does not cost wall time),
  * ONE network peer "H" which is a scripted hostile node.  H answers ping with pong (so it gets into the routing
    tables like any other node) and answers findNode with a well-formed contact list that contains
        scenario A: (forged id F, <address and port of the honest node V>)   F = an id sharing its first 32 bits with the key
        scenario B: (the looked-up key itself as node id, <H's own address and port>)
All other nodes are unmodified real nodes.

Checked clause: "every iterative lookup ... yields only contacts that actually replied (node lookups)".
The harness records every response datagram put on the wire as (node id in the datagram, source address, port);
a contact yielded by Node.peer_search (the lookup announce_blob uses) must be one of those.
exit 1 = a contact that never replied was yielded, exit 0 = property holds.
"""
import asyncio
import heapq
import logging
import random
import selectors
import sys
import warnings
warnings.filterwarnings("ignore")

from lbry.dht import constants
from lbry.dht.node import Node
import lbry.dht.node as node_module
from lbry.dht.peer import PeerManager
from lbry.dht.serialization.datagram import decode_datagram, RequestDatagram, ResponseDatagram, RESPONSE_TYPE

logging.disable(logging.CRITICAL)


# ---------------------------------------------------------------- virtual time loop + in-memory datagram network
class _VSelector(selectors.SelectSelector):
    def __init__(self, ref):
        super().__init__()
        self._ref = ref

    def select(self, timeout=None):
        ready = super().select(0)
        if not ready and timeout:
            self._ref[0].vtime += timeout
        return ready


class VLoop(asyncio.SelectorEventLoop):
    def __init__(self):
        self.vtime = 1000.0
        ref = [None]
        super().__init__(_VSelector(ref))
        ref[0] = self

    def time(self):
        return self.vtime


class SimTransport(asyncio.DatagramTransport):
    def __init__(self, net, addr):
        super().__init__()
        self.net, self.addr, self.closed = net, addr, False

    def sendto(self, data, addr=None):
        self.net.deliver(self.addr, addr, bytes(data))

    def is_closing(self):
        return self.closed

    def close(self):
        self.closed = True
        self.net.endpoints.pop(self.addr, None)


class SimNet:
    def __init__(self, loop, seed=0):
        self.loop, self.rng, self.endpoints = loop, random.Random(seed), {}
        self.replied = set()  # (node_id, address, port) of every response datagram that was sent

    def deliver(self, src, dst, data):
        try:
            msg = decode_datagram(data)
            if isinstance(msg, ResponseDatagram):
                self.replied.add((msg.node_id, src[0], src[1]))
        except Exception:
            pass
        self.loop.call_later(self.rng.uniform(0.01, 0.05), self._rx, src, dst, data)

    def _rx(self, src, dst, data):
        ep = self.endpoints.get(dst)
        if ep is not None:
            ep.datagram_received(data, src)

    def attach(self, protocol, addr):
        transport = SimTransport(self, addr)
        self.endpoints[addr] = protocol
        protocol.connection_made(transport)
        return transport

    def make_node(self, node_id, address, udp_port=4444, peer_port=3333, is_bootstrap=False) -> Node:
        node = Node(self.loop, PeerManager(self.loop), node_id, udp_port, udp_port, peer_port, address,
                    is_bootstrap_node=is_bootstrap)

        async def start_listening(interface='0.0.0.0'):
            if not node.listening_port:
                node.listening_port = self.attach(node.protocol, (address, udp_port))
                node.protocol.start()
        node.start_listening = start_listening
        return node


async def _resolve(host, port, proto):
    return host
node_module.resolve_host = _resolve


# ---------------------------------------------------------------- the scripted hostile peer
class Hostile:
    def __init__(self, net, node_id, addr):
        self.net, self.node_id, self.addr = net, node_id, addr
        self.find_node_reply = lambda key: []
        self.transport = net.attach(self, addr)

    def connection_made(self, transport):
        pass

    def say_hello(self, to_addr):
        self.transport.sendto(RequestDatagram.make_ping(self.node_id).bencode(), to_addr)

    def datagram_received(self, data, src):
        msg = decode_datagram(data)
        if not isinstance(msg, RequestDatagram):
            return
        if msg.method == b'ping':
            result = b'pong'
        elif msg.method == b'findNode':
            result = self.find_node_reply(msg.args[0])
        elif msg.method == b'findValue':
            result = {b'token': b'\x00' * 48, b'contacts': self.find_node_reply(msg.args[0])}
        else:
            result = b'OK'
        self.transport.sendto(ResponseDatagram(RESPONSE_TYPE, msg.rpc_id, self.node_id, result).bencode(), src)


async def scenario(loop, name):
    net = SimNet(loop, seed=7)
    nodes = [net.make_node(constants.generate_id(0), '11.0.0.1', is_bootstrap=True)]
    nodes[0].start('0.0.0.0', [])
    for i in range(1, 9):
        node = net.make_node(constants.generate_id(i), f'11.0.0.{i + 1}')
        node.start('0.0.0.0', [('11.0.0.1', 4444)])
        nodes.append(node)
        await asyncio.sleep(2)
    hostile = Hostile(net, constants.generate_id(666), ('66.0.0.6', 4444))
    for node in nodes:  # H introduces itself, every node pings it back (5 minutes later) and adds it
        hostile.say_hello((node.protocol.external_ip, 4444))
    await asyncio.sleep(1000)  # past the first routing table refresh of every node

    searcher, victim = nodes[3], nodes[5]
    assert any(p.address == '66.0.0.6' for p in searcher.protocol.routing_table.get_peers()), "H did not join"
    key = constants.generate_id(4242)
    if name == 'A':
        forged_id = key[:4] + bytes(b ^ 0xff for b in key[4:])  # shares 32 bits with the key: closer than any node
        hostile.find_node_reply = lambda k: [(forged_id, victim.protocol.external_ip.encode(), 4444)]
    else:
        hostile.find_node_reply = lambda k: [(k, b'66.0.0.6', 4444)]

    found = await asyncio.wait_for(searcher.peer_search(key), 600)
    problems = []
    for peer in found:
        if peer.node_id == searcher.protocol.node_id:
            problems.append(f"lookup yielded the searching node itself")
        if (peer.node_id, peer.address, peer.udp_port) not in net.replied:
            real = [nid.hex()[:8] for nid, a, p in net.replied if (a, p) == (peer.address, peer.udp_port)]
            problems.append(
                f"scenario {name}: lookup for {key.hex()[:8]}..{key.hex()[-6:]} yielded contact {peer.node_id.hex()[:8]}..{peer.node_id.hex()[-6:]}@{peer.address}:"
                f"{peer.udp_port}, but no response datagram was ever sent by that contact "
                f"(that endpoint only ever replied as node {real})"
            )
    for node in nodes:
        node.stop()
    return problems


def main():
    problems = []
    for name in ('A', 'B'):
        loop = VLoop()
        asyncio.set_event_loop(loop)
        try:
            problems += loop.run_until_complete(scenario(loop, name))
        finally:
            for task in asyncio.all_tasks(loop):
                task.cancel()
            loop.run_until_complete(asyncio.sleep(0))
            loop.close()
    if problems:
        print("PROPERTY VIOLATED (C12: node lookups yield only contacts that actually replied):")
        for problem in problems:
            print(" -", problem)
        sys.exit(1)
    print("ok: every contact yielded by the node lookups had replied under the yielded node id")
    sys.exit(0)


if __name__ == '__main__':
    main()
