"""
C12 / F2 - the store RPC accepts TCP ports that every searcher rejects: one announcer with tcp port 1..1023 makes
ALL announcers of that blob unfindable (and a storing node's own lookup yields the ill-formed address); the valid
port 65535 on the other hand can never be announced.

Drives the REAL lbry DHT code (Node, KademliaProtocol, KademliaRPC.store/find_value, IterativeValueFinder,
DictDataStore) on a virtual-time event loop with an in-memory, loss-free datagram network.  Only the UDP transport
and the clock are replaced.  ALL nodes are unmodified real nodes; the only unusual thing is the *configuration* of two
of them: node "P" listens for blob requests on TCP port 1000 (conf.tcp_port is a free Integer), node "M" on 65535.

History:  20 nodes join through the bootstrap node -> A (tcp 3333) announces blob h -> every other node finds A
          -> P (tcp 1000) announces the same blob h (accepted by 8 storing nodes, P is told "OK")
          -> now the value lookups of the non-storing nodes return NOTHING: KademliaRPC.store accepted 0 < port < 65535
             but KademliaPeer (used by the searcher to decode a compact address) demands 1024 <= tcp_port <= 65535,
             so IterativeValueFinder.send_probe throws the whole page away ("misbehaving peer ... invalid peer")
             and reports a failure against the honest storing node.
          -> M (tcp 65535) announces blob h2: announce_blob stores to 0 peers (client and server side say < 65535).
exit 1 = an announced, unexpired blob is not found / an ill-formed peer address is yielded; exit 0 = property holds.
"""
import asyncio
import heapq
import logging
import random
import selectors
import sys
import warnings
warnings.filterwarnings("ignore")

from lbry.dht import constants
from lbry.dht.node import Node
import lbry.dht.node as node_module
from lbry.dht.peer import PeerManager
from lbry.utils import aclosing

logging.disable(logging.CRITICAL)


# ---------------------------------------------------------------- virtual time loop + in-memory datagram network
class _VSelector(selectors.SelectSelector):
    def __init__(self, ref):
        super().__init__()
        self._ref = ref

    def select(self, timeout=None):
        ready = super().select(0)
        if not ready and timeout:
            self._ref[0].vtime += timeout
        return ready


class VLoop(asyncio.SelectorEventLoop):
    def __init__(self):
        self.vtime = 1000.0
        ref = [None]
        super().__init__(_VSelector(ref))
        ref[0] = self

    def time(self):
        return self.vtime


class SimTransport(asyncio.DatagramTransport):
    def __init__(self, net, addr):
        super().__init__()
        self.net, self.addr, self.closed = net, addr, False

    def sendto(self, data, addr=None):
        self.net.deliver(self.addr, addr, bytes(data))

    def is_closing(self):
        return self.closed

    def close(self):
        self.closed = True
        self.net.endpoints.pop(self.addr, None)


class SimNet:
    def __init__(self, loop, seed=0):
        self.loop, self.rng, self.endpoints = loop, random.Random(seed), {}

    def deliver(self, src, dst, data):
        self.loop.call_later(self.rng.uniform(0.01, 0.05), self._rx, src, dst, data)

    def _rx(self, src, dst, data):
        ep = self.endpoints.get(dst)
        if ep is not None:
            ep.datagram_received(data, src)

    def attach(self, protocol, addr):
        transport = SimTransport(self, addr)
        self.endpoints[addr] = protocol
        protocol.connection_made(transport)
        return transport

    def make_node(self, node_id, address, udp_port=4444, peer_port=3333, is_bootstrap=False) -> Node:
        node = Node(self.loop, PeerManager(self.loop), node_id, udp_port, udp_port, peer_port, address,
                    is_bootstrap_node=is_bootstrap)

        async def start_listening(interface='0.0.0.0'):
            if not node.listening_port:
                node.listening_port = self.attach(node.protocol, (address, udp_port))
                node.protocol.start()
        node.start_listening = start_listening
        return node


async def _resolve(host, port, proto):
    return host
node_module.resolve_host = _resolve


async def value_lookup(node, key):
    found = []
    async with aclosing(node.get_iterative_value_finder(key)) as finder:
        async for peers in finder:
            found.extend(peers)
    return found


async def scenario(loop):
    net = SimNet(loop, seed=3)
    nodes = [net.make_node(constants.generate_id(0), '11.0.0.1', is_bootstrap=True)]
    nodes[0].start('0.0.0.0', [])
    for i in range(1, 20):
        tcp_port = {5: 1000, 6: 65535}.get(i, 3333)
        node = net.make_node(constants.generate_id(i), f'11.0.0.{i + 1}', peer_port=tcp_port)
        node.start('0.0.0.0', [('11.0.0.1', 4444)])
        nodes.append(node)
        await asyncio.sleep(2)
    await asyncio.sleep(1000)  # everybody was pinged back by the bootstrap node and did its first table refresh
    assert all(n.joined.is_set() for n in nodes)
    announcer, low_port_node, max_port_node = nodes[3], nodes[5], nodes[6]
    key = constants.generate_id(4242)
    problems = []

    def check(tag, searcher, peers):
        for peer in peers:
            if not 1024 <= peer.tcp_port <= 65535:
                problems.append(f"{tag}: value lookup of {searcher.protocol.external_ip} yielded the ill-formed peer "
                                f"address {peer.address}:{peer.tcp_port} (KademliaPeer itself rejects tcp ports < 1024)")
        return any((p.address, p.tcp_port) == (announcer.protocol.external_ip, 3333) for p in peers)

    stored_to = await announcer.announce_blob(key.hex())
    announced_at = loop.time()
    searchers = [n for n in nodes if n not in (announcer, low_port_node, max_port_node)]
    for searcher in searchers:
        if not check("before", searcher, await value_lookup(searcher, key)):
            problems.append(f"before: {searcher.protocol.external_ip} does not find the announcer")
    assert not problems, problems  # sanity: the plain case works

    stored_low = await low_port_node.announce_blob(key.hex())
    print(f"A stored to {len(stored_to)} nodes, P (tcp port 1000) was told OK by {len(stored_low)} nodes")
    missing = []
    for searcher in searchers:
        if not check("after P announced", searcher, await value_lookup(searcher, key)):
            missing.append(searcher.protocol.external_ip)
    if missing:
        problems.append(f"after the honest node P (tcp port 1000) announced the same blob, the {int(loop.time() - announced_at)}s"
                        f" old announcement of A (11.0.0.4:3333) is no longer returned to {len(missing)} of "
                        f"{len(searchers)} searching nodes: {missing}")

    key2 = constants.generate_id(4343)
    stored_max = await max_port_node.announce_blob(key2.hex())
    if not stored_max:
        problems.append("node M with the valid tcp port 65535 announced a blob: stored to 0 nodes (port refused)")
    else:
        found = await value_lookup(nodes[10], key2)
        if not any((p.address, p.tcp_port) == (max_port_node.protocol.external_ip, 65535) for p in found):
            problems.append("announcer M (tcp port 65535) not found")
    for node in nodes:
        node.stop()
    return problems


def main():
    loop = VLoop()
    asyncio.set_event_loop(loop)
    try:
        problems = loop.run_until_complete(scenario(loop))
    finally:
        for task in asyncio.all_tasks(loop):
            task.cancel()
        loop.run_until_complete(asyncio.sleep(0))
        loop.close()
    if problems:
        print("PROPERTY VIOLATED (C12: announced blobs are findable / value lookups yield well-formed addresses):")
        for problem in problems:
            print(" -", problem)
        sys.exit(1)
    print("ok: announcer found by every node, only well-formed peer addresses yielded")
    sys.exit(0)


if __name__ == '__main__':
    main()
