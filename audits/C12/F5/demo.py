"""
C12 / F5 - a node lookup (Node.peer_search: announce_blob, refresh_node, join_network) never terminates when ONE
contacted endpoint keeps handing out ever closer contacts that all point back to itself.

Drives the REAL lbry DHT code (Node, KademliaProtocol, IterativeNodeFinder) on a virtual-time event loop with an
in-memory, loss-free datagram network.  Only the UDP transport, the clock and ONE network peer are replaced: the
scripted hostile node "H" (one address, one UDP port) has joined normally (answers ping, is in the routing tables) and
answers every findNode(key) with a well-formed list holding one new contact (id_n, H's address, H's port) where id_n is
closer to the key than everything it returned before.  The finder treats (id_n, address, port) as a new peer, probes it,
H answers again (handle_response_datagram does not compare the node id in the reply with the contact that was asked,
and nothing limits how many peers one lookup may contact), and so on: _search_round always finds an uncontacted
peer at index 0, search_exhausted is never reached, `await node.peer_search(key)` - and with it announce_blob, the
BlobAnnouncer batch and the hourly refresh_node - never returns.  H answers after 1 s, inside the 5 s RPC timeout, so
not a single RPC times out.

Checked clause: "every iterative lookup, in any network, finishes within a bounded number of RPC timeouts whatever
subset of contacted nodes ... answers with garbage / hostile replies".  The network has 10 nodes; the demo allows the
lookup 200 RPC timeouts (1000 virtual seconds).  exit 1 = still running after that, exit 0 = it finished.
"""
import asyncio
import heapq
import logging
import random
import selectors
import sys
import warnings
warnings.filterwarnings("ignore")

from lbry.dht import constants
from lbry.dht.node import Node
import lbry.dht.node as node_module
from lbry.dht.peer import PeerManager
from lbry.dht.serialization.datagram import decode_datagram, RequestDatagram, ResponseDatagram, RESPONSE_TYPE, PAGE_KEY
from lbry.utils import aclosing

logging.disable(logging.CRITICAL)


# ---------------------------------------------------------------- virtual time loop + in-memory datagram network
class _VSelector(selectors.SelectSelector):
    def __init__(self, ref):
        super().__init__()
        self._ref = ref

    def select(self, timeout=None):
        ready = super().select(0)
        if not ready and timeout:
            self._ref[0].vtime += timeout
        return ready


class VLoop(asyncio.SelectorEventLoop):
    def __init__(self):
        self.vtime = 1000.0
        ref = [None]
        super().__init__(_VSelector(ref))
        ref[0] = self

    def time(self):
        return self.vtime


class SimTransport(asyncio.DatagramTransport):
    def __init__(self, net, addr):
        super().__init__()
        self.net, self.addr, self.closed = net, addr, False

    def sendto(self, data, addr=None):
        self.net.deliver(self.addr, addr, bytes(data))

    def is_closing(self):
        return self.closed

    def close(self):
        self.closed = True
        self.net.endpoints.pop(self.addr, None)


class SimNet:
    def __init__(self, loop, seed=0):
        self.loop, self.rng, self.endpoints = loop, random.Random(seed), {}

    def deliver(self, src, dst, data):
        self.loop.call_later(self.rng.uniform(0.01, 0.05), self._rx, src, dst, data)

    def _rx(self, src, dst, data):
        ep = self.endpoints.get(dst)
        if ep is not None:
            ep.datagram_received(data, src)

    def attach(self, protocol, addr):
        transport = SimTransport(self, addr)
        self.endpoints[addr] = protocol
        protocol.connection_made(transport)
        return transport

    def make_node(self, node_id, address, udp_port=4444, peer_port=3333, is_bootstrap=False) -> Node:
        node = Node(self.loop, PeerManager(self.loop), node_id, udp_port, udp_port, peer_port, address,
                    is_bootstrap_node=is_bootstrap)

        async def start_listening(interface='0.0.0.0'):
            if not node.listening_port:
                node.listening_port = self.attach(node.protocol, (address, udp_port))
                node.protocol.start()
        node.start_listening = start_listening
        return node


async def _resolve(host, port, proto):
    return host
node_module.resolve_host = _resolve


# ---------------------------------------------------------------- the scripted hostile peer
class Hostile:
    def __init__(self, net, node_id, addr):
        self.net, self.node_id, self.addr = net, node_id, addr
        self.transport = net.attach(self, addr)
        self.find_node_requests = 0
        self.active = False

    def connection_made(self, transport):
        pass

    def say_hello(self, to_addr):
        self.transport.sendto(RequestDatagram.make_ping(self.node_id).bencode(), to_addr)

    def next_alias(self, key):
        # distance to the key: 2**350 - n, i.e. closer than any honest node and closer than every earlier alias
        distance = 2 ** 350 - self.find_node_requests
        return (int.from_bytes(key, 'big') ^ distance).to_bytes(constants.HASH_LENGTH, 'big')

    def datagram_received(self, data, src):
        msg = decode_datagram(data)
        if not isinstance(msg, RequestDatagram):
            return
        delay = 0.0
        if msg.method == b'ping':
            result = b'pong'
        elif msg.method == b'findNode':
            result = []
            if self.active:
                self.find_node_requests += 1
                result = [(self.next_alias(msg.args[0]), self.addr[0].encode(), self.addr[1])]
                delay = 1.0
        elif msg.method == b'findValue':
            result = {b'token': b'\x00' * 48, b'contacts': []}
        else:
            result = b'OK'
        reply = ResponseDatagram(RESPONSE_TYPE, msg.rpc_id, self.node_id, result).bencode()
        self.net.loop.call_later(delay, self.transport.sendto, reply, src)


async def scenario(loop):
    net = SimNet(loop, seed=5)
    nodes = [net.make_node(constants.generate_id(0), '11.0.0.1', is_bootstrap=True)]
    nodes[0].start('0.0.0.0', [])
    for i in range(1, 9):
        node = net.make_node(constants.generate_id(i), f'11.0.0.{i + 1}')
        node.start('0.0.0.0', [('11.0.0.1', 4444)])
        nodes.append(node)
        await asyncio.sleep(2)
    hostile = Hostile(net, constants.generate_id(666), ('66.0.0.6', 4444))
    for node in nodes:  # H introduces itself, every node pings it back (5 minutes later) and adds it
        hostile.say_hello((node.protocol.external_ip, 4444))
    await asyncio.sleep(1000)

    searcher = nodes[3]
    assert any(p.address == '66.0.0.6' for p in searcher.protocol.routing_table.get_peers()), "H did not join"
    for node in nodes:  # keep the experiment to this one lookup
        if node._refresh_task:
            node._refresh_task.cancel()
    hostile.active = True
    key = constants.generate_id(4242)
    rpc_timeout = searcher.protocol.rpc_timeout
    started = loop.time()
    task = loop.create_task(searcher.announce_blob(key.hex()))
    done, _ = await asyncio.wait([task], timeout=200 * rpc_timeout)
    problems = []
    if not done:
        problems.append(
            f"announce_blob -> peer_search in a 10 node network still running after {int(loop.time() - started)} virtual "
            f"seconds (= 200 RPC timeouts, none of which occurred): the single hostile endpoint 66.0.0.6:4444 was "
            f"probed {hostile.find_node_requests} times under {hostile.find_node_requests - 1} forged node ids, no end in sight")
        task.cancel()
        await asyncio.sleep(0)
    else:
        print(f"lookup finished after {loop.time() - started:.0f} virtual seconds, H was probed "
              f"{hostile.find_node_requests} times; blob stored to {len(task.result())} nodes")
    for node in nodes:
        node.stop()
    return problems


def main():
    loop = VLoop()
    asyncio.set_event_loop(loop)
    try:
        problems = loop.run_until_complete(scenario(loop))
    finally:
        for task in asyncio.all_tasks(loop):
            task.cancel()
        loop.run_until_complete(asyncio.sleep(0))
        loop.close()
    if problems:
        print("PROPERTY VIOLATED (C12: every iterative lookup finishes within a bounded number of RPC timeouts):")
        for problem in problems:
            print(" -", problem)
        sys.exit(1)
    print("ok: the lookup terminated")
    sys.exit(0)


if __name__ == '__main__':
    main()
