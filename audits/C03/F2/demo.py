"""
C03 / F2 -- with coin_selection_strategy='sqlite' a funding gap of 1..9 dewies is refused with
InsufficientFundsError no matter how rich the wallet is.

Ledger.get_spendable_utxos computes  min_amount = min(amount // 10, min_amount)  which is 0 for
amount < 10; the sqlite chooser then scans the amount ranges [floor, floor*multiplier) with
floor == 0, i.e. always the empty range [0, 0), gives up after 5 "gaps" and reports no funds.

History forced (legal input, no schedule tricks): the wallet holds 5 + 3 + 1 LBC of confirmed
spendable outputs and a 1 LBC claim.  The user updates the claim and lowers its amount so that
the claim's own value covers the new claim output and the fee except for d dewies (d = 1..9),
e.g. new amount = old amount - fee + d.  The missing d dewies must come from the 9 LBC.

Expected: a transaction with the old claim + one more input and a change output.
Observed: InsufficientFundsError for d in 1..9 (d = 10 works; every d works with the default
strategy).
"""
import asyncio, sys, logging
import lbry.wallet
from itertools import cycle
from lbry.wallet.constants import NULL_HASH32, COIN
from lbry.wallet import Wallet, Account, Ledger, Database, Headers, Transaction, Output, Input
from lbry.schema.claim import Claim
from lbry.error import InsufficientFundsError

logging.disable(logging.CRITICAL)


class SimLedger(Ledger):
    network_name = 'simnet'
    checkpoints = {}


SEED = "carbon smart garage balance margin twelve chest sword toast envelope bottom stomach absent"


async def make_wallet(strategy):
    ledger = SimLedger({'db': Database(':memory:'), 'headers': Headers(':memory:')})
    ledger.coin_selection_strategy = strategy
    await ledger.db.open()
    account = Account.from_dict(ledger, Wallet(), {"seed": SEED})
    addresses = await account.ensure_address_gap()
    return ledger, account, cycle(ledger.address_to_hash160(a) for a in addresses)


async def receive(ledger, outs, height=5):
    src = Transaction(height=1).add_outputs(
        [Output.pay_pubkey_hash(sum(o.amount for o in outs) + 10000, NULL_HASH32)]).outputs[0]
    tx = Transaction(is_verified=True, height=height).add_inputs([Input.spend(src)]).add_outputs(outs)
    await ledger.db.insert_transaction(tx)
    for o in outs:
        h = o.script.values['pubkey_hash']
        await ledger.db.save_transaction_io(tx, ledger.hash160_to_address(h), h, '')
    return outs


async def update_claim(strategy, d):
    ledger, account, hashes = await make_wallet(strategy)
    try:
        claim = Claim()
        claim.stream.title = 'a title'
        holding_hash = next(hashes)
        holding_address = ledger.hash160_to_address(holding_hash)
        previous, *_ = await receive(ledger, [
            Output.pay_claim_name_pubkey_hash(1 * COIN, 'name', claim, holding_hash),
            Output.pay_pubkey_hash(5 * COIN, next(hashes)),
            Output.pay_pubkey_hash(3 * COIN, next(hashes)),
            Output.pay_pubkey_hash(1 * COIN, next(hashes)),
        ])
        # what the update costs when only the old claim is spent
        probe = Output.pay_update_claim_pubkey_hash(1, previous.claim_name, previous.claim_id, claim, holding_hash)
        probe.clear_signature()
        fee = Transaction().add_outputs([probe]).get_base_fee(ledger) + probe.get_fee(ledger) \
            + Input.spend(previous).get_fee(ledger)
        new_amount = previous.amount - fee + d   # => the old claim is d dewies short
        tx = await Transaction.claim_update(previous, claim, new_amount, holding_address, [account], account)
        return f"ok: inputs={[i.amount for i in tx.inputs]} outputs={[o.amount for o in tx.outputs]} fee={tx.fee}"
    finally:
        await ledger.db.close()


async def main():
    problems = []
    for strategy in ('sqlite', 'prefer_confirmed'):
        for d in (1, 5, 9, 10):
            try:
                print(f"[{strategy}] deficit {d:2d}: {await update_claim(strategy, d)}")
            except InsufficientFundsError as e:
                problems.append(f"[{strategy}] deficit {d:2d} dewies: InsufficientFundsError "
                                f"although 9 LBC of confirmed spendable outputs are free: {e}")
    for p in problems:
        print(p)
    return 1 if problems else 0


if __name__ == '__main__':
    sys.exit(asyncio.run(main()))
