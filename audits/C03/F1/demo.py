"""
C03 / F1 -- UTXOs that cost more to spend than they are worth are counted (as NEGATIVE amounts)
when the wallet judges whether it has enough funds, so a wallet that holds some dust refuses a
payment its ordinary UTXOs could cover many times over.

History forced (all legal, no schedule tricks): the account has received 100 outputs of 1 dewy
(anybody can send those: a "dust attack", or tiny tips) and one confirmed output of 0.01 LBC.
The user pays 0.005 LBC.  fee_per_byte is the default (50), so spending one input costs 7400 dewies.

Expected (property): the 0.01 LBC output alone covers 0.005 LBC + fee -> a transaction is built.
Observed: InsufficientFundsError for the default strategy (prefer_confirmed), for 'standard' and
for 'sqlite'.
"""
import asyncio, sys, logging
import lbry.wallet
from itertools import cycle
from lbry.wallet.constants import NULL_HASH32
from lbry.wallet import Wallet, Account, Ledger, Database, Headers, Transaction, Output, Input
from lbry.error import InsufficientFundsError

logging.disable(logging.CRITICAL)


class SimLedger(Ledger):
    network_name = 'simnet'
    checkpoints = {}


SEED = "carbon smart garage balance margin twelve chest sword toast envelope bottom stomach absent"


async def make_wallet(strategy):
    ledger = SimLedger({'db': Database(':memory:'), 'headers': Headers(':memory:')})
    ledger.coin_selection_strategy = strategy
    await ledger.db.open()
    account = Account.from_dict(ledger, Wallet(), {"seed": SEED})
    addresses = await account.ensure_address_gap()
    return ledger, account, cycle(ledger.address_to_hash160(a) for a in addresses)


async def receive(ledger, hashes, amounts, height=5):
    """ a confirmed, verified transaction paying `amounts` to addresses of the account """
    outs = [Output.pay_pubkey_hash(a, next(hashes)) for a in amounts]
    src = Transaction(height=1).add_outputs([Output.pay_pubkey_hash(sum(amounts) + 10000, NULL_HASH32)]).outputs[0]
    tx = Transaction(is_verified=True, height=height).add_inputs([Input.spend(src)]).add_outputs(outs)
    await ledger.db.insert_transaction(tx)
    for o in outs:
        h = o.script.values['pubkey_hash']
        await ledger.db.save_transaction_io(tx, ledger.hash160_to_address(h), h, '')
    return outs


async def main():
    problems = []
    for strategy in ('prefer_confirmed', 'standard', 'sqlite'):
        ledger, account, hashes = await make_wallet(strategy)
        await receive(ledger, hashes, [1] * 100 + [1_000_000])
        try:
            tx = await Transaction.create(
                [], [Output.pay_pubkey_hash(500_000, NULL_HASH32)], [account], account
            )
            print(f"[{strategy}] ok: inputs={[i.amount for i in tx.inputs if i.amount > 1]}+{sum(1 for i in tx.inputs if i.amount == 1)} dust, "
                  f"outputs={[o.amount for o in tx.outputs]}, fee={tx.fee}")
        except InsufficientFundsError as e:
            problems.append(
                f"[{strategy}] InsufficientFundsError although the 1000000-dewy UTXO alone covers "
                f"500000 + fees (100 one-dewy dust UTXOs were counted as -7399 each): {e}"
            )
        finally:
            await ledger.db.close()
    for p in problems:
        print(p)
    return 1 if problems else 0


if __name__ == '__main__':
    sys.exit(asyncio.run(main()))
