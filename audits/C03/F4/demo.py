"""
C03 / F4 -- a funding operation that is CANCELLED after coin selection (while it looks up the
change address or signs) leaves every output it selected reserved: Transaction.create() releases
only in `except Exception`, and asyncio.CancelledError is a BaseException since Python 3.8.
The outputs stay unspendable (is_reserved=1 hides them from every later selection and from the
utxo listing) until the daemon restarts or the user runs utxo_release.

Circumstance forced (legal): the task running Transaction.create() is cancelled while it is in
progress.  In the daemon this is what happens when the API client disconnects (aiohttp cancels the
handler; Daemon._process_rpc_call even counts it: "cancelled API call for: ...") or on shutdown.
The harness does not touch the product: it polls the database and calls task.cancel() as soon as
the reservation made by create() is visible; the writer executor is a single thread, so by then
create() has returned from get_spendable_utxos and is awaiting the change address / signing.

Expected (property: "after any failure none of the outputs it touched stay reserved"): 0 reserved.
Observed: all 40 selected outputs remain reserved; a following payment fails with
InsufficientFundsError although nothing was spent.
"""
import asyncio, sys, logging
import lbry.wallet
from itertools import cycle
from lbry.wallet.constants import NULL_HASH32
from lbry.wallet import Wallet, Account, Ledger, Database, Headers, Transaction, Output, Input
from lbry.error import InsufficientFundsError

logging.disable(logging.CRITICAL)


class SimLedger(Ledger):
    network_name = 'simnet'
    checkpoints = {}


SEED = "carbon smart garage balance margin twelve chest sword toast envelope bottom stomach absent"


async def make_wallet(strategy):
    ledger = SimLedger({'db': Database(':memory:'), 'headers': Headers(':memory:')})
    ledger.coin_selection_strategy = strategy
    await ledger.db.open()
    account = Account.from_dict(ledger, Wallet(), {"seed": SEED})
    addresses = await account.ensure_address_gap()
    return ledger, account, cycle(ledger.address_to_hash160(a) for a in addresses)


async def receive(ledger, hashes, amounts, height=5):
    """ a confirmed, verified transaction paying `amounts` to addresses of the account """
    outs = [Output.pay_pubkey_hash(a, next(hashes)) for a in amounts]
    src = Transaction(height=1).add_outputs([Output.pay_pubkey_hash(sum(amounts) + 10000, NULL_HASH32)]).outputs[0]
    tx = Transaction(is_verified=True, height=height).add_inputs([Input.spend(src)]).add_outputs(outs)
    await ledger.db.insert_transaction(tx)
    for o in outs:
        h = o.script.values['pubkey_hash']
        await ledger.db.save_transaction_io(tx, ledger.hash160_to_address(h), h, '')
    return outs


async def reserved(ledger):
    return await ledger.db.db.execute_fetchall("SELECT txoid FROM txo WHERE is_reserved")


async def main():
    problems = []
    for strategy in ('prefer_confirmed', 'sqlite'):
        ledger, account, hashes = await make_wallet(strategy)
        await receive(ledger, hashes, [100_000_000] * 40)
        pay = lambda amount: Transaction.create(
            [], [Output.pay_pubkey_hash(amount, NULL_HASH32)], [account], account
        )
        task = asyncio.ensure_future(pay(3_950_000_000))  # needs all 40 inputs -> 40 signatures
        while not task.done():
            if await reserved(ledger):
                task.cancel()  # the API client went away
                break
        try:
            await task
            print(f"[{strategy}] inconclusive: create() finished before it could be cancelled")
            await ledger.db.close()
            continue
        except asyncio.CancelledError:
            pass
        left = len(await reserved(ledger))
        if left:
            problems.append(f"[{strategy}] create() was cancelled, yet {left} of 40 outputs are still reserved")
            try:
                await pay(100_000_000)
            except InsufficientFundsError as e:
                problems.append(f"[{strategy}]   -> next payment of 1 LBC from the untouched 40 LBC: "
                                f"InsufficientFundsError: {e}")
        else:
            print(f"[{strategy}] cancelled create() released everything it had reserved")
        await ledger.db.close()
    for p in problems:
        print(p)
    return 1 if problems else 0


if __name__ == '__main__':
    sys.exit(asyncio.run(main()))
