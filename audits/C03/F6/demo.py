"""
C03 / F6 -- three of the values the configuration accepts for coin_selection_strategy
(lbry.conf: StringChoice(STRATEGIES); STRATEGIES is filled by the @strategy decorator) are only
the building blocks of 'standard' and are incomplete on their own.  Selected by the user they
make the wallet refuse payments it can plainly afford:

  branch_and_bound : returns nothing unless some subset matches the target within one
                     change-output fee  -> almost every ordinary payment is "insufficient funds"
  closest_match    : only ever picks ONE output -> refuses when two outputs are needed
  random_draw      : wants target + change fee -> refuses "send everything minus the fee"

Input forced (legal configuration + ordinary wallets, no schedule tricks):
  branch_and_bound : wallet {10 LBC},        pay 1 LBC
  closest_match    : wallet {1 LBC, 1 LBC},  pay 1.5 LBC
  random_draw      : wallet {1 LBC},         pay 1 LBC minus the exact fee
Expected: a transaction in each case ('standard' builds all three).
Observed: InsufficientFundsError in each case.
"""
import asyncio, sys, logging
import lbry.wallet
from itertools import cycle
from lbry.wallet.constants import NULL_HASH32
from lbry.wallet import Wallet, Account, Ledger, Database, Headers, Transaction, Output, Input
from lbry.error import InsufficientFundsError

logging.disable(logging.CRITICAL)


class SimLedger(Ledger):
    network_name = 'simnet'
    checkpoints = {}


SEED = "carbon smart garage balance margin twelve chest sword toast envelope bottom stomach absent"


async def make_wallet(strategy):
    ledger = SimLedger({'db': Database(':memory:'), 'headers': Headers(':memory:')})
    ledger.coin_selection_strategy = strategy
    await ledger.db.open()
    account = Account.from_dict(ledger, Wallet(), {"seed": SEED})
    addresses = await account.ensure_address_gap()
    return ledger, account, cycle(ledger.address_to_hash160(a) for a in addresses)


async def receive(ledger, hashes, amounts, height=5):
    """ a confirmed, verified transaction paying `amounts` to addresses of the account """
    outs = [Output.pay_pubkey_hash(a, next(hashes)) for a in amounts]
    src = Transaction(height=1).add_outputs([Output.pay_pubkey_hash(sum(amounts) + 10000, NULL_HASH32)]).outputs[0]
    tx = Transaction(is_verified=True, height=height).add_inputs([Input.spend(src)]).add_outputs(outs)
    await ledger.db.insert_transaction(tx)
    for o in outs:
        h = o.script.values['pubkey_hash']
        await ledger.db.save_transaction_io(tx, ledger.hash160_to_address(h), h, '')
    return outs


async def main():
    from lbry.wallet.coinselection import STRATEGIES
    problems = []
    exact_fee = 148 * 50 + 10 * 50 + 46 * 50  # one input, base, one (32-byte-hash) output
    cases = [
        ('branch_and_bound', [1_000_000_000], 100_000_000),
        ('closest_match', [100_000_000, 100_000_000], 150_000_000),
        ('random_draw', [100_000_000], 100_000_000 - exact_fee),
    ]
    for name, wallet_amounts, pay in cases:
        assert name in STRATEGIES, "not a configurable strategy"
        for strategy in (name, 'standard'):
            ledger, account, hashes = await make_wallet(strategy)
            await receive(ledger, hashes, wallet_amounts)
            try:
                tx = await Transaction.create(
                    [], [Output.pay_pubkey_hash(pay, NULL_HASH32)], [account], account
                )
                print(f"[{strategy}] wallet {wallet_amounts} pay {pay}: ok inputs={[i.amount for i in tx.inputs]} "
                      f"outputs={[o.amount for o in tx.outputs]} fee={tx.fee}")
            except InsufficientFundsError as e:
                problems.append(f"[{strategy}] wallet {wallet_amounts} pay {pay}: InsufficientFundsError: {e}")
            finally:
                await ledger.db.close()
    for p in problems:
        print(p)
    return 1 if problems else 0


if __name__ == '__main__':
    sys.exit(asyncio.run(main()))
