"""
C03 / F5 -- with coin_selection_strategy='sqlite' the wallet refuses every transaction whose cost
its spendable outputs cover exactly or with less than one change-output fee (2300 dewies at the
default rate) to spare, e.g. "send everything I have minus the fee".

Ledger.get_spendable_utxos asks the sqlite chooser for  amount + fee  (deficit plus the fee of a
change output that may never be needed) and the chooser returns nothing unless it can reach that
figure, so sufficiency is judged against cost + 2300 instead of cost.

Input forced (legal, no schedule tricks): confirmed outputs of 1, 1 and 3 LBC; the user pays
5 LBC minus the exact fee of a 3-input/1-output transaction, plus `spare` dewies left over.
Expected: a 3-input transaction without change for every spare >= 0 (the default strategy does
exactly that).   Observed with sqlite: InsufficientFundsError for 0 <= spare < 2300.
"""
import asyncio, sys, logging
import lbry.wallet
from itertools import cycle
from lbry.wallet.constants import NULL_HASH32
from lbry.wallet import Wallet, Account, Ledger, Database, Headers, Transaction, Output, Input
from lbry.error import InsufficientFundsError

logging.disable(logging.CRITICAL)


class SimLedger(Ledger):
    network_name = 'simnet'
    checkpoints = {}


SEED = "carbon smart garage balance margin twelve chest sword toast envelope bottom stomach absent"


async def make_wallet(strategy):
    ledger = SimLedger({'db': Database(':memory:'), 'headers': Headers(':memory:')})
    ledger.coin_selection_strategy = strategy
    await ledger.db.open()
    account = Account.from_dict(ledger, Wallet(), {"seed": SEED})
    addresses = await account.ensure_address_gap()
    return ledger, account, cycle(ledger.address_to_hash160(a) for a in addresses)


async def receive(ledger, hashes, amounts, height=5):
    """ a confirmed, verified transaction paying `amounts` to addresses of the account """
    outs = [Output.pay_pubkey_hash(a, next(hashes)) for a in amounts]
    src = Transaction(height=1).add_outputs([Output.pay_pubkey_hash(sum(amounts) + 10000, NULL_HASH32)]).outputs[0]
    tx = Transaction(is_verified=True, height=height).add_inputs([Input.spend(src)]).add_outputs(outs)
    await ledger.db.insert_transaction(tx)
    for o in outs:
        h = o.script.values['pubkey_hash']
        await ledger.db.save_transaction_io(tx, ledger.hash160_to_address(h), h, '')
    return outs


async def main():
    problems = []
    for strategy in ('sqlite', 'prefer_confirmed'):
        for spare in (0, 1000, 2299, 2300):
            ledger, account, hashes = await make_wallet(strategy)
            utxos = await receive(ledger, hashes, [100_000_000, 100_000_000, 300_000_000])
            out = Output.pay_pubkey_hash(1, NULL_HASH32)
            fee = Transaction().add_outputs([out]).get_base_fee(ledger) + out.get_fee(ledger) \
                + sum(Input.spend(u).get_fee(ledger) for u in utxos)
            pay = 500_000_000 - fee - spare
            try:
                tx = await Transaction.create(
                    [], [Output.pay_pubkey_hash(pay, NULL_HASH32)], [account], account
                )
                print(f"[{strategy}] spare {spare:4d}: ok inputs={[i.amount for i in tx.inputs]} "
                      f"outputs={[o.amount for o in tx.outputs]} fee={tx.fee}")
            except InsufficientFundsError as e:
                problems.append(f"[{strategy}] wallet 5 LBC, cost {pay + fee} (= 5 LBC - {spare}): "
                                f"InsufficientFundsError: {e}")
            finally:
                await ledger.db.close()
    for p in problems:
        print(p)
    return 1 if problems else 0


if __name__ == '__main__':
    sys.exit(asyncio.run(main()))
