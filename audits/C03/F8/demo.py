"""
C03 / F8 -- two funding operations that overlap at a moment when the change chain has no unused
address make one of them fail with IndexError('list index out of range') instead of building its
transaction ("never fails in any other way").

Transaction.create() -> change_account.change.get_or_create_usable_address():
    async with lock: addresses = get_addresses(only_usable=True)     # (1) both callers see []
    if addresses: return random.choice(addresses)
    addresses = await self.ensure_address_gap()                      # (2) takes the lock again
    return addresses[0]
The lock is dropped between (1) and (2).  Caller A tops the chain up in (2) and returns the new
keys; caller B, which ran (1) before A's top-up, then finds the gap already full in (2),
ensure_address_gap() returns [] and addresses[0] raises.

Circumstance forced (legal history + legal schedule, product code untouched):
 * every change address generated so far has one transaction in its history and the top-up that
   follows a history update has not run yet (Ledger.update_history stores the history first and
   calls ensure_address_gap afterwards; the same state exists for an account whose change chain
   was used before it was ever subscribed);
 * operation A (a payment that needs coin selection) is started; as soon as its reservation is
   visible in the database, operation B (spends a pre-chosen input that covers its output, so it
   goes straight to the change address) is started.  asyncio's FIFO lock hand-over then gives
   exactly the interleaving above.
Expected: both transactions are built, each with a change output on the change chain.
Observed: B raises IndexError.
"""
import asyncio, sys, logging
import lbry.wallet
from itertools import cycle
from lbry.wallet.constants import NULL_HASH32
from lbry.wallet import Wallet, Account, Ledger, Database, Headers, Transaction, Output, Input
from lbry.error import InsufficientFundsError

logging.disable(logging.CRITICAL)


class SimLedger(Ledger):
    network_name = 'simnet'
    checkpoints = {}


SEED = "carbon smart garage balance margin twelve chest sword toast envelope bottom stomach absent"


async def make_wallet(strategy):
    ledger = SimLedger({'db': Database(':memory:'), 'headers': Headers(':memory:')})
    ledger.coin_selection_strategy = strategy
    await ledger.db.open()
    account = Account.from_dict(ledger, Wallet(), {"seed": SEED})
    addresses = await account.ensure_address_gap()
    return ledger, account, cycle(ledger.address_to_hash160(a) for a in addresses)


async def receive(ledger, hashes, amounts, height=5):
    """ a confirmed, verified transaction paying `amounts` to addresses of the account """
    outs = [Output.pay_pubkey_hash(a, next(hashes)) for a in amounts]
    src = Transaction(height=1).add_outputs([Output.pay_pubkey_hash(sum(amounts) + 10000, NULL_HASH32)]).outputs[0]
    tx = Transaction(is_verified=True, height=height).add_inputs([Input.spend(src)]).add_outputs(outs)
    await ledger.db.insert_transaction(tx)
    for o in outs:
        h = o.script.values['pubkey_hash']
        await ledger.db.save_transaction_io(tx, ledger.hash160_to_address(h), h, '')
    return outs


async def reserved(ledger):
    return await ledger.db.db.execute_fetchall("SELECT txoid FROM txo WHERE is_reserved")


async def main():
    problems = []
    ledger, account, hashes = await make_wallet('prefer_confirmed')
    await receive(ledger, hashes, [100_000_000] * 4)
    (pre,) = await receive(ledger, hashes, [200_000_000], height=6)
    await ledger.reserve_outputs([pre])   # B's caller holds this output (as Account.fund does)
    for n, address in enumerate(await account.change.get_addresses()):
        await ledger.db.set_address_history(address, f"{n + 1:064x}:5:")
    assert await account.change.get_addresses(only_usable=True) == []

    a = asyncio.ensure_future(Transaction.create(
        [], [Output.pay_pubkey_hash(50_000_000, NULL_HASH32)], [account], account))
    while len(await reserved(ledger)) < 2 and not a.done():
        pass
    b = asyncio.ensure_future(Transaction.create(
        [Input.spend(pre)], [Output.pay_pubkey_hash(100_000_000, NULL_HASH32)], [account], account))
    results = await asyncio.gather(a, b, return_exceptions=True)
    change_addresses = set(await account.change.get_addresses())
    for name, result in zip('AB', results):
        if isinstance(result, Exception):
            problems.append(f"operation {name}: {type(result).__name__}: {result} "
                            f"(2 LBC pre-chosen input / 4 LBC spendable, no reason to fail)")
        else:
            change = [o for o in result.outputs if o.get_address(ledger) in change_addresses]
            print(f"operation {name}: ok inputs={[i.amount for i in result.inputs]} "
                  f"outputs={[o.amount for o in result.outputs]} change outputs={len(change)}")
            if len(change) != 1:
                problems.append(f"operation {name}: expected exactly one change output")
    await ledger.db.close()
    for p in problems:
        print(p)
    return 1 if problems else 0


if __name__ == '__main__':
    sys.exit(asyncio.run(main()))
