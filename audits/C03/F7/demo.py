"""
C03 / F7 -- Transaction.create() can add, as a funding input, the very output the caller already
passed as a pre-chosen input: pre-chosen inputs are not reserved (nor excluded), so when they do
not cover the cost the coin selection sees them as ordinary unreserved UTXOs of the funding
account and may pick them again.  The result spends the same outpoint twice; create() books its
value twice (input_sum / fee / change are computed from the doubled value), so the change it
returns is money that does not exist and the network rejects the tx (bad-txns-inputs-duplicate).

Inputs forced (legal, no schedule tricks):
 (a) what `txo_spend --type=other --txid=...` does (daemon.jsonrpc_txo_spend: get_txos(), then
     Transaction.create([Input.spend(txo)...], [], accounts, accounts[0]) without reserving): the
     wallet holds a 10000-dewy output U and a 1 LBC output; U is to be swept.  U alone leaves
     less than dust after the fee, so create() goes looking for more funds - and the best
     branch-and-bound match for the small gap is U itself.
 (b) pre-chosen input U = 0.5 LBC, requested payment 0.7 LBC, wallet also holds 5 LBC: the
     closest match for the missing ~0.2 LBC is again U (also with the sqlite chooser, which takes
     the smallest outputs first).
Expected: every outpoint at most once; inputs (each coin counted once) = outputs + fee.
Observed: (a) inputs [U, U, 1 LBC]; (b) inputs [U, U], outputs 0.7 + 0.2998 LBC out of a real 0.5 LBC.
"""
import asyncio, sys, logging
import lbry.wallet
from itertools import cycle
from lbry.wallet.constants import NULL_HASH32
from lbry.wallet import Wallet, Account, Ledger, Database, Headers, Transaction, Output, Input
from lbry.error import InsufficientFundsError

logging.disable(logging.CRITICAL)


class SimLedger(Ledger):
    network_name = 'simnet'
    checkpoints = {}


SEED = "carbon smart garage balance margin twelve chest sword toast envelope bottom stomach absent"


async def make_wallet(strategy):
    ledger = SimLedger({'db': Database(':memory:'), 'headers': Headers(':memory:')})
    ledger.coin_selection_strategy = strategy
    await ledger.db.open()
    account = Account.from_dict(ledger, Wallet(), {"seed": SEED})
    addresses = await account.ensure_address_gap()
    return ledger, account, cycle(ledger.address_to_hash160(a) for a in addresses)


async def receive(ledger, hashes, amounts, height=5):
    """ a confirmed, verified transaction paying `amounts` to addresses of the account """
    outs = [Output.pay_pubkey_hash(a, next(hashes)) for a in amounts]
    src = Transaction(height=1).add_outputs([Output.pay_pubkey_hash(sum(amounts) + 10000, NULL_HASH32)]).outputs[0]
    tx = Transaction(is_verified=True, height=height).add_inputs([Input.spend(src)]).add_outputs(outs)
    await ledger.db.insert_transaction(tx)
    for o in outs:
        h = o.script.values['pubkey_hash']
        await ledger.db.save_transaction_io(tx, ledger.hash160_to_address(h), h, '')
    return outs


def check(label, tx, problems):
    ids = [txi.txo_ref.id for txi in tx.inputs]
    real_in = sum({txi.txo_ref.id: txi.amount for txi in tx.inputs}.values())
    out = sum(o.amount for o in tx.outputs)
    line = (f"{label}: inputs={[i.amount for i in tx.inputs]} outputs={[o.amount for o in tx.outputs]} "
            f"booked fee={tx.fee}")
    if len(set(ids)) != len(ids):
        problems.append(f"{line}\n      the same outpoint is spent {len(ids) - len(set(ids)) + 1} times; "
                        f"counted once the inputs are worth {real_in}, outputs {out} -> real fee {real_in - out}")
    else:
        print(line)


async def main():
    problems = []
    for strategy in ('prefer_confirmed', 'sqlite'):
        # (a) sweep one small output, as txo_spend does
        ledger, account, hashes = await make_wallet(strategy)
        u, _ = await receive(ledger, hashes, [10_000, 100_000_000])
        (u,) = [t for t in await account.get_utxos() if t.amount == 10_000]   # as the daemon obtains it
        tx = await Transaction.create([Input.spend(u)], [], [account], account)
        check(f"[{strategy}] (a) sweep U=10000", tx, problems)
        await ledger.db.close()
        # (b) pre-chosen input that does not cover the requested output
        ledger, account, hashes = await make_wallet(strategy)
        await receive(ledger, hashes, [50_000_000, 500_000_000])
        (u,) = [t for t in await account.get_utxos() if t.amount == 50_000_000]
        tx = await Transaction.create(
            [Input.spend(u)], [Output.pay_pubkey_hash(70_000_000, NULL_HASH32)], [account], account
        )
        check(f"[{strategy}] (b) U=0.5 LBC pays 0.7 LBC", tx, problems)
        await ledger.db.close()
    for p in problems:
        print(p)
    return 1 if problems else 0


if __name__ == '__main__':
    sys.exit(asyncio.run(main()))
