"""
C03 / F3 -- with coin_selection_strategy='sqlite' a wallet whose only spendable outputs are worth
10**14 dewies (1,000,000 LBC) or more each is told it has insufficient funds.

get_and_reserve_spendable_utxos scans amount ranges [floor, floor*multiplier); after an empty
range the multiplier is squared (100 -> 10**4 -> 10**8 -> 10**16).  With nothing below 10**14 the
scan is [1,100) [100,10**6) [10**6,10**14) and the next range would end at 10**30, which fails the
loop guard  floor*multiplier < SQLITE_MAX_INTEGER , so the loop stops and everything >= 10**14 is
never looked at.  (The guard protects the sqlite parameter binding from overflow, but it should
clamp the ceiling instead of abandoning the scan.)

Input forced (legal, no schedule tricks): one confirmed output of exactly 10**14 dewies (the LBC
supply is ~10**17 dewies, so such outputs are valid); the user pays 1 LBC.
Expected: tx with that input and change.   Observed: InsufficientFundsError (sqlite only).
"""
import asyncio, sys, logging
import lbry.wallet
from itertools import cycle
from lbry.wallet.constants import NULL_HASH32
from lbry.wallet import Wallet, Account, Ledger, Database, Headers, Transaction, Output, Input
from lbry.error import InsufficientFundsError

logging.disable(logging.CRITICAL)


class SimLedger(Ledger):
    network_name = 'simnet'
    checkpoints = {}


SEED = "carbon smart garage balance margin twelve chest sword toast envelope bottom stomach absent"


async def make_wallet(strategy):
    ledger = SimLedger({'db': Database(':memory:'), 'headers': Headers(':memory:')})
    ledger.coin_selection_strategy = strategy
    await ledger.db.open()
    account = Account.from_dict(ledger, Wallet(), {"seed": SEED})
    addresses = await account.ensure_address_gap()
    return ledger, account, cycle(ledger.address_to_hash160(a) for a in addresses)


async def receive(ledger, hashes, amounts, height=5):
    """ a confirmed, verified transaction paying `amounts` to addresses of the account """
    outs = [Output.pay_pubkey_hash(a, next(hashes)) for a in amounts]
    src = Transaction(height=1).add_outputs([Output.pay_pubkey_hash(sum(amounts) + 10000, NULL_HASH32)]).outputs[0]
    tx = Transaction(is_verified=True, height=height).add_inputs([Input.spend(src)]).add_outputs(outs)
    await ledger.db.insert_transaction(tx)
    for o in outs:
        h = o.script.values['pubkey_hash']
        await ledger.db.save_transaction_io(tx, ledger.hash160_to_address(h), h, '')
    return outs


async def main():
    problems = []
    for strategy in ('sqlite', 'prefer_confirmed'):
        for amount in (10**14 - 1, 10**14, 3 * 10**14):
            ledger, account, hashes = await make_wallet(strategy)
            await receive(ledger, hashes, [amount])
            try:
                tx = await Transaction.create(
                    [], [Output.pay_pubkey_hash(100_000_000, NULL_HASH32)], [account], account
                )
                print(f"[{strategy}] utxo {amount}: ok inputs={[i.amount for i in tx.inputs]} "
                      f"outputs={[o.amount for o in tx.outputs]} fee={tx.fee}")
            except InsufficientFundsError as e:
                problems.append(f"[{strategy}] wallet holds one confirmed UTXO of {amount} dewies, "
                                f"paying 1 LBC -> InsufficientFundsError: {e}")
            finally:
                await ledger.db.close()
    for p in problems:
        print(p)
    return 1 if problems else 0


if __name__ == '__main__':
    sys.exit(asyncio.run(main()))
