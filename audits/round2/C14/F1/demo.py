"""C14 / F1: `txo_spend` never hands back the outputs of the transactions it built.

  (a) `txo_spend --preview` builds its transactions (Transaction.create reserves the pre-chosen inputs since the
      repair "pre-chosen inputs are reserved at the start of a build") and returns without broadcasting and
      without releasing: every output it looked at stays reserved; the wallet's spendable balance is 0 and an
      ordinary payment fails with InsufficientFundsError until the daemon is restarted.
  (b) without --preview, all batches are built first and then broadcast one after the other: when the server
      refuses one of them, broadcast_or_release releases that one only, the exception leaves the command and the
      batches that were not sent yet stay reserved with no owner.

Nothing is forced: the commands are called one after the other; in (b) the wallet server refuses the first
transaction (a legal answer of a server).
Run: PROTOCOL_BUFFERS_PYTHON_IMPLEMENTATION=python PYTHONPATH=/tmp/lbry-shims:/tmp/hunt2-C14 /venv/bin/python demo.py
"""
import sys, os, asyncio, tempfile, shutil
sys.path.insert(0, os.path.dirname(os.path.abspath(__file__)))
from harness_common import *  # noqa


async def preview_case(directory):
    daemon, ledger, wallet, account, addresses, server = await make_daemon(directory)
    try:
        await give_utxos(ledger, addresses, [COIN] * 5)
        before = await account.get_balance()
        txs = await daemon.jsonrpc_txo_spend(type='other', batch_size=2, preview=True)
        held = await reserved(ledger)
        after = await account.get_balance()
        try:
            await daemon.jsonrpc_wallet_send('0.5', [addresses[0]], preview=True)
            payment = 'ok'
        except Exception as e:  # pylint: disable=broad-except
            payment = f'{type(e).__name__}: {e}'
        print(f"(a) txo_spend --preview built {len(txs)} transactions, nothing was broadcast "
              f"({len(server.accepted)} accepted by the server)")
        print(f"    outputs still reserved afterwards: {len(held)} of 5; spendable balance {before} -> {after}; "
              f"a following 0.5 LBC payment: {payment}")
        return held
    finally:
        await ledger.db.close()


async def refused_case(directory):
    daemon, ledger, wallet, account, addresses, server = await make_daemon(directory)
    try:
        await give_utxos(ledger, addresses, [COIN] * 6)
        server.refuse = lambda raw: not server.accepted   # the first one sent is refused
        try:
            await daemon.jsonrpc_txo_spend(type='other', batch_size=2, blocking=False)
            outcome = 'returned'
        except RPCError as e:
            outcome = f'raised RPCError({e.message})'
        held = await reserved(ledger)
        print(f"(b) txo_spend in 3 batches, the server refuses the first broadcast: the command {outcome}; "
              f"{len(server.accepted)} transactions were accepted")
        print(f"    outputs still reserved afterwards (held by transactions nobody will ever send): {len(held)} of 6")
        return held
    finally:
        await ledger.db.close()


async def main():
    bad = False
    for case in (preview_case, refused_case):
        directory = tempfile.mkdtemp()
        try:
            bad = bool(await case(directory)) or bad
        finally:
            shutil.rmtree(directory, ignore_errors=True)
    if bad:
        print("VIOLATION (C14): every build has ended, none is going to be broadcast, and outputs are still "
              "unavailable")
        return 1
    print("holds: every output is available again")
    return 0

if __name__ == '__main__':
    sys.exit(asyncio.run(main()))
