"""Shared by the demos (a copy lies next to each demo.py).

Drives the REAL lbry code: lbry.wallet (Ledger, Database, Account, Transaction, WalletManager) and the REAL
lbry.extras.daemon.daemon.Daemon.jsonrpc_* methods.  Replaced OUTSIDE only:
  * third-party packages that are not installed here (aioupnp, libtorrent, distro) are stubbed so that
    lbry.extras.daemon.daemon can be imported; none of their code is on the path that is exercised;
  * the wallet server (ledger.network): an object that records / refuses broadcasts;
  * the daemon's component manager and analytics manager (plumbing that hands the WalletManager to the commands).
The Daemon object is made with __new__ (its __init__ builds the aiohttp apps and the whole component tree).
"""
import sys, os, asyncio, logging, warnings
from itertools import cycle
from unittest.mock import MagicMock
warnings.filterwarnings('ignore')
for _name in ('aioupnp', 'aioupnp.upnp', 'aioupnp.fault', 'libtorrent', 'distro'):
    sys.modules.setdefault(_name, MagicMock())
sys.modules['aioupnp'].__version__ = '0'
sys.modules['aioupnp.fault'].UPnPError = Exception
import lbry.wallet                                   # noqa: E402  (before lbry.conf)
import lbry.conf                                     # noqa: E402
from lbry.wallet import Ledger as BaseLedger, Database, Headers, Account, Wallet, WalletManager  # noqa: E402
from lbry.wallet import Transaction, Input, Output   # noqa: E402
from lbry.wallet.constants import COIN, NULL_HASH32  # noqa: E402
from lbry.wallet.stream import StreamController      # noqa: E402
from lbry.wallet.rpc.jsonrpc import RPCError         # noqa: E402
from lbry.extras.daemon.daemon import Daemon         # noqa: E402

logging.disable(logging.CRITICAL)
SEED = "carbon smart garage balance margin twelve chest sword toast envelope bottom stomach absent"


class Ledger(BaseLedger):
    network_name = 'simnet'
    checkpoints = {}


class WalletServer:
    """stands for the remote wallet server: records the transactions it accepts, may refuse some"""
    is_connected = False

    def __init__(self):
        self.on_header = StreamController().stream
        self.on_status = StreamController().stream
        self.accepted = []
        self.refuse = lambda raw: False

    async def broadcast(self, raw):
        if self.refuse(raw):
            raise RPCError(1, 'the transaction was rejected by network rules.')
        self.accepted.append(raw)
        return raw


class Components:
    def __init__(self, wallet_manager, loop):
        self.wallet_manager, self.loop = wallet_manager, loop

    def get_component(self, name):
        return self.wallet_manager if name == 'wallet' else None

    def all_components_running(self, *_):
        return True


class Analytics:
    def __getattr__(self, _):
        async def nothing(*a, **kw):
            return None
        return nothing


async def make_daemon(directory, strategy='prefer_confirmed'):
    server = WalletServer()
    ledger = Ledger({'db': Database(os.path.join(directory, 'blockchain.db')), 'headers': Headers(':memory:'),
                     'network': server})
    await ledger.db.open()
    ledger.coin_selection_strategy = strategy
    wallet = Wallet()
    account = Account.from_dict(ledger, wallet, {"seed": SEED})
    addresses = await account.ensure_address_gap()
    daemon = Daemon.__new__(Daemon)
    daemon.component_manager = Components(WalletManager([wallet], {Ledger: ledger}), asyncio.get_event_loop())
    daemon.analytics_manager = Analytics()
    return daemon, ledger, wallet, account, addresses, server


_counter = [0]


async def give_utxos(ledger, addresses, amounts):
    """a confirmed, verified transaction paying `amounts` to the given addresses of the wallet"""
    hashes = cycle([ledger.address_to_hash160(a) for a in addresses])
    utxos = [Output.pay_pubkey_hash(int(a), next(hashes)) for a in amounts]
    _counter[0] += 1
    source = Output.pay_pubkey_hash(sum(int(a) for a in amounts) + 1000 + _counter[0], NULL_HASH32)
    Transaction().add_outputs([source])
    tx = Transaction(is_verified=True, height=1).add_inputs([Input.spend(source)]).add_outputs(utxos)
    await ledger.db.insert_transaction(tx)
    for utxo in utxos:
        await ledger.db.save_transaction_io(
            tx, ledger.hash160_to_address(utxo.script.values['pubkey_hash']), utxo.script.values['pubkey_hash'], '')
    return utxos


async def reserved(ledger):
    rows = await ledger.db.db.execute_fetchall("select txoid from txo where is_reserved order by txoid")
    return [row['txoid'] for row in rows]
