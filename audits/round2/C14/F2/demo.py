"""C14 / F2: `txo_spend` and an ordinary payment built at the same time spend the same output.

`txo_spend` chooses its inputs by reading the unspent, unreserved outputs of the accounts (through the read-only
reader pool, outside Ledger._utxo_reservation_lock) and only afterwards Transaction.create marks them reserved -
blindly, without looking whether somebody reserved them in between.  A payment whose coin selection runs between
that read and that write picks one of the very outputs txo_spend has already put into its transaction: both
transactions are built, both are broadcast, both spend the same output.  Holds for every strategy (the python
choosers and 'sqlite' alike, both are shown).

Legal circumstance forced by the harness: only that the answer of the read-only query is computed before the
event loop goes on (the real reader pool is used, the loop thread simply waits for its answer; in the real
daemon the readers are other processes on their own connections and nothing orders them with the writer).
Without even that (warm reader pool, plain asyncio.gather) the same double spend shows on this machine.
Run: PROTOCOL_BUFFERS_PYTHON_IMPLEMENTATION=python PYTHONPATH=/tmp/lbry-shims:/tmp/hunt2-C14 /venv/bin/python demo.py
"""
import sys, os, asyncio, tempfile, shutil
from concurrent.futures import Future, Executor
sys.path.insert(0, os.path.dirname(os.path.abspath(__file__)))
from harness_common import *  # noqa


class PromptReaders(Executor):
    """the real reader pool of AIOSQLite; the caller waits for the answer"""
    def __init__(self, pool):
        self.pool = pool

    def submit(self, fn, *args, **kwargs):
        answer = Future()
        try:
            answer.set_result(self.pool.submit(fn, *args, **kwargs).result())
        except BaseException as e:  # pylint: disable=broad-except
            answer.set_exception(e)
        return answer

    def shutdown(self, wait=True, **kwargs):
        self.pool.shutdown(wait=wait)


async def one(strategy, directory):
    daemon, ledger, wallet, account, addresses, server = await make_daemon(directory, strategy)
    try:
        ledger.db.db.reader_executor = PromptReaders(ledger.db.db.reader_executor)
        await give_utxos(ledger, addresses, [COIN] * 5)
        results = await asyncio.gather(
            daemon.jsonrpc_txo_spend(type='other', blocking=False),            # "sweep my plain outputs"
            daemon.jsonrpc_wallet_send('0.5', [addresses[0]], blocking=False),  # an ordinary payment
            return_exceptions=True
        )
        spent_by, shared = {}, []
        for raw in server.accepted:
            tx = Transaction(bytes.fromhex(raw))
            for txi in tx.inputs:
                if txi.txo_ref.id in spent_by:
                    shared.append((txi.txo_ref.id, spent_by[txi.txo_ref.id][:8], tx.id[:8]))
                spent_by[txi.txo_ref.id] = tx.id
        print(f"[{strategy}] txo_spend -> {type(results[0]).__name__}, wallet_send -> {type(results[1]).__name__}; "
              f"{len(server.accepted)} transactions were built and broadcast")
        for txoid, first, second in shared:
            print(f"    output {txoid[:8]}..:{txoid.split(':')[1]} is an input of BOTH {first}.. and {second}..")
        return shared
    finally:
        await ledger.db.close()


async def main():
    bad = False
    for strategy in ('prefer_confirmed', 'sqlite'):
        directory = tempfile.mkdtemp()
        try:
            bad = bool(await one(strategy, directory)) or bad
        finally:
            shutil.rmtree(directory, ignore_errors=True)
    if bad:
        print("VIOLATION (C14): two transactions built at the same time from the same account share an output")
        return 1
    print("holds: no output is shared")
    return 0

if __name__ == '__main__':
    sys.exit(asyncio.run(main()))
