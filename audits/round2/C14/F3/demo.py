"""C14 / F3: a claim-type command whose build fails AFTER Transaction.create keeps its outputs reserved for ever.

channel_create, channel_update, stream_create, stream_update, stream_repost, collection_create,
collection_update, support_create and account_deposit build with Transaction.create(..., sign=False) - which
selects and reserves the funding outputs - and only then, outside any try block, generate keys / make the
stream / `await tx.sign(funding_accounts)`.  When one of these later steps fails the exception leaves the command
and nothing releases the outputs (wallet_send, whose signing happens inside Transaction.create, does release).

Legal circumstance used here (nothing is forced, no concurrency needed): the wallet has a second, watch-only
account (`account_add --public_key=xpub...`, a supported configuration) that holds funds.  The default funding
accounts are all accounts of the wallet, coin selection picks an output of the watch-only account, signing
fails - and the outputs of BOTH accounts that were selected stay reserved: the ordinary account cannot pay
any more although nothing was sent.
Run: PROTOCOL_BUFFERS_PYTHON_IMPLEMENTATION=python PYTHONPATH=/tmp/lbry-shims:/tmp/hunt2-C14 /venv/bin/python demo.py
"""
import sys, os, asyncio, tempfile, shutil
sys.path.insert(0, os.path.dirname(os.path.abspath(__file__)))
from harness_common import *  # noqa

COLD_SEED = "abandon abandon abandon abandon abandon abandon abandon abandon abandon abandon abandon about"


async def attempt(label, coro):
    try:
        await coro
        outcome = 'succeeded'
    except BaseException as e:  # pylint: disable=broad-except
        outcome = f'failed with {type(e).__name__}: {e}'
    print(f"  {label}: {outcome}")
    return outcome


async def main():
    directory = tempfile.mkdtemp()
    try:
        daemon, ledger, wallet, account, addresses, server = await make_daemon(directory)
        try:
            cold = Account.from_dict(ledger, Wallet(), {"seed": COLD_SEED})     # lives elsewhere
            watch = Account.from_dict(ledger, wallet, {'name': 'cold storage',
                                                       'public_key': cold.public_key.extended_key_string()})
            assert watch.private_key is None and wallet.accounts == [account, watch]
            await give_utxos(ledger, addresses, [COIN])
            await give_utxos(ledger, await watch.ensure_address_gap(), [5 * COIN])
            print(f"spendable: ordinary account {await account.get_balance()}, "
                  f"watch-only account {await watch.get_balance()}")

            # the control: signing inside Transaction.create - fails the same way, releases
            await attempt("wallet_send 5.5 (signs inside Transaction.create)",
                          daemon.jsonrpc_wallet_send('5.5', [addresses[0]], blocking=False))
            control = await reserved(ledger)
            print(f"    outputs reserved afterwards: {len(control)}")

            await attempt("channel_create @demo 5.5 (signs after Transaction.create)",
                          daemon.jsonrpc_channel_create('@demo', '5.5', blocking=False))
            held = await reserved(ledger)
            print(f"    outputs reserved afterwards: {len(held)}; transactions accepted by the server: "
                  f"{len(server.accepted)}")
            print(f"spendable: ordinary account {await account.get_balance()}, "
                  f"watch-only account {await watch.get_balance()}")
            later = await attempt("wallet_send 0.5 from the ordinary account alone",
                                  daemon.jsonrpc_wallet_send('0.5', [addresses[0]], funding_account_ids=[account.id],
                                                             preview=True))
        finally:
            await ledger.db.close()
    finally:
        shutil.rmtree(directory, ignore_errors=True)
    if control:
        print("unexpected: the control leaked as well")
        return 1
    if held:
        print("VIOLATION (C14): the only build has failed, nothing was or will be broadcast, and its outputs are "
              "still unavailable")
        return 1
    print("holds: every output is available again" + ("" if later == 'succeeded' else " (but the payment failed?)"))
    return 0 if later == 'succeeded' else 1

if __name__ == '__main__':
    sys.exit(asyncio.run(main()))
