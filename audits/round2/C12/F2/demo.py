"""
C12 / F2 - a node that has joined stays invisible to every other node for five minutes (the ping that would verify
it is queued with MAYBE_PING_DELAY = 300 s even when the routing table has room for it), so announcements made in
that window are NOT stored on the nodes closest to the hash, and once the routing tables have caught up value lookups
converge on the truly closest nodes and never reach the nodes that hold the announcement.

Everything below the `Net` class is the REAL lbry code (lbry.dht.node.Node: join_network, refresh_node, announce_blob,
IterativeValueFinder, routing table, ping queue, data store).  The harness replaces only the outside:
  * the clock of the asyncio loop is virtual (a normal SelectorEventLoop; when nothing is ready time jumps to the next
    timer);
  * the UDP network is in memory: sendto() delivers the datagram to the destination protocol 20 ms later.  Nothing is
    lost, duplicated, reordered or altered; every node is an honest unmodified lbry node with default settings.

Scenario A (network growth, 40 nodes): 27 nodes + bootstrap form a network and idle for 4000 s.  Then the 12 nodes
  whose ids are closest to the blob hash join through the bootstrap node (one per second).  10 s after the last join
  (every node has `joined` set and has finished its join lookup) one of the old nodes announces the blob; 1500 s later
  every node looks the blob up.
Scenario B (young network, 15 nodes): 14 nodes join through a fresh bootstrap node, one per second; 100 s later five
  of them announce the blob; 1000 s later every node looks the blob up.

EXPECTED (property C12): the announcement is stored on nodes closest to the hash and every other node's value lookup
returns the announcer (the announcements are 17..25 minutes old).
exit 1 if a lookup does not return an announcer, exit 0 otherwise.
"""
import asyncio
import logging
import os
import random
import sys

if os.environ.get('PYTHONHASHSEED') != '0':   # set/dict orders of the product depend on bytes hashing: pin it
    os.execve(sys.executable, [sys.executable] + sys.argv, dict(os.environ, PYTHONHASHSEED='0'))

from lbry.dht import constants
from lbry.dht.node import Node
from lbry.dht.peer import PeerManager
from lbry.dht.protocol.distance import Distance

LINK_DELAY = 0.02


class VirtualTimeLoop(asyncio.SelectorEventLoop):
    def __init__(self):
        super().__init__()
        self._vtime = 1000.0
        real_select = self._selector.select

        def select(timeout=None):
            if timeout is None:
                raise RuntimeError("nothing scheduled")
            if timeout > 0:
                self._vtime += timeout
            return real_select(0)
        self._selector.select = select

    def time(self):
        return self._vtime


class Net:
    """in-memory loss-free datagram network with a constant one-way delay"""
    def __init__(self, loop):
        self.loop, self.endpoints = loop, {}

    def deliver(self, src, dst, data):
        proto = self.endpoints.get(dst)
        if proto is not None:
            proto.datagram_received(data, src)

    def transport(self, addr):
        net = self

        class Transport(asyncio.DatagramTransport):
            _closing = False

            def sendto(self, data, to=None):
                net.loop.call_later(LINK_DELAY, net.deliver, addr, to, bytes(data))

            def is_closing(self):
                return self._closing

            def close(self):
                self._closing = True
        return Transport()

    async def start(self, node: Node, seeds):
        addr = (node.protocol.external_ip, node.protocol.udp_port)

        async def create_datagram_endpoint(factory, local_addr=None, **_):
            proto = factory()
            transport = self.transport(addr)
            proto.connection_made(transport)
            self.endpoints[addr] = proto
            return transport, proto
        self.loop.create_datagram_endpoint = create_datagram_endpoint
        await node.start_listening('0.0.0.0')
        node.start('0.0.0.0', seeds)


async def value_lookup(node: Node, key: bytes):
    found = []
    async for peers in node.get_iterative_value_finder(key):   # the real IterativeValueFinder
        found.extend(peers)
    return found


def make_nodes(loop, n, base):
    return [Node(loop, PeerManager(loop), constants.generate_id(base + i), 4444, 4444, 3333, f"11.0.{base // 100}.{i + 1}")
            for i in range(n)]


async def check_lookups(nodes, announcers, key, rank):
    failures = 0
    for z in nodes:
        got = {p.node_id for p in await value_lookup(z, key)}
        missed = [rank[a.protocol.node_id] for a in announcers if a is not z and a.protocol.node_id not in got]
        if missed:
            failures += 1
            print(f"   lookup by the node of rank {rank[z.protocol.node_id]:2d} (by distance to the hash) does not "
                  f"return {len(missed)} of {len([a for a in announcers if a is not z])} announcers")
    return failures


async def scenario_growth(loop):
    random.seed(99)
    net = Net(loop)
    nodes = make_nodes(loop, 40, 101)
    key = constants.generate_id(778)
    distance = Distance(key)
    by_distance = sorted(nodes, key=lambda n: distance(n.protocol.node_id))
    rank = {n.protocol.node_id: r for r, n in enumerate(by_distance)}
    boot = nodes[0]
    rest = [n for n in by_distance if n is not boot]
    late, old = rest[:12], rest[12:]
    random.Random(1).shuffle(old)
    seeds = [(boot.protocol.external_ip, 4444)]
    await net.start(boot, [])
    for node in old:
        await net.start(node, seeds)
        await asyncio.sleep(1)
    await asyncio.sleep(4000)
    for node in late:
        await net.start(node, seeds)
        await asyncio.sleep(1)
    await asyncio.sleep(10)
    assert all(n.joined.is_set() for n in nodes), "a node has not joined"
    announcer = old[0]
    stored_to = await announcer.announce_blob(key.hex())
    print(f"A: 40 nodes, all joined; node of rank {rank[announcer.protocol.node_id]} announces: stored on the nodes of "
          f"rank {sorted(rank[i] for i in stored_to)} (closest to the hash are ranks 0..7)")
    await asyncio.sleep(1500)
    failures = await check_lookups(nodes, [announcer], key, rank)
    for node in nodes:
        node.stop()
    return failures


async def scenario_young(loop):
    random.seed(99)
    net = Net(loop)
    nodes = make_nodes(loop, 15, 301)
    key = constants.generate_id(890)
    distance = Distance(key)
    rank = {n.protocol.node_id: r for r, n in enumerate(sorted(nodes, key=lambda n: distance(n.protocol.node_id)))}
    boot = nodes[0]
    await net.start(boot, [])
    for node in nodes[1:]:
        await net.start(node, [(boot.protocol.external_ip, 4444)])
        await asyncio.sleep(1)
    await asyncio.sleep(100)
    assert all(n.joined.is_set() for n in nodes[1:]), "a node has not joined"
    announcers = nodes[3:8]
    for announcer in announcers:
        stored_to = await announcer.announce_blob(key.hex())
        assert stored_to, "announce_blob reported failure"
        print(f"B: 15 nodes; node of rank {rank[announcer.protocol.node_id]:2d} announces 100 s after the last join: "
              f"stored on the nodes of rank {sorted(rank[i] for i in stored_to)} "
              f"(the bootstrap node has rank {rank[boot.protocol.node_id]})")
    await asyncio.sleep(1000)
    failures = await check_lookups(nodes, announcers, key, rank)
    for node in nodes:
        node.stop()
    return failures


if __name__ == '__main__':
    logging.disable(logging.CRITICAL)
    total = 0
    for scenario in (scenario_growth, scenario_young):
        loop = VirtualTimeLoop()
        asyncio.set_event_loop(loop)
        failed = loop.run_until_complete(scenario(loop))
        print(f"   -> {failed} nodes whose value lookup misses an announcer")
        total += failed
        loop.close()
    if total:
        print("VIOLATION: announcements made after every node had joined are not stored on the nodes closest to the "
              "hash and value lookups of other nodes do not return the announcer")
        sys.exit(1)
    print("every lookup returns every announcer")
    sys.exit(0)
