"""
C12 / F1 - a value lookup loses announcers whose announcement is minutes old when further nodes announce the
same blob while the lookup is paging.

Everything below the `Net` class is the REAL lbry code (lbry.dht.node.Node with its KademliaProtocol, routing table,
data store, IterativeValueFinder, announce_blob).  The harness replaces only the outside:
  * the clock of the asyncio loop is virtual (the loop is a normal SelectorEventLoop; when nothing is ready the time
    jumps to the next timer);
  * the UDP network is an in-memory one: sendto() delivers the datagram to the destination protocol 20 ms later.
    No datagram is lost, duplicated, reordered or altered and every node is an honest, unmodified lbry node.

History (all in virtual time):
  1. 40 nodes join through node 0 (one per second), then the network idles for 2000 s (one refresh round included).
  2. 26 nodes announce the same blob, one after the other; each announcement is stored on 8 nodes.
  3. 60 s later node Z (the node farthest from the blob hash, so it stores nothing itself) looks the blob up:
     control - every one of the 26 announcers is returned.
  4. the other 13 nodes now announce the blob too (one starts every 30 ms: the blob is getting popular) and, while
     these announcements arrive, Z looks the blob up again.
EXPECTED (property C12): the second lookup, too, returns each of the 26 announcers of step 2: their announcement
is about two minutes old, far younger than 24 h, the network is loss-free and honest.
exit 1 if one of them is missing from what the lookup yields, exit 0 otherwise.
"""
import asyncio
import logging
import os
import random
import sys

if os.environ.get('PYTHONHASHSEED') != '0':   # set/dict orders of the product depend on str/bytes hashing: pin it
    os.execve(sys.executable, [sys.executable] + sys.argv, dict(os.environ, PYTHONHASHSEED='0'))

from lbry.dht import constants
from lbry.dht.node import Node
from lbry.dht.peer import PeerManager
from lbry.dht.protocol.distance import Distance

N_NODES, N_EARLY, LINK_DELAY, STAGGER = 40, 26, 0.02, 0.03
SEED, Z_START = int(os.environ.get('DEMO_SEED', 6)), float(os.environ.get('DEMO_ZSTART', 0.35))


class VirtualTimeLoop(asyncio.SelectorEventLoop):
    def __init__(self):
        super().__init__()
        self._vtime = 1000.0
        real_select = self._selector.select

        def select(timeout=None):
            if timeout is None:
                raise RuntimeError("nothing scheduled")
            if timeout > 0:
                self._vtime += timeout
            return real_select(0)
        self._selector.select = select

    def time(self):
        return self._vtime


class Net:
    """in-memory loss-free datagram network with a constant one-way delay"""
    def __init__(self, loop):
        self.loop, self.endpoints = loop, {}

    def deliver(self, src, dst, data):
        proto = self.endpoints.get(dst)
        if proto is not None:
            proto.datagram_received(data, src)

    def transport(self, addr):
        net = self

        class Transport(asyncio.DatagramTransport):
            _closing = False

            def sendto(self, data, to=None):
                net.loop.call_later(LINK_DELAY, net.deliver, addr, to, bytes(data))

            def is_closing(self):
                return self._closing

            def close(self):
                self._closing = True
        return Transport()

    async def start(self, node: Node, seeds):
        addr = (node.protocol.external_ip, node.protocol.udp_port)

        async def create_datagram_endpoint(factory, local_addr=None, **_):
            proto = factory()
            transport = self.transport(addr)
            proto.connection_made(transport)
            self.endpoints[addr] = proto
            return transport, proto
        self.loop.create_datagram_endpoint = create_datagram_endpoint
        await node.start_listening('0.0.0.0')
        node.start('0.0.0.0', seeds)


class CountDuplicateWarnings(logging.Handler):
    count = 0

    def emit(self, record):
        if 'returned duplicate peers for blob' in record.getMessage():
            CountDuplicateWarnings.count += 1


async def value_lookup(node: Node, key: bytes):
    found = []
    async for peers in node.get_iterative_value_finder(key):   # the real IterativeValueFinder
        found.extend(peers)
    return found


async def main(loop, seed=SEED, z_start=Z_START):
    random.seed(4711)
    rnd = random.Random(seed)
    net = Net(loop)
    nodes = [Node(loop, PeerManager(loop), constants.generate_id(i + 1), 4444, 4444, 3333, f"11.0.0.{i + 1}")
             for i in range(N_NODES)]
    await net.start(nodes[0], [])
    for node in nodes[1:]:
        await net.start(node, [("11.0.0.1", 4444)])
        await asyncio.sleep(1)
    await asyncio.sleep(2000)

    key = constants.generate_id(5000 + seed)
    distance = Distance(key)
    z = max(nodes, key=lambda n: distance(n.protocol.node_id))
    others = [n for n in nodes if n is not z]
    rnd.shuffle(others)
    early, late = others[:N_EARLY], others[N_EARLY:]

    for announcer in early:
        stored_to = await announcer.announce_blob(key.hex())
        assert len(stored_to) == constants.K, "an early announcement was not stored on 8 nodes"
    t_announced = loop.time()
    await asyncio.sleep(60)

    got = {p.node_id for p in await value_lookup(z, key)}
    missing = [nodes.index(a) for a in early if a.protocol.node_id not in got]
    assert not missing, f"control lookup (quiet network) already misses {missing}"
    print(f"control: quiet network, lookup by node {nodes.index(z)} returns all {len(early)} announcers")

    async def announce_later(announcer, delay):
        await asyncio.sleep(delay)
        await announcer.announce_blob(key.hex())
    tasks = [loop.create_task(announce_later(a, i * STAGGER)) for i, a in enumerate(late)]
    await asyncio.sleep(z_start)
    CountDuplicateWarnings.count = 0
    t_lookup = loop.time()
    got = {p.node_id for p in await value_lookup(z, key)}
    flagged = CountDuplicateWarnings.count
    missing = [nodes.index(a) for a in early if a.protocol.node_id not in got]
    await asyncio.gather(*tasks)
    for node in nodes:
        node.stop()
    return missing, len(got), flagged, t_lookup - t_announced


if __name__ == '__main__':
    logging.getLogger('lbry.dht.protocol.iterative_find').addHandler(CountDuplicateWarnings())
    logging.getLogger('lbry').propagate = False
    logging.getLogger('asyncio').setLevel(logging.CRITICAL)
    loop = VirtualTimeLoop()
    asyncio.set_event_loop(loop)
    missing, n_got, flagged, age = loop.run_until_complete(main(loop))
    print(f"lookup while {N_NODES - 1 - N_EARLY} more nodes announce the blob: {n_got} peers returned, "
          f"{flagged} honest storing nodes logged as 'misbehaving ... returned duplicate peers'")
    if missing:
        print(f"VIOLATION: announcers {missing} (announcement stored on 8 nodes {age:.0f} s earlier, all of them "
              f"alive and honest) are not returned by the value lookup")
        sys.exit(1)
    print("every earlier announcer is returned")
    sys.exit(0)
