"""
C10 / "honest transfer always completes, lying peers never poison" - BlobDownloader (lbry/blob_exchange/downloader.py).

Two honest peers H1, H2 hold the blob the whole time.  Two hostile peers take part:
  L  answers with a response that names the right hash but a wrong length (n+1) and then sends nothing
     (catalogue: wrong length, short bytes) - it answers before the honest peers do,
  D  accepts every connection, reads the request and closes the connection 50 ms later (catalogue: short bytes / drops).
Everything is the real code over real TCP on 127.0.0.1: BlobManager, BlobServer (H1, H2), BlobDownloader, request_blob,
BlobExchangeClientProtocol; blob_download_timeout = 2 s, peer_connect_timeout = 1 s.  The harness only decides WHEN the
peers become known to the downloader (L and D first, H1 and H2 0.3 s later - DHT results arrive over time) and plays
the two hostile peers.

What happens on the unchanged tree
  * the blob's length is not known beforehand (like every stream descriptor blob), L's announcement is in place when
    the honest responses arrive, both honest responses are refused ('unexpected length') and H1, H2 are put on the
    downloader's ignore list - so far this is the known, accepted cost of a concurrent liar: "the next attempt works";
  * L's request times out after blob_download_timeout, the client forgets the wrong length (blob.length is None
    again, no writer left): the blob object is clean, an honest transfer would succeed now;
  * but there is no next attempt: BlobDownloader only clears its ignore list when NO request is active at that moment,
    and D's requests never count as failures (a dropped connection ends request_blob with CancelledError, the peer is
    neither scored nor ignored) - D is asked again the instant it dropped the previous connection, so one request is
    always active.  H1 and H2 stay ignored for the life of the BlobDownloader, i.e. for the rest of the stream:
    the download never completes, also for later blobs of known length that no liar can touch.

exit 1 = property violated (blob not downloaded within 10 x blob_download_timeout, the limit the stream layer uses),
exit 0 = holds.
"""
import asyncio, hashlib, json, os, shutil, sys, tempfile, time, logging

import lbry.wallet  # noqa
from lbry.conf import Config
from lbry.extras.daemon.storage import SQLiteStorage
from lbry.blob.blob_manager import BlobManager
from lbry.blob_exchange.server import BlobServer
from lbry.blob_exchange.downloader import BlobDownloader
from lbry.dht.peer import make_kademlia_peer

logging.disable(logging.CRITICAL)
H1_PORT, H2_PORT, L_PORT, D_PORT = 34541, 34542, 34543, 34544
BLOB_DOWNLOAD_TIMEOUT, PEER_CONNECT_TIMEOUT = 2.0, 1.0


async def start_node(loop, directory, **conf_kwargs):
    conf = Config(data_dir=directory, wallet_dir=directory, download_dir=directory, fixed_peers=[], **conf_kwargs)
    storage = SQLiteStorage(conf, os.path.join(directory, 'lbrynet.sqlite'), loop)
    await storage.open()
    blob_manager = BlobManager(loop, directory, storage, conf)
    await blob_manager.setup()
    return conf, storage, blob_manager


async def read_request(reader):
    data = b''
    while not data.endswith(b'}'):
        chunk = await reader.read(4096)
        if not chunk:
            return None
        data += chunk
    return json.loads(data)


async def main():
    loop = asyncio.get_running_loop()
    honest_dir, client_dir = tempfile.mkdtemp(), tempfile.mkdtemp()
    try:
        # ---- the honest peers: one blob of unknown length (think: stream descriptor) and one of known length
        _, h_storage, h_manager = await start_node(loop, honest_dir)
        blobs = {}
        for name, size in (('B', 70_000), ('C', 50_000)):
            data = os.urandom(size)
            blob_hash = hashlib.sha384(data).hexdigest()
            blob = h_manager.get_blob(blob_hash, size)
            blob.get_blob_writer().write(data)
            await blob.verified.wait()
            blobs[name] = (blob_hash, data)
        await asyncio.sleep(0.1)
        honest_requests = {H1_PORT: 0, H2_PORT: 0}
        for port in (H1_PORT, H2_PORT):
            server = BlobServer(loop, h_manager, 'bQEaw42GXsgCAGio1nxFncJSyRmnztSCjP')
            server.start_server(port, '127.0.0.1')
            await server.started_listening.wait()
        by_hash = {h: d for h, d in blobs.values()}

        # ---- L: right hash, wrong length, then silence
        async def liar(reader, writer):
            try:
                request = await read_request(reader)
                if request:
                    blob_hash = request['requested_blob']
                    writer.write(json.dumps({
                        "incoming_blob": {"blob_hash": blob_hash, "length": len(by_hash[blob_hash]) + 1},
                        "blob_data_payment_rate": "RATE_ACCEPTED", "available_blobs": [blob_hash]}).encode())
                    await writer.drain()
                    await reader.read()   # say nothing more, wait for the client to give up
            except ConnectionError:
                pass
            writer.close()

        # ---- D: takes the request and drops the connection
        dropped = {'count': 0}

        async def dropper(reader, writer):
            dropped['count'] += 1
            try:
                await read_request(reader)
                await asyncio.sleep(0.05)
            except ConnectionError:
                pass
            writer.close()

        await asyncio.start_server(liar, '127.0.0.1', L_PORT)
        await asyncio.start_server(dropper, '127.0.0.1', D_PORT)

        # ---- the client
        conf, c_storage, c_manager = await start_node(loop, client_dir, blob_download_timeout=BLOB_DOWNLOAD_TIMEOUT,
                                                      peer_connect_timeout=PEER_CONNECT_TIMEOUT)
        def peer(i, port):
            return make_kademlia_peer(bytes([i]) * 48, '127.0.0.1', udp_port=4000 + i, tcp_port=port, allow_localhost=True)
        names = {L_PORT: 'L', D_PORT: 'D', H1_PORT: 'H1', H2_PORT: 'H2'}
        peer_queue = asyncio.Queue()
        peer_queue.put_nowait([peer(1, L_PORT), peer(2, D_PORT)])
        loop.call_later(0.3, peer_queue.put_nowait, [peer(3, H1_PORT), peer(4, H2_PORT)])
        downloader = BlobDownloader(loop, conf, c_manager, peer_queue)

        code = 0
        hash_b, data_b = blobs['B']
        started = time.monotonic()
        limit = 10 * BLOB_DOWNLOAD_TIMEOUT
        task = loop.create_task(downloader.download_blob(hash_b))   # length unknown
        done, _ = await asyncio.wait([task], timeout=limit)
        blob_b = c_manager.get_blob(hash_b)
        if blob_b.get_is_verified():
            print(f"blob B downloaded and verified after {time.monotonic() - started:.1f} s "
                  f"({dropped['count']} connections dropped by D meanwhile)")
        else:
            code = 1
            print(f"VIOLATION: blob B (held by H1 and H2 all along) not downloaded after {limit:.0f} s "
                  f"= 10 x blob_download_timeout")
            print(f"  state of the blob object: length={blob_b.length!r} length_from_peer={blob_b.length_from_peer} "
                  f"open writers={len(blob_b.writers)} (the request to D that is active right now)  -> clean, L's lie was forgotten when its request timed out")
            print(f"  downloader.ignored = {sorted(names[p.tcp_port] for p in downloader.ignored)}, "
                  f"failures = { {names[p.tcp_port]: n for p, n in downloader.failures.items()} }, "
                  f"active requests = {[names[p.tcp_port] for p in downloader.active_connections]}")
            print(f"  D has been connected to {dropped['count']} times and is still not ignored; "
                  f"H1/H2 were asked once each and never again")
            task.cancel()
            await asyncio.wait([task])

        # a later blob of the same 'stream', length known from the descriptor: no liar can interfere with it
        hash_c, data_c = blobs['C']
        started = time.monotonic()
        task = loop.create_task(downloader.download_blob(hash_c, len(data_c)))
        await asyncio.wait([task], timeout=3 * BLOB_DOWNLOAD_TIMEOUT)
        blob_c = c_manager.get_blob(hash_c)
        if blob_c.get_is_verified():
            print(f"blob C (known length) downloaded after {time.monotonic() - started:.1f} s")
        else:
            code = 1
            print(f"VIOLATION: blob C (known length, held by H1 and H2) not downloaded after {3 * BLOB_DOWNLOAD_TIMEOUT:.0f} s "
                  f"either: ignored = {sorted(names[p.tcp_port] for p in downloader.ignored)}")
            task.cancel()
            await asyncio.wait([task])
        downloader.close()
        return code
    finally:
        shutil.rmtree(honest_dir, ignore_errors=True)
        shutil.rmtree(client_dir, ignore_errors=True)


if __name__ == '__main__':
    loop = asyncio.new_event_loop()
    result = loop.run_until_complete(main())
    print("exit", result)
    sys.stdout.flush()
    os._exit(result)
