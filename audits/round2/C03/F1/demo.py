"""
C03 / sqlite coin chooser ignores received purchase payments.

A wallet whose only unspent outputs are payments it RECEIVED for paid content
(txo_type 'purchase': output 0 of a purchase transaction, the purchase data
rides in output 1) shows them in its balance, and every other coin-selection
strategy spends them (ledger.constraint_spending_utxos: txo_type in (other, purchase)).
With coin_selection_strategy = 'sqlite' Transaction.create refuses a payment of
1 LBC out of 8 LBC with InsufficientFundsError.

Everything is the real code: Database(':memory:'), Ledger, Account, the real
save_transaction_io path that files the received output as 'purchase'.
exit 1 = property violated, exit 0 = holds.
"""
import asyncio, logging, shutil, sys, tempfile
import lbry.wallet
from lbry.wallet import Ledger as BaseLedger, Database, Headers, Account, Wallet, Transaction, Input, Output
from lbry.wallet.constants import COIN, NULL_HASH32, TXO_TYPES
from lbry.schema.purchase import Purchase
from lbry.error import InsufficientFundsError

logging.disable(logging.CRITICAL)


class Ledger(BaseLedger):
    network_name = 'simnet'
    checkpoints = {}


async def run(strategy):
    tmp = tempfile.mkdtemp()
    ledger = Ledger({'db': Database(':memory:'), 'headers': Headers(':memory:'), 'data_path': tmp})
    await ledger.db.open()
    try:
        ledger.coin_selection_strategy = strategy
        account = Account.from_dict(ledger, Wallet(), {
            "seed": "carbon smart garage balance margin twelve chest sword toast envelope bottom stomach absent"})
        addresses = await account.ensure_address_gap()
        # two customers bought our content: [payment to us, purchase data]; confirmed and verified
        for n, amount in enumerate((5 * COIN, 3 * COIN)):
            address = addresses[n]
            h160 = ledger.address_to_hash160(address)
            customer_coin = Output.pay_pubkey_hash(amount + 10000 + n, NULL_HASH32[:20])
            Transaction().add_outputs([customer_coin])
            tx = Transaction(is_verified=True, height=10) \
                .add_inputs([Input.spend(customer_coin)]) \
                .add_outputs([Output.pay_pubkey_hash(amount, h160), Output.add_purchase_data(Purchase('ab' * 20))])
            await ledger.db.insert_transaction(tx)
            await ledger.db.save_transaction_io(tx, address, h160, '')
        rows = await ledger.db.db.execute_fetchall("select txo_type, amount, is_reserved from txo")
        assert all(r['txo_type'] == TXO_TYPES['purchase'] for r in rows), rows
        balance = await account.get_balance()
        utxos = await account.get_utxos()
        try:
            tx = await Transaction.pay(1 * COIN, addresses[5], [account], account)
            result = f"built: inputs {[i.amount for i in tx.inputs]} outputs {[o.amount for o in tx.outputs]}"
            ok = True
        except InsufficientFundsError as e:
            result = f"InsufficientFundsError: {e}"
            ok = False
        print(f"strategy={strategy!s:17} balance={balance / COIN} LBC, spendable utxos={[u.amount / COIN for u in utxos]}"
              f" -> pay 1 LBC: {result}")
        return ok
    finally:
        await ledger.db.close()
        shutil.rmtree(tmp, ignore_errors=True)


async def main():
    control = await run('prefer_confirmed')
    assert control, "control run (default strategy) must fund the payment"
    if not await run('sqlite'):
        print("VIOLATION: strategy 'sqlite' refuses with insufficient funds although 8 LBC of unspent, unreserved, "
              "confirmed outputs of the funding account (received purchase payments, counted in the balance and "
              "spendable under every other strategy) cover the 1 LBC payment")
        return 1
    print("property holds: the sqlite chooser funds the payment from the received purchase payments")
    return 0

sys.exit(asyncio.run(main()))
