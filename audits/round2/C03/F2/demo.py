"""
C03 / a pre-chosen input is reserved OUTSIDE the utxo reservation lock: the coin
selection of an overlapping build adds an output that is already reserved.

Default strategy (prefer_confirmed; same for standard / only_confirmed): coin
selection is  read utxos -> pick in Python -> write reservation  under
ledger._utxo_reservation_lock.  Transaction.create() reserves its PRE-CHOSEN
inputs with a plain  ledger.reserve_outputs()  that does not take that lock.

Schedule (legal, nothing is reordered): operation A = an ordinary payment of
0.5 LBC; operation B = the txo_spend pattern, create([Input.spend(U1)], []) for
the plain 1 LBC output U1.  B is started while A's utxo read is running in the
database thread.  To make that overlap deterministic the demo wraps the writer
thread pool (the executor, outside the product) so that A's read takes a little
longer - until B has been started and has had time to queue; every job still
runs on the one real writer thread in submission order.
B's reservation write queues behind that read (asyncio write lock is FIFO) and
commits BEFORE A's selection has been written, so A adds U1 although U1 is
reserved by B at that moment: both transactions come back spending U1.

The demo records the order of the reservation writes (observer around
Database.reserve_outputs, behaviour unchanged) and checks the clause for A:
every input ADDED by coin selection must have been unreserved when it was added.
exit 1 = violated, exit 0 = holds.
"""
import asyncio, logging, shutil, sys, tempfile, threading
import lbry.wallet
from lbry.wallet import Ledger as BaseLedger, Database, Headers, Account, Wallet, Transaction, Input, Output
from lbry.wallet.constants import COIN, NULL_HASH32

logging.disable(logging.CRITICAL)


class Ledger(BaseLedger):
    network_name = 'simnet'
    checkpoints = {}


async def main():
    tmp = tempfile.mkdtemp()
    ledger = Ledger({'db': Database(':memory:'), 'headers': Headers(':memory:'), 'data_path': tmp})
    await ledger.db.open()
    try:
        ledger.coin_selection_strategy = 'prefer_confirmed'   # the configuration default
        account = Account.from_dict(ledger, Wallet(), {
            "seed": "carbon smart garage balance margin twelve chest sword toast envelope bottom stomach absent"})
        addresses = await account.ensure_address_gap()
        utxos = []
        for n, amount in enumerate((1 * COIN, 2 * COIN)):
            address = addresses[n]
            h160 = ledger.address_to_hash160(address)
            coin = Output.pay_pubkey_hash(amount + 10000 + n, NULL_HASH32[:20])
            Transaction().add_outputs([coin])
            tx = Transaction(is_verified=True, height=10).add_inputs([Input.spend(coin)]) \
                .add_outputs([Output.pay_pubkey_hash(amount, h160)])
            await ledger.db.insert_transaction(tx)
            await ledger.db.save_transaction_io(tx, address, h160, '')
            utxos.append(tx.outputs[0])
        u1, u2 = utxos

        # observer: order in which reservation writes are committed, and by whom
        log = []
        real_reserve = ledger.db.reserve_outputs

        async def observed_reserve(txos, is_reserved=True):
            txos = list(txos)
            await real_reserve(txos, is_reserved)
            who = asyncio.current_task().get_name()
            who = 'B' if who == 'B' else 'A'   # A's select+reserve runs in a helper task of Ledger.get_spendable_utxos
            log.append((who, 'reserve' if is_reserved else 'release', [t.id for t in txos]))
        ledger.db.reserve_outputs = observed_reserve

        # outside of the product: the writer thread pool, with one slow job (A's utxo read)
        real_executor = ledger.db.db.writer_executor
        slow_job_may_finish = threading.Event()

        class SlowFirstJob:
            armed = True

            def submit(self, fn, *args, **kwargs):
                if self.armed:
                    self.armed = False

                    def slow(*a, **kw):
                        result = fn(*a, **kw)          # the read itself is done: its snapshot is taken
                        slow_job_may_finish.wait(10)   # ... but the thread reports back late
                        return result
                    return real_executor.submit(slow, *args, **kwargs)
                return real_executor.submit(fn, *args, **kwargs)

            def shutdown(self, *args, **kwargs):
                return real_executor.shutdown(*args, **kwargs)
        ledger.db.db.writer_executor = SlowFirstJob()

        async def op_a():   # ordinary payment, inputs chosen by coin selection
            return await Transaction.pay(COIN // 2, addresses[5], [account], account)

        async def op_b():   # txo_spend pattern: the caller names the plain output it wants to spend
            return await Transaction.create([Input.spend(u1)], [], [account], account)

        task_a = asyncio.ensure_future(op_a())
        task_a.set_name('A')
        # start B once A holds the reservation lock and its utxo read has been handed to the db thread
        for _ in range(1000):
            if ledger._utxo_reservation_lock.locked() and ledger.db.db.writers:
                break
            await asyncio.sleep(0)
        else:
            raise RuntimeError("A never started its utxo read")
        task_b = asyncio.ensure_future(op_b())
        task_b.set_name('B')
        for _ in range(50):            # B runs up to the point where it has to wait for A (whichever lock that is)
            await asyncio.sleep(0)
        slow_job_may_finish.set()
        tx_a, tx_b = await asyncio.gather(task_a, task_b)

        a_added = [i.txo_ref.id for i in tx_a.inputs]          # A had no pre-chosen inputs
        b_pre = [i.txo_ref.id for i in tx_b.inputs[:1]]
        print("A (pay 0.5 LBC)        inputs:", [f"{i.amount / COIN} LBC {i.txo_ref.id[:8]}" for i in tx_a.inputs])
        print("B (spend U1, no output) inputs:", [f"{i.amount / COIN} LBC {i.txo_ref.id[:8]}" for i in tx_b.inputs])
        print("reservation writes in commit order:")
        for who, what, ids in log:
            print(f"   {who:8} {what:8} {[x[:8] for x in ids]}")
        # was an output added by A's coin selection already reserved by somebody else when A wrote its reservation?
        held = {}
        bad = []
        for who, what, ids in log:
            for txoid in ids:
                if what == 'reserve':
                    if txoid in held and held[txoid] != who and who != 'B':
                        bad.append((txoid, held[txoid], who))
                    held.setdefault(txoid, who)
                else:
                    held.pop(txoid, None)
        if bad:
            for txoid, first, second in bad:
                print(f"VIOLATION: output {txoid[:8]} was reserved by operation {first} and was then ADDED by the coin "
                      f"selection of operation {second}: an added input that was not unreserved; "
                      f"both transactions spend it: {set(a_added) & set(b_pre) != set()}")
            return 1
        print("property holds for the builder that selects coins: every input it added was unreserved when it was added")
        if set(a_added) & set(b_pre):
            print("(note: B's own PRE-CHOSEN input had meanwhile been taken by A; B's caller named it from a stale "
                  "listing - pre-chosen inputs are the caller's to vouch for)")
        return 0
    finally:
        await ledger.db.close()
        shutil.rmtree(tmp, ignore_errors=True)

sys.exit(asyncio.run(main()))
