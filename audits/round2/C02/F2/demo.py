"""
C02 / F2 - after a descriptor recovery the name a downloaded stream is saved under is the publisher's raw
suggested_file_name, control characters included.

History forced (all of it legal, nothing of lbry is replaced or patched):
  publisher : builds a stream with the real code and gives its descriptor the suggested_file_name
              'invoice\\x1b[2J\\x1b[1;1H\\r.pdf\\n.exe' (a publisher decides what is in the descriptor he signs off with
              his claim; the loader accepts it, the stream hash and sd hash are correct).
  session 1 : the user downloads the stream (the blobs are in his blob directory, the stream, the file row - no file
              saved, he only streamed it - and the claim are in his database).  ManagedStream.suggested_file_name
              sanitises the name here.
  between   : the sd blob file is gone at the next start - what the comment in StreamManager.initialize_from_database
              names itself: "the blob files were deleted manually or save_blobs was not true when the stream was
              downloaded" (with save_blobs=false the descriptor only ever was in memory; the demo removes the file).
  session 2 : StreamManager.start() -> recover_streams() rebuilds the descriptor from the database and
              SQLiteStorage.recover_streams stores os.path.basename(descriptor.suggested_file_name) - NOT sanitised -
              as the file name of the stream.
  session 3 : (any later start) the stream comes back with that file name; file_list shows it and file_save /
              ManagedStream.save_file() writes the decrypted stream under it.

Property: the file name suggested for saving never contains a path separator, NUL or control character for any
published name.

exit 0: the file name the stream is saved under has no such character in any session
exit 1: it has
"""
import asyncio
import logging
import os
import shutil
import sys
import tempfile
import unicodedata

import lbry.wallet  # noqa: F401
from lbry.conf import Config
from lbry.schema.claim import Claim
from lbry.extras.daemon.storage import SQLiteStorage
from lbry.blob.blob_manager import BlobManager
from lbry.stream.descriptor import StreamDescriptor
from lbry.stream.managed_stream import ManagedStream
from lbry.stream.stream_manager import StreamManager

logging.disable(logging.CRITICAL)
HOSTILE = 'invoice\x1b[2J\x1b[1;1H\r.pdf\n.exe'


def bad_chars(name: str):
    return sorted({c for c in name if c in '/\\\x00' or unicodedata.category(c) == 'Cc'})


async def publisher(loop, tmp):
    """the hostile publisher: real blobs, real hashes, his own choice of suggested_file_name"""
    pub_dir = os.path.join(tmp, 'publisher_blobs')
    os.mkdir(pub_dir)
    src = os.path.join(tmp, 'payload.bin')
    with open(src, 'wb') as f:
        f.write(os.urandom(70000))
    honest = await StreamDescriptor.create_stream(loop, pub_dir, src)
    hostile = StreamDescriptor(loop, pub_dir, honest.stream_name, honest.key, HOSTILE, honest.blobs)
    sd_blob = await hostile.make_sd_blob()
    os.remove(os.path.join(pub_dir, honest.sd_hash))
    return pub_dir, sd_blob.blob_hash, src


async def open_session(loop, conf, tmp):
    storage = SQLiteStorage(conf, os.path.join(tmp, 'lbrynet.sqlite'), loop)
    await storage.open()
    blob_manager = BlobManager(loop, os.path.join(tmp, 'blobs'), storage, conf)
    await blob_manager.setup()
    stream_manager = StreamManager(loop, conf, blob_manager, None, storage, None)
    return storage, blob_manager, stream_manager


async def close_session(storage, blob_manager, stream_manager):
    await stream_manager.stop()
    blob_manager.stop()
    await storage.close()


async def main() -> int:
    loop = asyncio.get_event_loop()
    tmp = tempfile.mkdtemp(prefix='c02f2-')
    try:
        pub_dir, sd_hash, src = await publisher(loop, tmp)
        os.mkdir(os.path.join(tmp, 'blobs'))
        os.mkdir(os.path.join(tmp, 'downloads'))
        conf = Config(data_dir=tmp, wallet_dir=tmp, download_dir=os.path.join(tmp, 'downloads'),
                      reflect_streams=False, fixed_peers=[], save_files=False)

        # ---- session 1: the download (its result: the stream's blobs in the user's blob directory) ----
        for name in os.listdir(pub_dir):
            shutil.copy(os.path.join(pub_dir, name), os.path.join(tmp, 'blobs', name))
        storage, blob_manager, stream_manager = await open_session(loop, conf, tmp)
        await stream_manager.start()
        claim = Claim()
        claim.stream.source.sd_hash = sd_hash
        claim.stream.title = 'invoice'
        txid = 'ab' * 32
        await storage.save_claims([{
            'name': 'invoice', 'claim_id': 'cd' * 20, 'address': 'bT6wc54qiUUYt34HQF9wnW8b2o2yQTXf2S',
            'claim_sequence': 1, 'value': claim, 'height': 1000, 'amount': '1.0', 'nout': 0, 'txid': txid,
            'supports': []
        }])
        stream = ManagedStream(loop, conf, blob_manager, sd_hash, conf.download_dir)   # what download_from_uri does
        await stream.start(save_now=False)
        await storage.save_content_claim(stream.stream_hash, f'{txid}:0')
        stream_manager.add(stream)
        names = {'session 1 (download)': stream.file_name}
        await stream.stop()
        await close_session(storage, blob_manager, stream_manager)

        # ---- the sd blob file is not there at the next start ----
        os.remove(os.path.join(tmp, 'blobs', sd_hash))

        # ---- session 2: start -> recovery of the descriptor from the database ----
        storage, blob_manager, stream_manager = await open_session(loop, conf, tmp)
        await stream_manager.start()
        if sd_hash not in stream_manager.streams:
            print("the stream was not recovered - scenario did not run")
            return 2
        names['session 2 (recovery)'] = stream_manager.streams[sd_hash].file_name
        await close_session(storage, blob_manager, stream_manager)

        # ---- session 3: any later start ----
        storage, blob_manager, stream_manager = await open_session(loop, conf, tmp)
        await stream_manager.start()
        stream = stream_manager.streams[sd_hash]
        names['session 3 (next start)'] = stream.file_name
        await stream.save_file()                      # file_save without a name: the suggested one is used
        await asyncio.wait_for(stream.finished_writing.wait(), 30)
        written = os.listdir(conf.download_dir)
        with open(src, 'rb') as f1, open(os.path.join(conf.download_dir, written[0]), 'rb') as f2:
            same_content = f1.read() == f2.read()
        await stream.stop()
        await close_session(storage, blob_manager, stream_manager)

        violations = []
        for where, name in names.items():
            print(f"{where:24s} file name: {name!r}")
            if name and bad_chars(name):
                violations.append(f"{where}: {name!r} contains {bad_chars(name)}")
        print(f"file written by save_file(): {written!r} (content equals the published file: {same_content})")
        for name in written:
            if bad_chars(name):
                violations.append(f"file created in the download directory: {name!r} contains {bad_chars(name)}")
        if violations:
            print("VIOLATION: the name the stream is saved under carries the publisher's control characters:")
            for violation in violations:
                print("   -", violation)
            return 1
        print("OK: every file name is free of path separators, NUL and control characters")
        return 0
    finally:
        shutil.rmtree(tmp, ignore_errors=True)


if __name__ == '__main__':
    sys.exit(asyncio.run(main()))
