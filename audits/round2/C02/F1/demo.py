"""
C02 / F1 - a blob write that fails is taken for a saved blob: the publish "succeeds", the stream cannot be decrypted.

Legal circumstance forced (outside of the product): the file system refuses part of a blob write.  The demo uses a real
kernel fault, no monkeypatching: the soft RLIMIT_FSIZE of this process is lowered to 1 MiB while the stream is created
(`ulimit -f`), so write(2) on the 1.5 MiB blob file stores 1 MiB and then fails with EFBIG - exactly what a full disk
(ENOSPC), a quota (EDQUOT) or an I/O error (EIO) do to `open(path, 'wb'); f.write(blob_bytes)`.  The small descriptor
blob still fits.  Nothing of lbry is replaced.

Property: publishing a file as a stream and decrypting its blobs in descriptor order reproduces the file.  Under a
write fault the only acceptable outcomes are "the publish fails" or "the stream round-trips".

exit 0: create_stream raised (the fault is surfaced), or the stream round-trips
exit 1: create_stream returned a descriptor although a data blob named by it is not (completely) in the blob directory
"""
import asyncio
import binascii
import logging
import os
import resource
import shutil
import sys
import tempfile

import lbry.wallet  # noqa: F401  (import order needed by lbry.conf)
from lbry.stream.descriptor import StreamDescriptor
from lbry.blob.blob_file import BlobFile

logging.disable(logging.CRITICAL)
LIMIT = 1024 * 1024
SIZE = 1536 * 1024 + 7


async def main() -> int:
    loop = asyncio.get_event_loop()
    # the write task's exception is never retrieved by the product; keep the demo's output readable
    loop.set_exception_handler(lambda _loop, ctx: None)
    tmp = tempfile.mkdtemp(prefix='c02f1-')
    soft, hard = resource.getrlimit(resource.RLIMIT_FSIZE)
    try:
        blob_dir = os.path.join(tmp, 'blobs')
        os.mkdir(blob_dir)
        file_path = os.path.join(tmp, 'movie.bin')
        data = os.urandom(SIZE)
        with open(file_path, 'wb') as f:
            f.write(data)

        completed = []
        resource.setrlimit(resource.RLIMIT_FSIZE, (LIMIT, hard))  # from here on no file of this process grows past 1 MiB
        try:
            descriptor = await StreamDescriptor.create_stream(
                loop, blob_dir, file_path, key=b'0123456789abcdef',
                blob_completed_callback=lambda blob: completed.append(blob.blob_hash)
            )
        except OSError as err:
            print(f"OK: the publish failed and said why: {type(err).__name__}: {err}")
            left = os.listdir(blob_dir)
            print(f"    files left in the blob directory: {len(left)}")
            return 0
        finally:
            resource.setrlimit(resource.RLIMIT_FSIZE, (soft, hard))

        print(f"create_stream returned normally: sd_hash {descriptor.sd_hash[:12]}.., "
              f"{len(descriptor.blobs) - 1} data blob(s); blob_completed_callback was called for {len(completed)} blob(s)")
        # now do what the property says: decrypt the blobs in descriptor order with the descriptor's key and ivs
        key = binascii.unhexlify(descriptor.key)
        out = b''
        problems = []
        for info in descriptor.blobs[:-1]:
            path = os.path.join(blob_dir, info.blob_hash)
            on_disk = os.path.getsize(path) if os.path.isfile(path) else None
            if on_disk != info.length:
                problems.append(f"blob {info.blob_num} {info.blob_hash[:12]}..: descriptor says {info.length} bytes, "
                                f"the blob directory has {on_disk}")
            try:
                blob = BlobFile(loop, info.blob_hash, info.length, None, blob_dir)   # as any later reader opens it
                out += blob.decrypt(key, binascii.unhexlify(info.iv))
            except Exception as err:  # pylint: disable=broad-except
                problems.append(f"blob {info.blob_num} cannot be decrypted: {type(err).__name__}: {err}")
        if out != data:
            problems.append(f"decrypted stream has {len(out)} bytes, the published file has {len(data)}")
        if problems:
            print("VIOLATION: the publish reported success but the stream does not reproduce the file:")
            for problem in problems:
                print("   -", problem)
            return 1
        print("OK: round trip holds")
        return 0
    finally:
        resource.setrlimit(resource.RLIMIT_FSIZE, (soft, hard))
        shutil.rmtree(tmp, ignore_errors=True)


if __name__ == '__main__':
    sys.exit(asyncio.run(main()))
