"""
C02 / F3 - a file whose name is not valid UTF-8 cannot be published: create_stream encrypts and stores every blob and
then dies with UnicodeEncodeError, leaving the blobs behind.

Input (no fault, no schedule, nothing replaced): a non-empty file named b'caf\\xe9 men\\xfc.txt' (Latin-1 bytes - a
perfectly legal POSIX file name, what old archives, other locales and removable media are full of).  Python hands such a
name out as 'caf\\udce9 men\\udcfc.txt' (surrogateescape), os.stat/open work with it, the product reads the file fine -
but StreamDescriptor writes hexlify(stream_name.encode()) into the stream hash and the descriptor.

Property: publishing ANY non-empty file (quantifier: all file names) and decrypting the blobs reproduces the file; the
suggested file name is free of separators / NUL / control characters.

exit 0: the file is published, the round trip holds, the descriptor loads again and its names are clean
exit 1: the publish fails (or anything of the above does not hold)
"""
import asyncio
import binascii
import logging
import os
import shutil
import sys
import tempfile
import unicodedata

import lbry.wallet  # noqa: F401
from lbry.stream.descriptor import StreamDescriptor
from lbry.blob.blob_file import BlobFile

logging.disable(logging.CRITICAL)
RAW_NAME = b'caf\xe9 men\xfc.txt'


async def main() -> int:
    loop = asyncio.get_event_loop()
    tmp = tempfile.mkdtemp(prefix='c02f3-')
    try:
        blob_dir = os.path.join(tmp, 'blobs')
        os.mkdir(blob_dir)
        raw_path = os.path.join(os.fsencode(tmp), RAW_NAME)
        data = os.urandom(50000)
        with open(raw_path, 'wb') as f:
            f.write(data)
        file_path = [os.path.join(tmp, name) for name in os.listdir(tmp) if name != 'blobs'][0]  # as a str, from the OS
        print(f"file to publish: {file_path!r} ({os.path.getsize(file_path)} bytes)")
        try:
            descriptor = await StreamDescriptor.create_stream(loop, blob_dir, file_path)
        except Exception as err:  # pylint: disable=broad-except
            print(f"VIOLATION: the publish failed: {type(err).__name__}: {err}")
            print(f"   blobs written before it failed and left in the blob directory: {len(os.listdir(blob_dir))}")
            return 1
        key = binascii.unhexlify(descriptor.key)
        out = b''.join(
            BlobFile(loop, info.blob_hash, info.length, None, blob_dir).decrypt(key, binascii.unhexlify(info.iv))
            for info in descriptor.blobs[:-1]
        )
        if out != data:
            print("VIOLATION: the decrypted stream differs from the file")
            return 1
        loaded = await StreamDescriptor.from_stream_descriptor_blob(
            loop, blob_dir, BlobFile(loop, descriptor.sd_hash, None, None, blob_dir)
        )
        if (loaded.stream_hash, loaded.stream_name, loaded.suggested_file_name) != \
                (descriptor.stream_hash, descriptor.stream_name, descriptor.suggested_file_name):
            print("VIOLATION: the descriptor does not load back to what was published")
            return 1
        bad = [c for c in loaded.suggested_file_name if c in '/\\\x00' or unicodedata.category(c) == 'Cc']
        if bad:
            print(f"VIOLATION: suggested file name {loaded.suggested_file_name!r} contains {bad}")
            return 1
        print(f"OK: published as stream_name {loaded.stream_name!r}, suggested_file_name "
              f"{loaded.suggested_file_name!r}; round trip holds")
        return 0
    finally:
        shutil.rmtree(os.fsencode(tmp), ignore_errors=True)


if __name__ == '__main__':
    sys.exit(asyncio.run(main()))
