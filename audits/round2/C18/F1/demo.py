"""
C18 / F1: one entry in the blob directory that cannot be stat'ed makes BlobManager.setup() raise
before any reconciliation is done.

History (all legal, nothing of the product is replaced, the real file system is used):
  1. run 1: a one-blob stream is published the way StreamManager.create does it (content blob A, descriptor
     blob B; files + 'finished' rows, B has should_announce=1), clean stop
  2. while the daemon is down: B's file is removed, and an unrelated entry appears in blobfiles/ under a
     blob-hash-like name C that stat() refuses with something else than ENOENT:
       variant "ENOTDIR": a symlink whose target path runs through a regular file
                          (the directory it pointed into was replaced by a file)
       variant "ELOOP":   a symlink that points at itself
     (the same happens with EACCES - target inside a directory the daemon's user may not search - or with
      ENOTCONN/ESTALE/EIO of a dead fuse/nfs mount; those cannot be produced by root in a sandbox)
  3. run 2: BlobManager.setup()

Expected (C18): setup() succeeds; A is reported, B is downgraded to 'pending', C is no blob file.
Observed: os.DirEntry.is_file() only swallows FileNotFoundError, every other OSError leaves the scan,
setup() raises, B stays 'finished' (storage.get_blobs_to_announce() - what the DB driven announcer of the
daemon sends to the DHT - still lists it), A is not reported.  ComponentManager.start() awaits its stages
with asyncio.wait(), which swallows the exception, so the daemon carries on with this state: the hash
announcer component (depends on DHT + DATABASE only) announces B for ever, on every restart.
"""
import asyncio
import hashlib
import os
import shutil
import sys
import tempfile

import lbry.wallet  # noqa: F401  (must be imported before lbry.conf)
from lbry.conf import Config
from lbry.extras.daemon.storage import SQLiteStorage
from lbry.blob.blob_manager import BlobManager
from lbry.stream.descriptor import StreamDescriptor


def blob_of(data: bytes):
    return hashlib.sha384(data).hexdigest()


async def run_history(variant: str) -> list:
    problems = []
    tmp = tempfile.mkdtemp(prefix='c18f1-')
    loop = asyncio.get_running_loop()
    try:
        blob_dir = os.path.join(tmp, 'blobfiles')
        os.mkdir(blob_dir)
        db_path = os.path.join(tmp, 'lbrynet.sqlite')
        conf = Config(data_dir=tmp, wallet_dir=tmp, download_dir=tmp)

        hash_c = blob_of(b'no such blob')
        source = os.path.join(tmp, 'published.bin')
        with open(source, 'wb') as f:
            f.write(b'a' * 1000)

        # ---- run 1: two blob completions through the real writer, then a clean shutdown
        storage = SQLiteStorage(conf, db_path, loop)
        await storage.open()
        manager = BlobManager(loop, blob_dir, storage, conf)
        await manager.setup()
        descriptor = await StreamDescriptor.create_stream(
            loop, blob_dir, source, blob_completed_callback=manager.blob_completed
        )
        await storage.store_stream(manager.get_blob(descriptor.sd_hash, is_mine=True), descriptor)
        hash_a, hash_b = descriptor.blobs[0].blob_hash, descriptor.sd_hash
        await asyncio.sleep(0.05)  # let the blob_completed tasks write the rows
        assert os.path.isfile(os.path.join(blob_dir, hash_a)) and os.path.isfile(os.path.join(blob_dir, hash_b))
        assert await storage.get_blob_status(hash_a) == 'finished'
        assert await storage.get_blob_status(hash_b) == 'finished'
        manager.stop()
        await storage.close()

        # ---- behind the daemon's back
        os.remove(os.path.join(blob_dir, hash_b))
        if variant == 'ENOTDIR':
            plain = os.path.join(tmp, 'was-a-directory')
            with open(plain, 'wb') as f:
                f.write(b'x')
            os.symlink(os.path.join(plain, hash_c), os.path.join(blob_dir, hash_c))
        else:
            os.symlink(hash_c, os.path.join(blob_dir, hash_c))  # points at itself

        # ---- run 2
        storage = SQLiteStorage(conf, db_path, loop, time_getter=lambda: 2 ** 40)
        await storage.open()
        manager = BlobManager(loop, blob_dir, storage, conf)
        try:
            await manager.setup()
        except OSError as err:
            problems.append(f"[{variant}] BlobManager.setup() raised {type(err).__name__}: {err}")
        status_b = await storage.get_blob_status(hash_b)
        if status_b != 'pending':
            problems.append(f"[{variant}] blob B has no file but its row is still {status_b!r}")
        to_announce = await storage.get_blobs_to_announce()
        if hash_b in to_announce:
            problems.append(f"[{variant}] get_blobs_to_announce() lists B (the sd blob), whose file is gone")
        if hash_a not in manager.completed_blob_hashes:
            problems.append(f"[{variant}] blob A has file and 'finished' row but is not reported as completed")
        if hash_c in manager.completed_blob_hashes or await storage.get_blob_status(hash_c) == 'finished':
            problems.append(f"[{variant}] the symlink C is treated as a blob file")
        manager.stop()
        await storage.close()
    finally:
        shutil.rmtree(tmp, ignore_errors=True)
    return problems


async def main():
    problems = []
    for variant in ('ENOTDIR', 'ELOOP'):
        problems += await run_history(variant)
    return problems


if __name__ == '__main__':
    found = asyncio.run(main())
    if found:
        print("C18 VIOLATED:")
        for p in found:
            print("  -", p)
        sys.exit(1)
    print("C18 holds: start-up reconciliation ignores entries that cannot be stat'ed")
    sys.exit(0)
