"""
C18 / F2: during start-up the daemon itself deletes a descriptor blob file and keeps reporting, announcing and
offering that blob for the whole session.

History (real code, real file system, real sqlite; nothing of the product is replaced):
  1. run 1: a file is published through StreamManager.create() and gets its claim (so that the stream is one of
     the daemon's files), clean stop.
  2. while the daemon is down the descriptor (sd) blob's file is replaced by a file that is not JSON
     (variant "empty": 0 bytes - what a full disk or a death between open() and write() leaves behind;
      variant "garbage": some other bytes).  = a file removed and a file added behind the daemon's back.
  3. run 2, the daemon's start-up sequence: BlobManager.setup()  (BlobComponent.start), then
     StreamManager.start()  (FileManagerComponent.start -> initialize_from_database).

setup() sees a regular file under the sd hash: row stays 'finished', hash goes to completed_blob_hashes (fine so
far).  StreamManager._load_stream -> BlobManager.get_stream_descriptor -> StreamDescriptor.
_from_stream_descriptor_blob cannot decode the file and calls blob.delete() on the BlobFile directly: the file is
removed, but neither completed_blob_hashes nor the row are touched.  When start-up is over the blob manager
reports the sd blob as completed (blob_list, status, availability answers of the blob server), the row is
'finished' with should_announce=1 so get_blobs_to_announce() hands it to the DHT announcer - and there is no file.
This lasts until the next restart.
"""
import asyncio
import logging
import os
import shutil
import sys
import tempfile

import lbry.wallet  # noqa: F401  (must be imported before lbry.conf)
from lbry.conf import Config
from lbry.schema.claim import Claim
from lbry.extras.daemon.storage import SQLiteStorage
from lbry.blob.blob_manager import BlobManager
from lbry.blob.blob_file import is_valid_blobhash
from lbry.stream.stream_manager import StreamManager

logging.disable(logging.CRITICAL)
FAR_FUTURE = 2 ** 40


async def run_history(variant: str) -> list:
    problems = []
    tmp = tempfile.mkdtemp(prefix='c18f2-')
    loop = asyncio.get_running_loop()
    try:
        blob_dir = os.path.join(tmp, 'blobfiles')
        os.mkdir(blob_dir)
        db_path = os.path.join(tmp, 'lbrynet.sqlite')
        conf = Config(data_dir=tmp, wallet_dir=tmp, download_dir=tmp)
        conf.reflect_streams = False
        source = os.path.join(tmp, 'published.bin')
        with open(source, 'wb') as f:
            f.write(b'a' * 1000)

        # ---- run 1: publish + claim
        storage = SQLiteStorage(conf, db_path, loop)
        await storage.open()
        manager = BlobManager(loop, blob_dir, storage, conf)
        await manager.setup()
        streams = StreamManager(loop, conf, manager, None, storage, None)
        await streams.start()
        stream = await streams.create(source)
        sd_hash, stream_hash = stream.sd_hash, stream.stream_hash
        claim = Claim()
        claim.stream.source.sd_hash = sd_hash
        await storage.save_claims([{
            'txid': 'ab' * 32, 'nout': 0, 'claim_id': 'cd' * 20, 'name': 'published', 'amount': '1.0', 'height': 1,
            'address': 'bYFeMtSL7ARuG1iMpjFyrnTe4oJHSAVNXF', 'claim_sequence': 1, 'value': claim
        }])
        await storage.save_content_claim(stream_hash, 'ab' * 32 + ':0')
        await asyncio.sleep(0.05)
        await streams.stop()
        manager.stop()
        await storage.close()

        # ---- behind the daemon's back: the sd blob's file is replaced by something that is not JSON
        os.remove(os.path.join(blob_dir, sd_hash))
        with open(os.path.join(blob_dir, sd_hash), 'wb') as f:
            f.write(b'' if variant == 'empty' else b'not a stream descriptor')

        # ---- run 2: the daemon's start-up sequence
        storage = SQLiteStorage(conf, db_path, loop, time_getter=lambda: FAR_FUTURE)
        await storage.open()
        manager = BlobManager(loop, blob_dir, storage, conf)
        await manager.setup()
        streams = StreamManager(loop, conf, manager, None, storage, None)
        await streams.start()

        def has_file(blob_hash):
            return os.path.isfile(os.path.join(blob_dir, blob_hash))

        files = {name for name in os.listdir(blob_dir) if is_valid_blobhash(name) and has_file(name)}
        finished = set(await storage.run_and_return_list("select blob_hash from blob where status='finished'"))
        for blob_hash in manager.completed_blob_hashes:
            if not has_file(blob_hash):
                problems.append(f"[{variant}] reported as completed without a file: {blob_hash[:12]} "
                                f"({'the sd blob' if blob_hash == sd_hash else 'content blob'})")
        for blob_hash in finished - files:
            problems.append(f"[{variant}] row 'finished' without a file: {blob_hash[:12]}")
        for blob_hash in files - finished:
            problems.append(f"[{variant}] file without 'finished' row: {blob_hash[:12]}")
        for blob_hash in await storage.get_blobs_to_announce():
            if not has_file(blob_hash):
                problems.append(f"[{variant}] handed to the DHT announcer without a file: {blob_hash[:12]}")
        await streams.stop()
        manager.stop()
        await storage.close()
    finally:
        shutil.rmtree(tmp, ignore_errors=True)
    return problems


async def main():
    problems = []
    for variant in ('empty', 'garbage'):
        problems += await run_history(variant)
    return problems


if __name__ == '__main__':
    found = asyncio.run(main())
    if found:
        print("C18 VIOLATED after the daemon's start-up sequence (BlobManager.setup + StreamManager.start):")
        for p in found:
            print("  -", p)
        sys.exit(1)
    print("C18 holds after start-up: what is reported, announced and recorded as finished has its file")
    sys.exit(0)
