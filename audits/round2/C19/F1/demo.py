"""
C19 demo: blobs of a stream that is stored WITHOUT a file row (a `get` cut between store_stream and
save_downloaded_file) are counted in the content class but are never offered for removal.

History (all real lbry code; the only thing forced is WHERE the user's `get` task is cancelled):
  1. a server node publishes streams D (2 MiB) and N (6 MiB) and serves them with the real BlobServer on loopback
  2. the client downloads D the normal way (ManagedStream.start + all blobs)        -> content class 2 MB
  3. the client's BackgroundDownloader seeds N (bare blobs)                          -> network class 6 MB
     limits: blob_storage_limit=4, network_storage_limit=8 : both classes within their limit, a pass deletes nothing
  4. the user asks for N; ManagedStream.start() stores the stream (sd blob is already local) and the task is
     cancelled before save_downloaded_file (client disconnect / daemon shutdown / crash between the two commits)
  5. cleanup passes: content usage is now 2+6=8 > 4.  Expected: afterwards content usage <= 4, because 8 MB of
     blobs that the user did not publish exist.  Observed: the pass deletes the user's properly downloaded D,
     usage stays at 6 > 4 on every later pass, N's 6 MB can never be removed (and is in no file list either).
"""
import asyncio, os, sys, tempfile, shutil, logging
import lbry.wallet  # noqa
from lbry.conf import Config
from lbry.extras.daemon.storage import SQLiteStorage
from lbry.blob.blob_manager import BlobManager
from lbry.blob.disk_space_manager import DiskSpaceManager
from lbry.blob_exchange.server import BlobServer
from lbry.stream.stream_manager import StreamManager
from lbry.stream.managed_stream import ManagedStream
from lbry.stream.background_downloader import BackgroundDownloader

logging.disable(logging.CRITICAL)
MB = 1024 * 1024
PORT = 34719


def disk_bytes(blob_dir, hashes):
    return sum(os.path.getsize(os.path.join(blob_dir, h)) for h in hashes if os.path.isfile(os.path.join(blob_dir, h)))


async def main():
    loop = asyncio.get_running_loop()
    tmp = tempfile.mkdtemp(prefix='c19f1-')
    problems = []
    try:
        # ---------------- server node ----------------
        sdir = os.path.join(tmp, 'server'); os.mkdir(sdir)
        sconf = Config(data_dir=sdir, download_dir=sdir, wallet_dir=sdir, fixed_peers=[], tracker_servers=[],
                       reflect_streams=False)
        sstorage = SQLiteStorage(sconf, os.path.join(sdir, 'lbrynet.sqlite'), loop)
        await sstorage.open()
        sblobs = os.path.join(sdir, 'blobfiles'); os.mkdir(sblobs)
        sbm = BlobManager(loop, sblobs, sstorage, sconf)
        await sbm.setup()
        ssm = StreamManager(loop, sconf, sbm, None, sstorage, None)
        for name, size in (('d.bin', 2 * MB - 1), ('n.bin', 6 * MB - 3)):
            with open(os.path.join(sdir, name), 'wb') as f:
                f.write(os.urandom(size))
        stream_d = await ssm.create(os.path.join(sdir, 'd.bin'))
        stream_n = await ssm.create(os.path.join(sdir, 'n.bin'))
        server = BlobServer(loop, sbm, 'bQEaw42GXsgCAGio1nxFncJSyRmnztSCjP')
        server.start_server(PORT, '127.0.0.1')
        await server.started_listening.wait()

        # ---------------- client node ----------------
        cdir = os.path.join(tmp, 'client'); os.mkdir(cdir)
        conf = Config(data_dir=cdir, download_dir=cdir, wallet_dir=cdir, fixed_peers=[('127.0.0.1', PORT)],
                      tracker_servers=[], reflect_streams=False, save_files=False,
                      blob_storage_limit=4, network_storage_limit=8)
        storage = SQLiteStorage(conf, os.path.join(cdir, 'lbrynet.sqlite'), loop)
        await storage.open()
        cblobs = os.path.join(cdir, 'blobfiles'); os.mkdir(cblobs)
        bm = BlobManager(loop, cblobs, storage, conf)
        await bm.setup()
        dsm = DiskSpaceManager(conf, storage, bm)

        # 2. normal download of D
        d = ManagedStream(loop, conf, bm, stream_d.sd_hash)
        await d.start()
        for info in d.descriptor.blobs[:-1]:
            await d.downloader.download_stream_blob(info)
        await d.stop(finished=True)
        await asyncio.sleep(0.1)
        d_hashes = [b.blob_hash for b in d.descriptor.blobs[:-1]]

        # 3. background seeding of N
        await BackgroundDownloader(conf, storage, bm).download_blobs(stream_n.sd_hash)
        await asyncio.sleep(0.1)
        n_hashes = [b.blob_hash for b in stream_n.descriptor.blobs[:-1]]

        usage = await storage.get_stored_blob_disk_usage()
        print('before the get :', {k: round(v / MB, 2) for k, v in usage.items()})
        assert usage['content_storage'] == 2 * MB and usage['network_storage'] >= 6 * MB, usage
        await dsm.clean()
        assert disk_bytes(cblobs, d_hashes + n_hashes) == 8 * MB, "a pass deleted blobs although both classes are within their limits"

        # 4. the user's `get N`, cut between the two database commits of ManagedStream.start()
        n = ManagedStream(loop, conf, bm, stream_n.sd_hash)
        get_task = loop.create_task(n.start())
        while not await storage.stream_exists(stream_n.sd_hash):   # db calls are served first-in first-out
            pass
        get_task.cancel()                                           # disconnect / shutdown / crash here
        try:
            await get_task
        except asyncio.CancelledError:
            pass
        await n.stop_tasks()
        if await storage.file_exists(stream_n.sd_hash):
            print('INCONCLUSIVE: the cancellation came too late, the file row was written')
            return 2
        files = await storage.run_and_return_list("select sd_hash from file join stream using (stream_hash)")
        print('after the cut  : stream N is stored, it has no file row; streams with a file row:',
              ['D' if h == stream_d.sd_hash else 'N' for h in files])

        # 5. cleanup passes
        for i in (1, 2, 3):
            await dsm.clean()
            usage = await storage.get_stored_blob_disk_usage()
            on_disk_d, on_disk_n = disk_bytes(cblobs, d_hashes), disk_bytes(cblobs, n_hashes)
            print(f'after pass {i}   : content usage {usage["content_storage"] / MB:.2f} MB (limit 4), '
                  f'on disk: D {on_disk_d / MB:.2f} MB, N {on_disk_n / MB:.2f} MB')
        removable_left = on_disk_n + on_disk_d          # none of these blobs was published by this user
        used_mb = int(usage['content_storage'] / MB) + int(usage['private_storage'] / MB)
        if used_mb > conf.blob_storage_limit and removable_left >= (used_mb - conf.blob_storage_limit) * MB:
            problems.append(
                f"content class still at {used_mb} MB > limit {conf.blob_storage_limit} MB after three passes although "
                f"{removable_left / MB:.2f} MB of blobs the user never published are on disk; "
                f"get_stored_blobs(is_mine=False) offers {len(await storage.get_stored_blobs(False))} blobs"
            )
        if on_disk_d == 0 and used_mb > conf.blob_storage_limit:
            problems.append("the only stream the user can see (D) was sacrificed and the class is still over its limit")

        server.stop_server()
        bm.stop(); sbm.stop()
        await storage.close(); await sstorage.close()
    finally:
        shutil.rmtree(tmp, ignore_errors=True)
    if problems:
        print('PROPERTY VIOLATED:')
        for p in problems:
            print(' -', p)
        return 1
    print('property holds')
    return 0


if __name__ == '__main__':
    sys.exit(asyncio.run(main()))
