"""
C17 / F1 - a reply whose envelope decodes but whose payload is not a well-formed reply to the pending request
(a valid reply with ONE byte changed in flight) is not dropped: the sender is booked as having replied, no failure
is recorded, it is put into the routing table, and the raw payload is handed to the waiting code, which dies with
TypeError / KeyError (Node.announce_blob aborts).

Everything below is the real lbry code (Node, KademliaProtocol, KademliaRPC, codec).  Only the OUTSIDE is replaced:
an in-memory datagram network.  The one circumstance forced: the network changes exactly one byte of one reply
datagram (what a 16-bit UDP checksum lets through now and then, and what any buggy or hostile peer can send).

exit 0: property holds, exit 1: violated.
"""
import asyncio
import logging
import sys
import warnings

warnings.filterwarnings('ignore')
logging.disable(logging.CRITICAL)

from lbry.dht import constants                                   # noqa: E402
from lbry.dht.error import RemoteException                       # noqa: E402
from lbry.dht.node import Node                                   # noqa: E402
from lbry.dht.peer import PeerManager, make_kademlia_peer        # noqa: E402
from lbry.dht.serialization.bencoding import bdecode             # noqa: E402

KEY = constants.generate_id(1234)


class Network:
    def __init__(self, loop):
        self.loop, self.protocols, self.tamper = loop, {}, {}

    def transport_for(self, addr):
        net = self

        class Transport:
            closed = False

            def sendto(self, data, to):
                tamper = net.tamper.get(addr)
                if tamper:
                    data = tamper(data)
                rx = net.protocols.get(to)
                if rx:
                    net.loop.call_later(0.001, rx.datagram_received, data, addr)

            def is_closing(self):
                return self.closed

            def close(self):
                self.closed = True

            def get_extra_info(self, _):
                return None
        return Transport()

    def add_node(self, i) -> Node:
        addr = (f'1.2.3.{i}', 4444)
        node = Node(self.loop, PeerManager(self.loop), constants.generate_id(i), 4444, 4444, 3333, addr[0],
                    rpc_timeout=0.5)
        transport = self.transport_for(addr)
        node.protocol.connection_made(transport)
        node.listening_port = transport
        node.protocol.start()
        node.protocol.ping_queue.start()
        self.protocols[addr] = node.protocol
        return node


def contact(node: Node):
    return make_kademlia_peer(node.protocol.node_id, node.protocol.external_ip, node.protocol.udp_port)


async def meet(nodes):  # ordinary history: everybody has pinged everybody
    for n in nodes:
        for m in nodes:
            if n is not m:
                await n.protocol.get_rpc_peer(contact(m)).ping()
    await asyncio.sleep(0.3)


def one_byte(old: bytes, new: bytes, only_if=lambda msg: True):
    """the network's fault: in a RESPONSE datagram replace `old` by `new` (same length, differing in ONE byte)"""
    assert len(old) == len(new) and sum(a != b for a, b in zip(old, new)) == 1

    def tamper(data: bytes) -> bytes:
        try:
            msg = bdecode(data)
        except Exception:
            return data
        if msg.get(0) == 1 and old in data and only_if(msg):
            i = data.index(old)
            return data[:i] + new + data[i + len(old):]
        return data
    return tamper


is_find_value_reply = lambda msg: isinstance(msg[3], dict) and b'token' in msg[3]
is_find_node_reply = lambda msg: isinstance(msg[3], list)

CASES = [
    # name, rpc, tamper, is the tampered datagram still a well-formed reply?
    ("control: untouched findValue reply", 'find_value', None, True),
    ("control: findValue reply, bencode broken (i3e -> i3x)", 'find_value', one_byte(b'i3ed', b'i3xd'), False),
    ("findValue reply, payload dict 'd' -> list 'l'", 'find_value',
     one_byte(b'i3ed', b'i3el', is_find_value_reply), False),
    ("findValue reply, key 'token' -> 'tokem' (no token)", 'find_value',
     one_byte(b'5:token', b'5:tokem', is_find_value_reply), False),
    ("findNode reply, contact address '1.2.3.2' -> '1.2.3.\\xff'", 'find_node',
     one_byte(b'7:1.2.3.2', b'7:1.2.3.\xff', is_find_node_reply), False),
    ("findNode reply, contact port i4444e -> i-444e", 'find_node',
     one_byte(b'i4444e', b'i-444e', is_find_node_reply), False),
]


async def handler_level(loop, problems):
    print("PART 1 - node A asks a stranger S (not in A's routing table); one byte of S's reply changes in flight")
    for name, rpc, tamper, well_formed in CASES:
        net = Network(loop)
        a, s, x, y = (net.add_node(i) for i in (1, 9, 2, 3))
        await meet([s, x, y])                       # S knows contacts, so its replies carry contact triples
        await y.protocol.get_rpc_peer(contact(s)).store(KEY)   # ...and a stored announcement for KEY
        assert not a.protocol.routing_table.get_peers()
        net.tamper[('1.2.3.9', 4444)] = tamper
        outcome = 'returned'
        try:
            await getattr(a.protocol.get_rpc_peer(contact(s)), rpc)(KEY)
        except (asyncio.TimeoutError, RemoteException) as err:
            outcome = f'request failed cleanly ({type(err).__name__})'
        except Exception as err:  # pylint: disable=broad-except
            outcome = f'caller got {type(err).__name__}: {err}'
        await asyncio.sleep(0.3)                    # let the routing table task run
        failures = [t for t in (a.protocol.peer_manager._rpc_failures.get(('1.2.3.9', 4444)) or ()) if t]
        in_table = a.protocol.routing_table.get_peer(s.protocol.node_id) is not None
        rated = a.protocol.peer_manager.peer_is_good(contact(s))
        print(f"  {name}\n      -> {outcome}; failures recorded for S: {len(failures)}; S rated good: {rated}; "
              f"S in A's routing table: {in_table}")
        if well_formed:
            assert outcome == 'returned' and in_table and not failures, "harness sanity"
        else:
            if not failures:
                problems.append(f"{name}: not a well-formed reply, but no failure was recorded for the sender")
            if in_table:
                problems.append(f"{name}: not a well-formed reply, but it changed the routing table (S was added)")
            if outcome.startswith('caller got'):
                problems.append(f"{name}: the malformed payload was handed to the caller - {outcome}")
        for n in (a, s, x, y):
            n.stop()


async def consequence(loop, problems):
    print("PART 2 - eight nodes that know each other; ONE of them (B) sends findValue replies with one byte changed; "
          "node A announces a blob")
    net = Network(loop)
    nodes = [net.add_node(i) for i in range(1, 8)]
    bad = net.add_node(66)
    await meet(nodes + [bad])
    net.tamper[('1.2.3.66', 4444)] = one_byte(b'i3ed', b'i3el', is_find_value_reply)
    a = nodes[1]
    try:
        stored_to = await a.announce_blob(KEY.hex())
        print(f"  announce_blob returned: stored to {len(stored_to)} peers")
    except Exception as err:  # pylint: disable=broad-except
        print(f"  announce_blob raised {type(err).__name__}: {err}")
        problems.append(f"Node.announce_blob aborted with {type(err).__name__} because of one peer's malformed reply")
    failures = [t for t in (a.protocol.peer_manager._rpc_failures.get(('1.2.3.66', 4444)) or ()) if t]
    print(f"  failures recorded for B: {len(failures)}; B rated good: {a.protocol.peer_manager.peer_is_good(contact(bad))}")
    if not failures:
        problems.append("PART 2: no failure recorded for the peer that sent the malformed findValue reply")
    for n in nodes + [bad]:
        n.stop()


async def main():
    loop = asyncio.get_running_loop()
    loop.set_exception_handler(lambda *_: None)   # PART 1's lost probe exceptions are reported by us, not by asyncio
    problems = []
    await handler_level(loop, problems)
    await consequence(loop, problems)
    await asyncio.sleep(0.1)
    if problems:
        print("\nPROPERTY VIOLATED (C17: a datagram that is not a well-formed protocol message is dropped with the "
              "sender's failure recorded and never changes the routing table):")
        for p in problems:
            print("  -", p)
        return 1
    print("\nproperty holds: every malformed reply was dropped / failed cleanly with the sender's failure recorded")
    return 0


if __name__ == '__main__':
    sys.exit(asyncio.run(main()))
