"""
C17 / F2 - a store request whose token is not a token at all (an integer, a list, a 1-byte string - the project's own
encoder RequestDatagram.make_store refuses anything but 48 bytes) is executed: the stored announcements change, the
sender gets b'OK' and no failure is recorded.  Likewise a findNode whose key is a bencoded LIST of 48 small integers
(right len(), wrong type) is answered with contacts.

Real KademliaProtocol / KademliaRPC / codec; the only thing replaced is the UDP transport (records what is sent).
The node has been listening for longer than the five-minute grace period in which lbry accepts any token
(loop.time() - started_listening_time >= 300 is checked below), so the token is supposed to matter.

exit 0: property holds, exit 1: violated.
"""
import asyncio
import logging
import sys
import warnings

warnings.filterwarnings('ignore')
logging.disable(logging.CRITICAL)

from lbry.dht import constants                                    # noqa: E402
from lbry.dht.peer import PeerManager, make_kademlia_peer         # noqa: E402
from lbry.dht.protocol.protocol import KademliaProtocol           # noqa: E402
from lbry.dht.serialization.bencoding import bdecode, _bencode    # noqa: E402
from lbry.dht.serialization.datagram import RequestDatagram       # noqa: E402


class Transport:
    def __init__(self):
        self.sent = []

    def sendto(self, data, addr):
        self.sent.append((data, addr))

    def is_closing(self):
        return False

    def close(self):
        pass


def request(method: bytes, args: list, node_id: bytes) -> bytes:
    return _bencode({0: 0, 1: constants.generate_rpc_id(), 2: node_id, 3: method, 4: args})


async def main():
    loop = asyncio.get_running_loop()
    if loop.time() < constants.TOKEN_SECRET_REFRESH_INTERVAL:      # machine booted < 5 min ago: emulate a later time
        real_time = loop.time
        loop.time = lambda: real_time() + constants.TOKEN_SECRET_REFRESH_INTERVAL
    node = KademliaProtocol(loop, PeerManager(loop), constants.generate_id(1), '1.2.3.4', 4444, 3333)
    transport = Transport()
    node.connection_made(transport)
    assert loop.time() - node.started_listening_time >= constants.TOKEN_SECRET_REFRESH_INTERVAL
    for i in range(2, 7):
        await node.routing_table.add_peer(make_kademlia_peer(constants.generate_id(i), f'1.2.3.{i + 10}', 4444), None)

    sender, sender_id = ('5.6.7.8', 5555), constants.generate_id(77)
    problems = []

    def deliver(name, datagram, well_formed):
        transport.sent.clear()
        stored_before = {k: list(v) for k, v in node.data_store._data_store.items()}
        failures_before = node.peer_manager._rpc_failures.get(sender)
        node.datagram_received(datagram, sender)
        reply = bdecode(transport.sent[0][0]) if transport.sent else {}
        kind = {1: 'RESPONSE', 2: 'ERROR'}.get(reply.get(0), 'nothing')
        changed = stored_before != {k: list(v) for k, v in node.data_store._data_store.items()}
        failed = node.peer_manager._rpc_failures.get(sender) != failures_before
        print(f"  {name}\n      -> reply: {kind} {reply.get(3) if kind == 'ERROR' or not isinstance(reply.get(3), list) else '<%d contacts>' % len(reply[3])}; "
              f"stored announcements changed: {changed}; failure recorded for sender: {failed}")
        if well_formed:
            assert kind == 'RESPONSE' and not failed, "harness sanity"
        else:
            if kind == 'RESPONSE':
                problems.append(f"{name}: handled as the request it resembles (answered with a response)")
            if changed:
                problems.append(f"{name}: changed the stored announcements")
            if not failed:
                problems.append(f"{name}: no failure recorded for the sender")

    # ordinary history: the sender fetches a token and announces blob X the proper way
    blob_x, blob_y = constants.generate_id(1000), constants.generate_id(1001)
    node.datagram_received(RequestDatagram.make_find_value(sender_id, blob_x).bencode(), sender)
    token = bdecode(transport.sent[-1][0])[3][b'token']
    print("store requests (args: blob hash, token, tcp port, publisher id, age):")
    deliver("control: well-formed store of blob X with the token the node issued",
            RequestDatagram.make_store(sender_id, blob_x, token, 3333).bencode(), True)
    for label, bad_token in (("the integer 5", 5), ("a list", [1, [2], b'x']), ("a 1-byte string", b'x'),
                             ("a 49-byte string", b'\x00' * 49)):
        try:
            RequestDatagram.make_store(sender_id, blob_y, bad_token, 3333)
            raise AssertionError("lbry's own encoder accepts this token?")
        except (ValueError, TypeError):
            pass   # the project's own encoder calls it malformed
        deliver(f"store of blob Y whose token is {label}",
                request(b'store', [blob_y, bad_token, 3333, sender_id, 0], sender_id), False)
        node.data_store._data_store.pop(blob_y, None)

    print("findNode requests (args: key):")
    key = constants.generate_id(5)
    deliver("control: well-formed findNode", RequestDatagram.make_find_node(sender_id, key).bencode(), True)
    deliver("findNode whose key is a bencoded list of 48 integers (l i7e i7e ... e)",
            request(b'findNode', [[7] * 48], sender_id), False)

    if problems:
        print("\nPROPERTY VIOLATED (C17: a datagram that is not a well-formed protocol message is dropped with the "
              "sender's failure recorded and never changes the stored announcements):")
        for p in problems:
            print("  -", p)
        return 1
    print("\nproperty holds: every malformed request was rejected with the sender's failure recorded")
    return 0


if __name__ == '__main__':
    sys.exit(asyncio.run(main()))
