"""
C11 / clause: "a contact that still answers pings is never displaced by a newcomer at a different address".

History (all through the REAL KademliaProtocol / TreeRoutingTable code, only the UDP wire is replaced by an
in-memory datagram network that delivers every datagram, in order, after 1 ms):

  1. "us" pings the honest node V (node id X, 2.2.2.2:4444); V answers, so X@2.2.2.2 enters our routing table.
  2. "us" sends an ordinary ping to another host M (3.3.3.3:4444).  M answers that ping with a perfectly
     well-formed response datagram whose node_id field is X (V's id).  (Any host we ever query can do this;
     node ids are public - they are handed out in every findNode reply.)
  3. handle_response_datagram() queues make_kademlia_peer(X, 3.3.3.3, 4444) for the routing table and
     TreeRoutingTable.add_peer() -> KBucket.add_peer() REPLACES X@2.2.2.2 by X@3.3.3.3 on the spot:
     no liveness probe of the known contact is made, although V is up and answers every ping.

Part 2 repeats the same history on a bare TreeRoutingTable with an explicit probe callback (probe always answers).

exit 0: the live contact stays (and a contact that does NOT answer is still replaced by the new address)
exit 1: the live contact was displaced by the newcomer at the other address
"""
import asyncio
import logging
import sys
import warnings

warnings.filterwarnings("ignore")
logging.disable(logging.CRITICAL)

from lbry.dht import constants
from lbry.dht.error import RemoteException
from lbry.dht.peer import PeerManager, make_kademlia_peer
from lbry.dht.protocol.protocol import KademliaProtocol
from lbry.dht.protocol.routing_table import TreeRoutingTable
from lbry.dht.serialization.datagram import decode_datagram, RequestDatagram, ResponseDatagram, RESPONSE_TYPE

NETWORK = {}          # (ip, port) -> datagram_received callable
PINGS_SEEN_BY_V = []  # every request V receives


class WireTransport:
    """in-memory UDP: every datagram is delivered, in order, 1 ms later"""
    def __init__(self, loop, addr):
        self.loop, self.addr, self.closed = loop, addr, False

    def sendto(self, data, to_addr):
        rx = NETWORK.get(tuple(to_addr))
        if rx is not None:
            self.loop.call_later(0.001, rx, bytes(data), self.addr)

    def is_closing(self):
        return self.closed

    def close(self):
        self.closed = True

    def get_extra_info(self, *_):
        return None


def make_node(loop, node_id, ip, rpc_timeout=0.5):
    proto = KademliaProtocol(loop, PeerManager(loop), node_id, ip, 4444, 3333, rpc_timeout=rpc_timeout)
    proto.connection_made(WireTransport(loop, (ip, 4444)))
    NETWORK[(ip, 4444)] = proto.datagram_received
    proto.start()
    return proto


async def wait_for(cond, timeout=5.0):
    loop = asyncio.get_running_loop()
    end = loop.time() + timeout
    while not cond() and loop.time() < end:
        await asyncio.sleep(0.02)
    return cond()


async def part1_real_protocol():
    loop = asyncio.get_running_loop()
    own_id, victim_id, attacker_id = constants.generate_id(1), constants.generate_id(2), constants.generate_id(3)
    us = make_node(loop, own_id, "1.1.1.1")
    victim = make_node(loop, victim_id, "2.2.2.2")

    # observe what V receives (pure observation, V's own handler still runs)
    v_rx = victim.datagram_received
    def v_spy(data, addr):
        msg = decode_datagram(data)
        if isinstance(msg, RequestDatagram):
            PINGS_SEEN_BY_V.append(msg.method)
        return v_rx(data, addr)
    NETWORK[("2.2.2.2", 4444)] = v_spy

    # M: a host that answers our requests with V's node id in the response
    m_transport = WireTransport(loop, ("3.3.3.3", 4444))
    def m_rx(data, addr):
        msg = decode_datagram(data)
        if isinstance(msg, RequestDatagram):
            m_transport.sendto(ResponseDatagram(RESPONSE_TYPE, msg.rpc_id, victim_id, b'pong').bencode(), addr)
    NETWORK[("3.3.3.3", 4444)] = m_rx

    try:
        v_peer = make_kademlia_peer(victim_id, "2.2.2.2", 4444)
        await us.get_rpc_peer(v_peer).ping()
        assert await wait_for(lambda: us.routing_table.get_peer(victim_id) == v_peer), "V never entered the table"
        seen_before = len(PINGS_SEEN_BY_V)

        m_peer = make_kademlia_peer(attacker_id, "3.3.3.3", 4444)
        await us.get_rpc_peer(m_peer).ping()            # an ordinary request to M; M claims to be X in the reply
        await asyncio.sleep(1.5)                          # > rpc_timeout + several routing_table_task cycles

        now = us.routing_table.get_peer(victim_id)
        probes_of_v = PINGS_SEEN_BY_V[seen_before:]
        await us.get_rpc_peer(v_peer).ping()            # V is (still) alive: raises if it does not answer
        structure = [(p.node_id == victim_id, p.address) for p in us.routing_table.get_peers()]
        if now != v_peer:
            return (f"real protocol: live contact X@2.2.2.2:4444 was displaced by X@{now.address}:{now.udp_port} "
                    f"after one reply from 3.3.3.3 carrying node id X; pings V received in between: {probes_of_v} "
                    f"(V answered a ping right after); table={structure}")
        return None
    finally:
        us.stop(), victim.stop()
        await asyncio.sleep(0)


async def part2_bare_table():
    loop = asyncio.get_running_loop()
    own = constants.generate_id(10)
    x = constants.generate_id(11)
    table = TreeRoutingTable(loop, PeerManager(loop), own)
    probed = []

    async def alive(peer):
        probed.append(peer)

    async def dead(peer):
        probed.append(peer)
        raise asyncio.TimeoutError()

    old = make_kademlia_peer(x, "2.2.2.2", 4444)
    new = make_kademlia_peer(x, "3.3.3.3", 4444)
    assert await table.add_peer(old, alive)
    result = await table.add_peer(new, alive)
    if table.get_peer(x) != old:
        return (f"bare table: add_peer(X@3.3.3.3) returned {result} and displaced X@2.2.2.2 "
                f"(probe calls: {len(probed)}; the probe would have answered)")
    # the legitimate case must keep working: the known address stopped answering -> the new address replaces it
    result = await table.add_peer(new, dead)
    if not result or table.get_peer(x) != new:
        return "bare table: a contact that no longer answers at its old address was not replaced by its new address"
    ids = [p.node_id for p in table.get_peers()]
    assert len(ids) == len(set(ids)) == 1
    return None


async def main():
    problems = [p for p in (await part1_real_protocol(), await part2_bare_table()) if p]
    for p in problems:
        print("VIOLATION:", p)
    if problems:
        return 1
    print("OK: a contact that answers pings is not displaced by the same node id arriving from another address")
    return 0


if __name__ == "__main__":
    sys.exit(asyncio.run(main()))
