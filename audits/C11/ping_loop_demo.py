import sys, json
sys.path.insert(0,'/verif')
from simverif.props import c12
sc={'run_seed':5,'property':'C12','tier':'quick','family':'faulty','id_seed':7,'split_under':1,'n':3,'hostile':{'1':'reply_port_all'},'hostile_rate':1.0,
 'net':{'latency':[0.001,0.02],'dup':0.0,'loss':0.0},
 'ops':[{'op':'join','node':0,'wait':0.0},{'op':'join','node':1,'wait':0.0},{'op':'join','node':2,'wait':0.0},{'op':'sleep','dt':620},{'op':'faults_on','loss':0.0,'dead':[]},
  {'op':'lookup','kind':'node','node':0,'blob':12345678901234567890,'wait':0.0,'faulty':True},{'op':'sleep','dt':3000}]}
import simverif.core.dhtenv as D
_o=D.DhtWorld.stop_all
def so(self):
    print('PINGS', sorted(self.pings_by_node.items()))
    return _o(self)
D.DhtWorld.stop_all=so
res=c12.execute(sc)
print(res['outcome'], [v['detail'][:200] for v in res['violations']])
print({k:v for k,v in res['faults'].items()}, res['sim_time'], res['steps'])
print({k:v for k,v in res['probes'].items() if 'monitor' in k})
