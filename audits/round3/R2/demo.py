"""
R1 (regression of 330444a): with a kept connection the downloader has only max_connections_per_download (4)
request slots.  Before 330444a a peer that failed stayed banned for as long as a connection was kept, so the
spare slots went to peers that had not been tried yet.  Now every ban lapses after min(30, failures**2) s and
the returning offenders compete with never-tried peers on equal terms (score 0; the order among equal scores
is the arbitrary-but-stable iteration order of a set).  Six peers that accept the connection and never answer
(each holds a slot for blob_download_timeout = 30 s = the longest ban) are enough to keep the three spare slots
occupied for ever: a good peer found later is never asked, the stream stays on the slow peer.

The REAL BlobDownloader of the tree is driven on a virtual clock; only the network function request_blob is
replaced by a model with the real one's return values:
  slow good peer : delivers the blob (through the real blob writer) after 20 s, connection kept
  fast good peer : delivers after 1 s, connection kept                    (announced at t = 70 s)
  tarpit         : (0, None) after blob_download_timeout                   (what a request timeout returns)
Because the loser of the tie depends on hash order, every one of the 7 untried peers takes the role of the
late fast peer once.  Expected: in every assignment the fast peer is asked within one blob_download_timeout
of its arrival (old code: at once; follow-up: when the next slot frees).  exit 1 = starved, exit 0 = fine.
"""
import os
import sys
if os.environ.get("PYTHONHASHSEED") != "0":      # str/bytes hashes decide the tie: make the run reproducible
    os.environ["PYTHONHASHSEED"] = "0"
    os.execv(sys.executable, [sys.executable] + sys.argv)
import asyncio
import hashlib
import logging
import lbry.wallet  # noqa: F401  (import order)
from lbry.conf import Config
from lbry.blob.blob_file import BlobBuffer
from lbry.dht.peer import make_kademlia_peer
import lbry.blob_exchange.downloader as downloader_module
from lbry.blob_exchange.downloader import BlobDownloader

logging.disable(logging.CRITICAL)
HORIZON = 900.0
ARRIVAL = 70.0


class VirtualLoop(asyncio.SelectorEventLoop):
    """time() jumps to the next timer whenever nothing is ready"""
    def __init__(self):
        super().__init__()
        self._vt = 0.0

    def time(self):
        return self._vt

    def _run_once(self):
        if not self._ready and self._scheduled and self._scheduled[0]._when > self._vt:
            self._vt = self._scheduled[0]._when
        super()._run_once()


class KeptConnection:
    transport = None

    def close(self):
        pass


class Blobs:
    """blob manager stand-in: real in-memory blobs, no storage"""
    connection_manager = None

    def __init__(self, loop):
        self.loop, self.blobs, self.data = loop, {}, {}

    def make(self, n):
        data = b'%d' % n * 100
        blob_hash = hashlib.sha384(data).hexdigest()
        self.data[blob_hash] = data
        return blob_hash

    def get_blob(self, blob_hash, length=None, is_mine=False):
        if blob_hash not in self.blobs:
            self.blobs[blob_hash] = BlobBuffer(self.loop, blob_hash, length)
        return self.blobs[blob_hash]


def run(bad_kind: str, bad_count: int, fast_index: int) -> float:
    loop = VirtualLoop()
    asyncio.set_event_loop(loop)
    blobs = Blobs(loop)
    slow = make_kademlia_peer(b'\x01' * 48, "1.2.3.1", tcp_port=3333)
    untried = [make_kademlia_peer(bytes([16 + i]) * 48, f"1.2.4.{i + 1}", tcp_port=4000 + i) for i in range(bad_count + 1)]
    fast = untried[fast_index]
    tarpits = [p for p in untried if p is not fast]
    role = {(slow.address, slow.tcp_port): 'slow', (fast.address, fast.tcp_port): 'fast'}
    first_asked = []

    async def request_blob(loop, blob, address, tcp_port, peer_connect_timeout, blob_download_timeout,
                           connected_protocol=None, connection_id=0, connection_manager=None):
        kind = role.get((address, tcp_port), bad_kind)
        if kind in ('tarpit', 'unreachable'):
            await asyncio.sleep(blob_download_timeout if kind == 'tarpit' else peer_connect_timeout)
            return 0, None
        if kind == 'fast' and not first_asked:
            first_asked.append(loop.time())
        await asyncio.sleep(20 if kind == 'slow' else 1)
        if not blob.get_is_verified() and blob.is_writeable():
            blob.get_blob_writer(address, tcp_port).write(blobs.data[blob.blob_hash])
            await blob.verified.wait()
        return len(blobs.data[blob.blob_hash]), connected_protocol or KeptConnection()

    downloader_module.request_blob = request_blob

    async def main():
        config = Config()
        assert (config.blob_download_timeout, config.peer_connect_timeout) == (30.0, 3.0)
        assert config.max_connections_per_download == 4
        peer_queue = asyncio.Queue()
        downloader = BlobDownloader(loop, config, blobs, peer_queue)
        peer_queue.put_nowait([slow] + tarpits)
        loop.call_later(ARRIVAL, peer_queue.put_nowait, [fast])
        n = 0
        while loop.time() < HORIZON and not first_asked:       # the blobs of a stream, one after the other
            n += 1
            blob_hash = blobs.make(n)
            await downloader.download_blob(blob_hash, len(blobs.data[blob_hash]))
        downloader.close()
        return (first_asked[0] - ARRIVAL) if first_asked else float('inf')

    try:
        return loop.run_until_complete(main())
    finally:
        for task in asyncio.all_tasks(loop):
            task.cancel()
        loop.run_until_complete(asyncio.sleep(0))
        loop.close()


def main():
    print("delay between the announcement of the fast peer and its first request, per role assignment:")
    worst = 0.0
    for name, bad_kind, bad_count, step in (("A", 'tarpit', 6, 1), ("B", 'unreachable', 60, 6)):
        delays = [run(bad_kind, bad_count, i) for i in range(0, bad_count + 1, step)]
        print(f"  {name} ({bad_count} x {bad_kind}):",
              " ".join("never" if d == float('inf') else "%.0fs" % d for d in delays))
        worst = max(worst, *delays)
    if worst > 30.0:
        print("FAIL: a never-tried peer is starved by peers whose bans lapsed while a connection was kept")
        return 1
    print("OK: the never-tried peer is asked within one blob_download_timeout in every assignment")
    return 0


if __name__ == '__main__':
    sys.exit(main())
