"""
R1: the immediate ping-back goes through the NAT pinhole the requester's own request has just opened.

Upstream waits MAYBE_PING_DELAY (300 s) before pinging a contact that queried us, long enough for such a pinhole to
expire: only contacts that can be reached *unsolicited* get into routing tables. After 1a40b8b the ping leaves within a
second (bucket has room - always true for the bucket nearest to us and for a bootstrap node), the pong comes back
through the pinhole, and the unreachable node is added, kept, and handed out to third parties in findNode replies.

Real KademliaProtocol objects on a virtual-time loop; fake transports deliver with 50 ms latency; node N sits behind a
NAT that only lets a datagram in from an endpoint N itself sent to during the last 60 s.
exit 1 = N (unreachable) is in A's routing table and is handed to C, whose request to it times out.
"""
import asyncio, sys, logging
from lbry.dht import constants
from lbry.dht.peer import PeerManager, make_kademlia_peer
from lbry.dht.protocol.protocol import KademliaProtocol

logging.disable(logging.CRITICAL)
LATENCY, PINHOLE = 0.05, 60.0


class SimLoop(asyncio.SelectorEventLoop):
    def __init__(self):
        super().__init__()
        self._vt = 0.0

    def time(self):
        return self._vt

    def _run_once(self):
        if not self._ready and self._scheduled and self._scheduled[0]._when > self._vt:
            self._vt = self._scheduled[0]._when
        super()._run_once()


class Net:
    def __init__(self, loop):
        self.loop, self.nodes, self.natted, self.sent_to = loop, {}, set(), {}

    def add(self, node_id, ip, port=4444, nat=False, bootstrap=False):
        proto = KademliaProtocol(self.loop, PeerManager(self.loop), node_id, ip, port, 3333, is_boostrap_node=bootstrap)
        src = (ip, port)
        net = self

        class Transport(asyncio.DatagramTransport):
            closed = False

            def sendto(self, data, addr=None):
                net.sent_to[(src, addr)] = net.loop.time()
                net.loop.call_later(LATENCY, net.deliver, data, src, addr)

            def is_closing(self):
                return self.closed

            def close(self):
                self.closed = True

        proto.connection_made(Transport())
        proto.start()
        proto.ping_queue.start()
        self.nodes[src] = proto
        if nat:
            self.natted.add(src)
        return proto

    def deliver(self, data, src, dst):
        rx = self.nodes.get(dst)
        if rx is None or rx.transport.is_closing():
            return
        if dst in self.natted and self.sent_to.get((dst, src), -1e9) < self.loop.time() - PINHOLE:
            return  # no pinhole for this remote endpoint: the NAT drops it
        rx.datagram_received(data, src)


async def main(loop):
    net = Net(loop)
    a = net.add(constants.generate_id(1), '1.2.3.4')
    c = net.add(constants.generate_id(3), '1.2.3.6')
    n = net.add(constants.generate_id(2), '5.6.7.8', nat=True)
    peer = lambda p: make_kademlia_peer(p.node_id, p.external_ip, p.udp_port)
    # the NAT-ed node looks something up at A (one request, as in any iterative search)
    await n.get_rpc_peer(peer(a)).find_node(constants.generate_id(99))
    # control: a reachable newcomer does the same (the commit's purpose: it is admitted at once - and must stay in)
    pub = net.add(constants.generate_id(4), '1.2.3.7')
    await pub.get_rpc_peer(peer(a)).find_node(constants.generate_id(99))
    await asyncio.sleep(3)
    print(f"t={loop.time():.0f}s  reachable newcomer in A's routing table: {a.routing_table.get_peer(pub.node_id) is not None}"
          f", N: {a.routing_table.get_peer(n.node_id) is not None}")
    await asyncio.sleep(400)   # > MAYBE_PING_DELAY + RPC_TIMEOUT
    if a.routing_table.get_peer(pub.node_id) is None:
        print("the reachable newcomer is NOT in A's routing table any more")
        return 1
    in_table = a.routing_table.get_peer(n.node_id) is not None
    print(f"t={loop.time():.0f}s  N (behind NAT, unreachable unsolicited) in A's routing table: {in_table}")
    handed_out = [t for t in await c.get_rpc_peer(peer(a)).find_node(n.node_id) if t[0] == n.node_id]
    print(f"A hands N to C in a findNode reply: {bool(handed_out)}")
    reachable = None
    if handed_out:
        try:
            await c.get_rpc_peer(make_kademlia_peer(*handed_out[0])).ping()
            reachable = True
        except asyncio.TimeoutError:
            reachable = False
        print(f"C can reach N: {reachable}")
    for p in net.nodes.values():
        p.ping_queue.stop()
        p.stop()
    return 1 if (in_table or handed_out) and not reachable else 0


loop = SimLoop()
asyncio.set_event_loop(loop)
rc = loop.run_until_complete(main(loop))
print("REGRESSION: an unreachable node was admitted through its own pinhole" if rc else "ok")
sys.exit(rc)
