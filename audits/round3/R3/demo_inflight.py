"""
R2 (minor): a contact that keeps querying us but never answers is pinged again on every tick while the earlier pings
are still in flight.

enqueue_maybe_ping only de-duplicates against contacts still *waiting* in the queue; once a contact is popped and its
ping is in flight (RPC_TIMEOUT = 5 s) the next request re-enqueues it. With the old 300 s delay that meant one ping per
5 minutes; with delay 0 it means one ping per second until two timeouts have been booked: 6 pings in 6 s, up to 5 in
flight at once, repeated every CHECK_REFRESH_INTERVAL - each one taking a slot of the queue's one-ping-per-second
budget that the newcomers the commit wants verified "at once" are waiting for. Firewalled/NAT-ed nodes that query but
cannot answer are the common case in this network.

Real KademliaProtocol, virtual-time loop, transport that records what is sent (the silent contact answers nothing).
exit 1 = more than one ping in flight to the same contact, or more than 3 pings to it in the first minute.
"""
import asyncio, sys, logging
from lbry.dht import constants
from lbry.dht.peer import PeerManager
from lbry.dht.protocol.protocol import KademliaProtocol
from lbry.dht.serialization.datagram import RequestDatagram, decode_datagram

logging.disable(logging.CRITICAL)


class SimLoop(asyncio.SelectorEventLoop):
    def __init__(self):
        super().__init__()
        self._vt = 0.0

    def time(self):
        return self._vt

    def _run_once(self):
        if not self._ready and self._scheduled and self._scheduled[0]._when > self._vt:
            self._vt = self._scheduled[0]._when
        super()._run_once()


async def main(loop):
    pings = []

    class Transport(asyncio.DatagramTransport):
        def sendto(self, data, addr=None):
            message = decode_datagram(data)
            if isinstance(message, RequestDatagram) and message.method == b'ping':
                pings.append((loop.time(), addr))

        def is_closing(self):
            return False

        def close(self):
            pass

    a = KademliaProtocol(loop, PeerManager(loop), constants.generate_id(1), '1.2.3.4', 4444, 3333)
    a.connection_made(Transport())
    a.start()
    a.ping_queue.start()
    silent, newcomer = ('5.6.7.8', 4444), ('5.6.7.9', 4444)
    max_in_flight = 0
    for second in range(60):
        a.datagram_received(
            RequestDatagram.make_find_node(constants.generate_id(2), constants.generate_id(99)).bencode(), silent
        )
        await asyncio.sleep(1)
        in_flight = sum(1 for peer, _, request in a.sent_messages.values()
                        if request.method == b'ping' and (peer.address, peer.udp_port) == silent)
        max_in_flight = max(max_in_flight, in_flight)
    to_silent = [round(t, 1) for t, addr in pings if addr == silent]
    print(f"pings to the silent contact in 60 s: {len(to_silent)} at {to_silent}; most in flight at once: {max_in_flight}")
    a.ping_queue.stop()
    a.stop()
    return 1 if max_in_flight > 1 or len(to_silent) > 3 else 0


loop = SimLoop()
asyncio.set_event_loop(loop)
rc = loop.run_until_complete(main(loop))
print("REGRESSION: the same silent contact is pinged over and over while its pings are in flight" if rc else "ok")
sys.exit(rc)
