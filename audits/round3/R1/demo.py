"""
R1 - regression of d2fbc26 (jsonrpc_txo_spend reserves every chosen output up front).

The up-front `await self.ledger.reserve_outputs(txos)` sits BEFORE the try/finally that hands outputs back.
The wallet's writer thread commits a reservation even when the awaiting task is cancelled meanwhile (that is what
Ledger.get_spendable_utxos and Transaction.create already guard against: "a cancelled build must hand its inputs
back as well").  A txo_spend that is cancelled while that write is in flight (client gone, daemon stopping) therefore
leaves EVERY output it listed reserved: no build can fund itself from the wallet until the next restart.
Before d2fbc26 nothing was reserved outside Transaction.create's own try/except, so a cancelled txo_spend
left nothing behind.

Drives the real Daemon.jsonrpc_txo_spend / Ledger / Database of /tmp/review3 (file-backed wallet db in a temp dir).
exit 1: outputs are left reserved after the cancelled call;  exit 0: none are.
"""
import sys
import types
import asyncio
import os
import shutil
import tempfile
from itertools import cycle
from unittest import mock

for _name, _attrs in (('aioupnp', {'__version__': '0'}), ('aioupnp.upnp', {'UPnP': mock.MagicMock()}),
                      ('aioupnp.fault', {'UPnPError': type('UPnPError', (Exception,), {})}),
                      ('distro', {'info': lambda: {}})):
    _m = types.ModuleType(_name)
    _m.__dict__.update(_attrs)
    sys.modules.setdefault(_name, _m)
sys.modules.setdefault('libtorrent', mock.MagicMock())

import lbry.wallet  # noqa: E402  (before lbry.conf)
from lbry.wallet import Wallet, Account, Ledger, Database, Headers, Transaction, Output, Input  # noqa: E402
from lbry.wallet.constants import COIN  # noqa: E402
from lbry.extras.daemon.daemon import Daemon  # noqa: E402


async def main() -> int:
    wallet_dir = tempfile.mkdtemp(prefix='r1-demo-')
    ledger = Ledger({'db': Database(os.path.join(wallet_dir, 'blockchain.db')), 'headers': Headers(':memory:')})
    await ledger.db.open()
    try:
        wallet = Wallet()
        account = Account.from_dict(ledger, wallet, {
            "seed": "carbon smart garage balance margin twelve chest sword toast envelope bottom stomach absent"
        })
        addresses = await account.ensure_address_gap()
        hashes = cycle(ledger.address_to_hash160(a) for a in addresses)

        def txo(amount):
            return Transaction(height=-2).add_outputs([Output.pay_pubkey_hash(int(amount * COIN), next(hashes))]) \
                .outputs[0]

        utxos = [txo(1) for _ in range(4)]
        funding = Transaction(is_verified=True).add_inputs([Input.spend(txo(4.1))]).add_outputs(utxos)
        await ledger.db.insert_transaction(funding)
        for utxo in utxos:
            await ledger.db.save_transaction_io(
                funding, ledger.hash160_to_address(utxo.script.values['pubkey_hash']),
                utxo.script.values['pubkey_hash'], ''
            )

        async def reserved_count():
            return (await ledger.db.db.execute_fetchall("select count(*) as n from txo where is_reserved"))[0]['n']

        assert await reserved_count() == 0

        # the daemon object is only used for these attributes by jsonrpc_txo_spend
        class DaemonStub:
            _constrain_txo_from_kwargs = staticmethod(Daemon._constrain_txo_from_kwargs)
            wallet_manager = types.SimpleNamespace(get_wallet_or_default=lambda wallet_id: wallet)

            async def broadcast_or_release(self, tx, blocking=False):
                raise AssertionError("not reached: the call is cancelled before anything is built")
        stub = DaemonStub()
        stub.ledger = ledger

        # the cancellation arrives while the reservation write is awaited; the writer thread has committed it
        real_reserve, committed, armed = ledger.reserve_outputs, asyncio.Event(), [True]

        async def reserve_outputs(txos):
            txos = list(txos)
            await real_reserve(txos)
            if armed[0]:
                armed[0] = False
                committed.set()
                for _ in range(3):  # the CancelledError is delivered at this await, i.e. "inside" reserve_outputs
                    await asyncio.sleep(0)
        ledger.reserve_outputs = reserve_outputs

        spend = Daemon.jsonrpc_txo_spend.__wrapped__  # without the @requires(component) wrapper
        task = asyncio.ensure_future(spend(stub, type='other'))
        await committed.wait()
        task.cancel()
        try:
            await task
            print("unexpected: the call was not cancelled")
            return 2
        except asyncio.CancelledError:
            pass

        left = await reserved_count()
        print(f"outputs still reserved after the cancelled txo_spend: {left} of {len(utxos)}")
        if left:
            # what it costs: the wallet cannot fund anything any more
            ledger.reserve_outputs = real_reserve
            try:
                await Transaction.pay(COIN // 2, addresses[0], [account], account)
                print("a payment could still be funded")
            except Exception as err:  # pylint: disable=broad-except
                print(f"a payment of 0.5 from a wallet holding 4.0 now fails: {type(err).__name__}")
            return 1
        return 0
    finally:
        await ledger.db.close()
        shutil.rmtree(wallet_dir, ignore_errors=True)


if __name__ == '__main__':
    import logging
    logging.disable(logging.CRITICAL)
    sys.exit(asyncio.run(main()))
