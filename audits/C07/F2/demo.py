"""
C07 finding F2 - Headers.close() writes the in-memory chain over the existing file ('r+b') and never shortens the
file.  connect() of a fork that ends below the old tip shortens the chain in memory (fix 149459b), but the headers of
the abandoned branch stay in the FILE behind the new tip.  After a perfectly clean restart (no crash, no damage) the
file is the new chain followed by stale headers of the old branch:

  * on a network without checkpoints (TestNetLedger / RegTestLedger configuration, shown here) the aligned file is
    not scanned (see F1) and a chain that does not link at the old fork point is loaded and served;
  * where the scan does run (checkpointed networks, or F1 fixed) it takes the first stale header for corruption and
    also drops the valid new tip in front of it - the loaded chain is still not the chain that was stored.

Circumstance forced by the harness: none beyond the inputs.  The server supplies main-net headers 0..19, the wallet
is closed and started again, the server then supplies a one-header batch connecting at height 10 (a competing
header 10 on top of main-net header 9, mined for this demo to meet every rule: link, retargeted bits, proof of work),
the wallet is closed and started again.  Nothing of the product is replaced or patched.
"""
import warnings
warnings.filterwarnings('ignore')
import asyncio, hashlib, logging, os, shutil, struct, sys, tempfile
import lbry.wallet                                   # must be imported before lbry.conf
from lbry.wallet.header import Headers

logging.disable(logging.CRITICAL)

# ---------------------------------------------------------------------------------------------------------------
# independent reference implementation of the LBRY header rules (exact integer arithmetic, after lbrycrd's
# lbry.cpp CalculateLbryNextWorkRequired / pow.cpp CheckProofOfWork / arith_uint256 SetCompact+GetCompact)
# ---------------------------------------------------------------------------------------------------------------
def dsha(b): return hashlib.sha256(hashlib.sha256(b).digest()).digest()
def rip(b): return hashlib.new('ripemd160', b).digest()
def pow_int(raw):
    h = hashlib.sha512(dsha(raw)).digest()
    return int.from_bytes(dsha(rip(h[:32]) + rip(h[32:])), 'little')
def from_compact(c):
    size, word = c >> 24, c & 0x007fffff
    return word >> 8 * (3 - size) if size <= 3 else word << 8 * (size - 3)
def to_compact(v):
    size = (v.bit_length() + 7) // 8
    c = v << 8 * (3 - size) if size <= 3 else v >> 8 * (size - 3)
    if c & 0x00800000:
        c >>= 8
        size += 1
    return c | size << 24
def cdiv(a, b):                                      # C++ integer division truncates toward zero
    q = abs(a) // abs(b)
    return q if (a >= 0) == (b > 0) else -q
def next_target(max_target, prevprev_ts, prev_ts, prev_bits, span=150):
    mod = span + cdiv((prev_ts - prevprev_ts) - span, 8)
    mod = max(span - span // 8, min(mod, span + span // 2))
    return min(max_target, (from_compact(prev_bits) * mod) % 2 ** 256 // span)
def fields(raw):
    ts, bits, nonce = struct.unpack('<III', raw[100:112])
    return dict(prev=raw[4:36], ts=ts, bits=bits, nonce=nonce)
def split(image): return [image[i:i + 112] for i in range(0, len(image) - len(image) % 112, 112)]
def first_invalid(image, max_target, genesis_hash_hex):
    """None if image is a linked, correctly retargeted, proof-of-work chain from genesis, else (height, reason)"""
    hs = split(image)
    for i, h in enumerate(hs):
        if i == 0:
            if dsha(h)[::-1].hex() != genesis_hash_hex:
                return 0, 'is not the genesis header'
            continue
        f, p = fields(h), fields(hs[i - 1])
        pp = fields(hs[i - 2]) if i > 1 else p
        if f['prev'] != dsha(hs[i - 1]):
            return i, 'does not link to the header stored at height %d' % (i - 1)
        target = next_target(max_target, pp['ts'], p['ts'], p['bits'])
        if f['bits'] != to_compact(target):
            return i, 'bits %08x, the retarget rule demands %08x' % (f['bits'], to_compact(target))
        if pow_int(h) > from_compact(f['bits']):
            return i, 'proof-of-work hash is above the target its bits encode'
    return None

GENESIS = '9c89283ba0f3227f6c03b70216b9f665f0118d5e0fa729cedf4fb34d6a34f463'
MAX_TARGET = Headers.max_target
MAINNET20 = bytes.fromhex(                           # main-net headers 0..19 (public chain data)
    "010000000000000000000000000000000000000000000000000000000000000000000000cc59e59ff97ac092b55e423aa5495151ed6fb80570a5bb78cd5bd1c3821c21b8010000000000000000000000000000000000000000000000000000000000000033193156ffff001f07050000"
    "0000002063f4346a4db34fdfce29a70f5e8d11f065f6b91602b7036c7f22f3a03b28899cba888e2f9c037f831046f8ad09f6d378f79c728d003b177a64d29621f481da5d01000000000000000000000000000000000000000000000000000000000000003c406b5746e1001f5b4f0000"
    "00000020246cb85843ac936d55388f2ff288b011add5b1b20cca9cfd19a403ca2c9ecbde09d8734d81b5f2eb1b653caf17491544ddfbc72f2f4c0c3f22a3362db5ba9d4701000000000000000000000000000000000000000000000000000000000000003d406b57ffff001f4ff20000"
    "000000200044e1258b865d262587c28ff98853bc52bb31266230c1c648cc9004047a5428e285dbf24334585b9a924536a717160ee185a86d1eeb7b19684538685eca761a01000000000000000000000000000000000000000000000000000000000000003d406b5746e1001fce9c0100"
    "00000020bbf8980e3f7604896821203bf62f97f311124da1fbb95bf523fcfdb356ad19c9d83cf1408debbd631950b7a95b0c940772119cd8a615a3d44601568713fec80c01000000000000000000000000000000000000000000000000000000000000003e406b573dc6001fec7b0000"
    "000000201a650b9b7b9d132e257ff6b336ba7cd96b1796357c4fc8dd7d0bd1ff1de057d547638e54178dbdddf2e81a3b7566860e5264df6066755f9760a893f5caecc57901000000000000000000000000000000000000000000000000000000000000003e406b5773ae001fcf770000"
    "000000206d694b93a2bb5ac23a13ed6749a789ca751cf73d5982c459e0cd9d5d303da74cec91627e0dba856b933983425d7f72958e8f974682632a0fa2acee9cfd81940101000000000000000000000000000000000000000000000000000000000000003e406b578399001f225c0100"
    "00000020b57808c188b7315583cf120fe89de923583bc7a8ebff03189145b86bf859b21ba3c4a19948a1263722c45c5601fd10a7aea7cf73bfa45e060508f109155e80ab01000000000000000000000000000000000000000000000000000000000000003f406b571787001f08160700"
    "00000020a6a5b330e816242d54c8586ba9b6d63c19d921171ef3d4525b8ffc635742e83a0fc2da46cf0de0057c1b9fc93d997105ff6cf2c8c43269b446c1dbf5ac18be8c010000000000000000000000000000000000000000000000000000000000000040406b570ae1761edd8f0300"
    "00000020b8447f415279dffe8a09afe6f6d5e335a2f6911fce8e1d1866723d5e5e8a53067356a733f87e592ea133328792dd9d676ed83771c8ff0f519928ce752f159ba6010000000000000000000000000000000000000000000000000000000000000040406b57139d681ed40d0000"
    "00000020558daee5a4a55fe03d912e35c7b6b0bc19ece82fd5bcb685bc36f2bc381babfd54a598c4356ce620a604004929af14f4c03c42eba017288a4a1d186aedfdd8f4010000000000000000000000000000000000000000000000000000000000000041406b57580f5c1e3e280100"
    "000000200381bfc0b2f10c9a3c0fc2dc8ad06388aff8ea5a9f7dba6a945073b021796197364b79f33ff3f3a7ccb676fc0a37b7d831bd5942a05eac314658c6a7e4c4b1a4010000000000000000000000000000000000000000000000000000000000000041406b574303511ec0ae0100"
    "000000202aae02063ae0f1025e6acecd5e8e2305956ecaefd185bb47a64ea2ae953233891df3d4c1fc547ab3bbca027c8bbba744c051add8615d289b567f97c64929dcf2010000000000000000000000000000000000000000000000000000000000000042406b578c4a471e04ee0000"
    "0000002016603ef45d5a7c02bfbb30f422016746872ff37f8b0b5824a0f70caa668eea5415aad300e70f7d8755d93645d1fd21eda9c40c5d0ed797acd0e07ace34585aaf010000000000000000000000000000000000000000000000000000000000000042406b577bbc3e1ea1630000"
    "00000020cad8863b312914f2fd2aad6e9420b64859039effd67ac4681a7cf60e42b09b7e7bafa1e8d5131f477785d8338294da0f998844a85b39d2426e839b370e014e3b010000000000000000000000000000000000000000000000000000000000000042406b573935371e20e90000"
    "0000002053d5e608ce5a12eda5931f86ee81198fdd231fea64cf096e9aeae321cf2efbe241e888d5aaf495e4c2a9f11b932db979d7483aeb446f479179b0c0b8d24bfa0e010000000000000000000000000000000000000000000000000000000000000045406b573c95301e34af0a00"
    "00000020df0e494c02ff79e3929bc1f2491077ec4f6a607d7a1a5e1be96536642c98f86e533febd715f8a234028fd52046708551c6b6ac415480a6568aaa35cb94dc720301000000000000000000000000000000000000000000000000000000000000004f406b57c4c02a1ec54d2300"
    "00000020341f7d8e7d242e5e46343c40840c44f07e7e7306eb2355521b51502e8070e569485ba7eec4efdff0fc755af6e73e38b381a88b0925a68193a25da19d0f616e9f010000000000000000000000000000000000000000000000000000000000000050406b575be8251e1f610100"
    "00000020cd399f8078166ca5f0bdd1080ab1bb22d3c271b9729b6000b44f4592cc9fab08c00ebab1e7cd88677e3b77c1598c7ac58660567f49f3a30ec46a48a1ae7652fe010000000000000000000000000000000000000000000000000000000000000052406b57d55b211e6f530900"
    "00000020c6c14ed4a53bbb4f181acf2bbfd8b74d13826732f2114140ca99ca371f7dd87c51d18a05a1a6ffa37c041877fa33c2229a45a0ab66b5530f914200a8d6639a6f010000000000000000000000000000000000000000000000000000000000000055406b570d5b1d1eff1c0900"
)
# a competing header for height 10: links to main-net header 9, bits 1e5c0f58 as the retarget rule demands,
# nonce 1111471 found by a search over ~1.1M nonces so that its proof-of-work hash meets that target
FORK10 = bytes.fromhex(
    "00000020558daee5a4a55fe03d912e35c7b6b0bc19ece82fd5bcb685bc36f2bc381babfdf8179135c72dee78757799453e482f0901c6e512"
    "40845ec0bf1d98c752b441fa010000000000000000000000000000000000000000000000000000000000000047406b57580f5c1eaff51000"
)


def new_headers(path):
    headers = Headers(path)
    headers.checkpoints = {}                         # exactly what Ledger.__init__ does for TestNetLedger/RegTestLedger
    return headers


async def main():
    assert first_invalid(MAINNET20, MAX_TARGET, GENESIS) is None
    assert first_invalid(MAINNET20[:10 * 112] + FORK10, MAX_TARGET, GENESIS) is None, "fork header must be fully valid"
    tmp = tempfile.mkdtemp(prefix='c07f2')
    path = os.path.join(tmp, 'headers')
    try:
        headers = new_headers(path)                  # session 1: sync 20 headers
        await headers.open()
        assert await headers.connect(0, MAINNET20) == 20
        await headers.close()

        headers = new_headers(path)                  # session 2: the server's chain now has another header 10
        await headers.open()
        assert len(headers) == 20
        added = await headers.connect(10, FORK10)
        stored = headers._read(0, len(headers))
        assert added == 1 and len(headers) == 11 and first_invalid(stored, MAX_TARGET, GENESIS) is None
        await headers.close()                        # clean shutdown

        headers = new_headers(path)                  # session 3: clean start
        await headers.open()
        loaded = headers._read(0, len(headers))
        await headers.close()
    finally:
        shutil.rmtree(tmp, ignore_errors=True)

    bad = first_invalid(loaded, MAX_TARGET, GENESIS)
    if bad is not None:
        print(f"C07 VIOLATED - clean restart after a fork that ended below the old tip: chain stored at shutdown had "
              f"{len(stored) // 112} valid headers, the chain loaded has {len(loaded) // 112} and header {bad[0]} {bad[1]}")
        return 1
    if loaded != stored:
        print(f"C07 VIOLATED - clean restart (no crash, no damage) did not load the chain that was stored: "
              f"{len(stored) // 112} headers stored, {len(loaded) // 112} loaded")
        return 1
    print("ok: the chain loaded after the restart is the chain that was stored")
    return 0


if __name__ == '__main__':
    sys.exit(asyncio.run(main()))
