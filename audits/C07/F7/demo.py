"""
C07 finding F7 - Headers.connect() accepts a batch at ANY height, also inside the checkpointed range, and only
applies the chain rules to it.  Below the last checkpoint the rules are no protection: main net starts at minimum
difficulty, so a fork from genesis needs ~2^16 hashes per header and stays that cheap for as long as its timestamps
are spread out (three such headers took 3 seconds of Python for this demo).  Ledger.receive_header() hands the
height found in a server's `blockchain.headers.subscribe` notification straight to connect().  One pushed
notification {height: 0, hex: genesis + forged headers} therefore replaces the checkpointed chain: the batch is
rule-valid, is stored over chunk 0 and becomes the whole chain (connect() cuts everything behind it), although
chunk 0 no longer hashes to its built-in checkpoint.  Checkpoints are only enforced on the chunk download path
(fetch_chunk / get_all_missing_headers); connect() walks around them.

Part A - shipped main-net configuration (lbry.wallet.ledger.Ledger, Headers, the built-in HASHES), fresh wallet:
         after the push the wallet's chain is genesis + 3 forged headers instead of 1,243,000 checkpointed heights.
Part B - test network with the same rules (Headers with configuration attributes only), wallet completely synced
         and every checkpointed chunk verified: after the push the forged headers are what Headers.get() serves,
         has_header() is True, no chunk is tracked as missing, and further pushes extend the forged chain.

Circumstance forced by the harness: real Ledger / Headers code against a scripted server object in place of
lbry.wallet.network.Network; ledger.receive_header() is called directly because StreamController cannot run
coroutine listeners on this Python.  The server's input is a "fork connected at a lower height" whose headers
satisfy every chain rule (link, retargeted bits, proof of work).
"""
import warnings
warnings.filterwarnings('ignore')
import asyncio, base64, hashlib, logging, os, shutil, struct, sys, tempfile, zlib
import lbry.wallet                                   # must be imported before lbry.conf
from lbry.wallet.header import Headers

logging.disable(logging.CRITICAL)

# ---------------------------------------------------------------------------------------------------------------
# independent reference implementation of the LBRY header rules (exact integer arithmetic, after lbrycrd's
# lbry.cpp CalculateLbryNextWorkRequired / pow.cpp CheckProofOfWork / arith_uint256 SetCompact+GetCompact)
# ---------------------------------------------------------------------------------------------------------------
def dsha(b): return hashlib.sha256(hashlib.sha256(b).digest()).digest()
def rip(b): return hashlib.new('ripemd160', b).digest()
def pow_int(raw):
    h = hashlib.sha512(dsha(raw)).digest()
    return int.from_bytes(dsha(rip(h[:32]) + rip(h[32:])), 'little')
def from_compact(c):
    size, word = c >> 24, c & 0x007fffff
    return word >> 8 * (3 - size) if size <= 3 else word << 8 * (size - 3)
def to_compact(v):
    size = (v.bit_length() + 7) // 8
    c = v << 8 * (3 - size) if size <= 3 else v >> 8 * (size - 3)
    if c & 0x00800000:
        c >>= 8
        size += 1
    return c | size << 24
def cdiv(a, b):                                      # C++ integer division truncates toward zero
    q = abs(a) // abs(b)
    return q if (a >= 0) == (b > 0) else -q
def next_target(max_target, prevprev_ts, prev_ts, prev_bits, span=150):
    mod = span + cdiv((prev_ts - prevprev_ts) - span, 8)
    mod = max(span - span // 8, min(mod, span + span // 2))
    return min(max_target, (from_compact(prev_bits) * mod) % 2 ** 256 // span)
def fields(raw):
    ts, bits, nonce = struct.unpack('<III', raw[100:112])
    return dict(prev=raw[4:36], ts=ts, bits=bits, nonce=nonce)
def split(image): return [image[i:i + 112] for i in range(0, len(image) - len(image) % 112, 112)]
def first_invalid(image, max_target, genesis_hash_hex):
    """None if image is a linked, correctly retargeted, proof-of-work chain from genesis, else (height, reason)"""
    hs = split(image)
    for i, h in enumerate(hs):
        if i == 0:
            if dsha(h)[::-1].hex() != genesis_hash_hex:
                return 0, 'is not the genesis header'
            continue
        f, p = fields(h), fields(hs[i - 1])
        pp = fields(hs[i - 2]) if i > 1 else p
        if f['prev'] != dsha(hs[i - 1]):
            return i, 'does not link to the header stored at height %d' % (i - 1)
        target = next_target(max_target, pp['ts'], p['ts'], p['bits'])
        if f['bits'] != to_compact(target):
            return i, 'bits %08x, the retarget rule demands %08x' % (f['bits'], to_compact(target))
        if pow_int(h) > from_compact(f['bits']):
            return i, 'proof-of-work hash is above the target its bits encode'
    return None

# ---------------------------------------------------------------------------------------------------------------
# a small test network: the same rules at a difficulty a demo can mine.  Only configuration attributes of Headers
# are set (what Ledger subclasses / UnvalidatedHeaders do for testnet, regtest, simnet), no method is replaced.
# ---------------------------------------------------------------------------------------------------------------
SIM_MAX_TARGET = 2 ** 248 - 1                        # ~256 hashes per header


def mine(prev, prevprev, height, spacing=150, tag=b'', first_nonce=0):
    if prev is None:
        bits, prev_hash, ts = to_compact(SIM_MAX_TARGET), bytes(32), 1600000000
    else:
        p, pp = fields(prev), fields(prevprev if prevprev else prev)
        bits = to_compact(next_target(SIM_MAX_TARGET, pp['ts'], p['ts'], p['bits']))
        prev_hash, ts = dsha(prev), p['ts'] + spacing
    base = (struct.pack('<I', 1) + prev_hash + hashlib.sha256(b'tx of %d' % height + tag).digest() +
            bytes(31) + b'\1' + struct.pack('<II', ts, bits))
    for nonce in range(first_nonce, 2 ** 32):           # first_nonce is only a hint that shortens the search
        raw = base + struct.pack('<I', nonce)
        if height == 0 or pow_int(raw) <= from_compact(bits):
            return raw


def build_chain(count, hints=()):
    chain = []
    for height in range(count):
        chain.append(mine(chain[-1] if chain else None, chain[-2] if len(chain) > 1 else None, height,
                          first_nonce=hints[height] if height < len(hints) else 0))
    return chain

from lbry.wallet.ledger import Ledger
from lbry.wallet.database import Database

MAINNET_GENESIS = bytes.fromhex(
    "010000000000000000000000000000000000000000000000000000000000000000000000cc59e59ff97ac092b55e423aa5495151ed6fb805"
    "70a5bb78cd5bd1c3821c21b8010000000000000000000000000000000000000000000000000000000000000033193156ffff001f07050000")
# three headers on top of the main-net genesis block, 1000 s apart, mined for this demo at main-net rules
# (bits 1f00e146, 1f00ffff, 1f00ffff as the retarget rule demands; nonces 167753, 30376, 104676)
MAINNET_FORGED = bytes.fromhex(
    "0000002063f4346a4db34fdfce29a70f5e8d11f065f6b91602b7036c7f22f3a03b28899cef2bc428b42f57186b6feb1dd397bf6e5dfc1c9c"
    "2d6b457c085722f54f8373f500000000000000000000000000000000000000000000000000000000000000011b1d315646e1001f498f0200"
    "0000002004e55995c8cf9b512e1601c2e720216227c0c2c2eb67c56683a345cffdd237c4e29338e083a6934e45e52dcff4d95fa70eaf6664"
    "1a56232ef41527e401d0d2f2000000000000000000000000000000000000000000000000000000000000000103213156ffff001fa8760000"
    "00000020172bc7e585ec5b213a4d2ccef325f49552c45afde7b8397b7385d1c5c826413d58cce8d5939fd7fddec73c3cc62db52db6b57acc"
    "1566a99575b5fae6a9b6e0680000000000000000000000000000000000000000000000000000000000000001eb243156ffff001fe4980100")


class Stream:
    def listen(self, *_args, **_kwargs):
        pass


class ScriptedServer:
    """stands in for lbry.wallet.network.Network; answers requests truthfully from `chain`"""

    def __init__(self, chain=()):
        self.chain = chain
        self.on_header, self.on_status, self.on_connected = Stream(), Stream(), Stream()

    async def retriable_call(self, function, *args, **kwargs):
        return await function(*args, **kwargs)

    async def get_headers(self, height, count=10000, b64=False):   # blockchain.block.headers
        await asyncio.sleep(0)
        data = b''.join(self.chain[height:height + count])
        if b64:
            deflate = zlib.compressobj(wbits=-15)
            packed = deflate.compress(data) + deflate.flush()
            return {'base64': base64.b64encode(packed).decode(), 'count': len(data) // 112}
        return {'hex': data.hex(), 'count': len(data) // 112}


async def part_a(tmp, problems):
    genesis = '9c89283ba0f3227f6c03b70216b9f665f0118d5e0fa729cedf4fb34d6a34f463'
    batch = MAINNET_GENESIS + MAINNET_FORGED
    assert first_invalid(batch, Headers.max_target, genesis) is None     # rule-valid: that is the point
    ledger = Ledger({'data_path': tmp, 'db': Database(':memory:'), 'network': ScriptedServer(),
                     'headers': Headers(os.path.join(tmp, 'mainnet_headers'))})
    headers = ledger.headers
    await headers.open()                              # fresh wallet: placeholders for the 1243 checkpointed chunks
    before = len(headers)
    assert before == max(headers.checkpoints) + 1000 == 1243000
    try:
        await ledger.receive_header([{'height': 0, 'hex': batch.hex()}])
        outcome = 'returned normally'
    except Exception as error:
        outcome = f'raised {type(error).__name__}'
    stored = headers._read(0, 4)
    if stored[112:] == MAINNET_FORGED:
        problems.append(
            f"A (main net): receive_header {outcome}; the chain went from {before} to {len(headers)} headers and "
            f"headers 1..3 are the pushed ones; chunk 0 would have to hash to {headers.checkpoints[0][:16]}..")
    headers.io.close()


async def part_b(tmp, problems):
    chain = build_chain(2010)
    genesis = dsha(chain[0])[::-1].hex()
    fork = chain[:1]                                  # a second rule-valid chain from the same genesis block
    for height in range(1, 6):
        fork.append(mine(fork[-1], fork[-2] if len(fork) > 1 else None, height, tag=b'fork'))
    assert first_invalid(b''.join(chain), SIM_MAX_TARGET, genesis) is None
    assert first_invalid(b''.join(fork), SIM_MAX_TARGET, genesis) is None and fork[1] != chain[1]

    class SimHeaders(Headers):
        max_target = SIM_MAX_TARGET
        genesis_hash = genesis.encode()

    class SimLedger(Ledger):
        network_name = 'simnet'
        headers_class = SimHeaders
        checkpoints = {start: dsha(b''.join(chain[start:start + 1000]))[::-1].hex() for start in (0, 1000)}

    ledger = SimLedger({'data_path': tmp, 'db': Database(':memory:'), 'network': ScriptedServer(chain),
                        'headers': SimHeaders(os.path.join(tmp, 'sim_headers'))})
    headers = ledger.headers
    await headers.open()
    async with ledger._header_processing_lock:        # the header part of Ledger.start(), verbatim
        await ledger._update_tasks.add(ledger.initial_headers_sync())
    await ledger._other_tasks.done.wait()             # back-fill finished
    assert len(headers) == 2010 and headers.known_missing_checkpointed_chunks == set()
    assert headers._read(0, 2010) == b''.join(chain)

    outcomes = []
    for start, stop in ((0, 4), (4, 6)):              # the fork arrives in two pushes ("all splits of a batch")
        try:
            await ledger.receive_header([{'height': start, 'hex': b''.join(fork[start:stop]).hex()}])
            outcomes.append('returned normally')
        except Exception as error:
            outcomes.append(f'raised {type(error).__name__}')
    served = [await headers.get_raw_header(height) for height in range(min(6, len(headers)))]
    if served[1:] == fork[1:]:
        chunk_hash = headers.chunk_hash(0, 1000)
        problems.append(
            f"B (synced wallet): receive_header {' / '.join(outcomes)}; the chain went from 2010 to {len(headers)} "
            f"headers, get() serves the pushed headers for heights 1..5, has_header(1) is {headers.has_header(1)}, "
            f"chunks tracked as missing: {sorted(headers.known_missing_checkpointed_chunks)}, chunk 0 hashes to "
            f"{chunk_hash[:16]}.. instead of its checkpoint {headers.checkpoints[0][:16]}..")
    headers.io.close()


async def main():
    problems = []
    tmp = tempfile.mkdtemp(prefix='c07f7')
    try:
        await part_a(tmp, problems)
        await part_b(tmp, problems)
    finally:
        shutil.rmtree(tmp, ignore_errors=True)
    if problems:
        print("C07 VIOLATED - headers inside the checkpointed range were accepted from a batch, without hashing to "
              "the checkpoint:")
        for problem in problems:
            print("  *", problem)
        return 1
    print("ok: the pushed forks were refused, the checkpointed headers are untouched")
    return 0


if __name__ == '__main__':
    sys.exit(asyncio.run(main()))
