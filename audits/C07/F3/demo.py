"""
C07 finding F3 - Headers.repair() (run by open()) only checks that every header's previous-block-hash field matches
the hash of the header stored before it.  Damage to a header is therefore only ever noticed through its SUCCESSOR.
The last stored header has no successor: when it is damaged anywhere but in its previous-hash field (a torn/unflushed
tail of the file that zeroes the end of the last header, a flipped nonce/merkle/bits byte) it passes the repair and
is loaded and served as the chain tip although it is not the header that was stored, has no proof of work and/or
the wrong bits.  When the last header is the first one above the checkpoints, even its previous hash is not checked.

Circumstance forced by the harness (inside the QUANTIFIER: "all positions above the last checkpointed chunk at which
a stored header is overwritten before reopening" - here: the last position): a checkpointed test network (one
checkpointed chunk of 1000 headers) syncs 1010 (resp. 1001) fully valid headers and is closed; the LAST header of the
file is overwritten in place; the file is reopened.  Nothing of the product is replaced or patched; only
configuration attributes (max_target, genesis_hash, checkpoints) are set, as every Ledger subclass does.
"""
import warnings
warnings.filterwarnings('ignore')
import asyncio, base64, hashlib, logging, os, shutil, struct, sys, tempfile, zlib
import lbry.wallet                                   # must be imported before lbry.conf
from lbry.wallet.header import Headers

logging.disable(logging.CRITICAL)

# ---------------------------------------------------------------------------------------------------------------
# independent reference implementation of the LBRY header rules (exact integer arithmetic, after lbrycrd's
# lbry.cpp CalculateLbryNextWorkRequired / pow.cpp CheckProofOfWork / arith_uint256 SetCompact+GetCompact)
# ---------------------------------------------------------------------------------------------------------------
def dsha(b): return hashlib.sha256(hashlib.sha256(b).digest()).digest()
def rip(b): return hashlib.new('ripemd160', b).digest()
def pow_int(raw):
    h = hashlib.sha512(dsha(raw)).digest()
    return int.from_bytes(dsha(rip(h[:32]) + rip(h[32:])), 'little')
def from_compact(c):
    size, word = c >> 24, c & 0x007fffff
    return word >> 8 * (3 - size) if size <= 3 else word << 8 * (size - 3)
def to_compact(v):
    size = (v.bit_length() + 7) // 8
    c = v << 8 * (3 - size) if size <= 3 else v >> 8 * (size - 3)
    if c & 0x00800000:
        c >>= 8
        size += 1
    return c | size << 24
def cdiv(a, b):                                      # C++ integer division truncates toward zero
    q = abs(a) // abs(b)
    return q if (a >= 0) == (b > 0) else -q
def next_target(max_target, prevprev_ts, prev_ts, prev_bits, span=150):
    mod = span + cdiv((prev_ts - prevprev_ts) - span, 8)
    mod = max(span - span // 8, min(mod, span + span // 2))
    return min(max_target, (from_compact(prev_bits) * mod) % 2 ** 256 // span)
def fields(raw):
    ts, bits, nonce = struct.unpack('<III', raw[100:112])
    return dict(prev=raw[4:36], ts=ts, bits=bits, nonce=nonce)
def split(image): return [image[i:i + 112] for i in range(0, len(image) - len(image) % 112, 112)]
def first_invalid(image, max_target, genesis_hash_hex):
    """None if image is a linked, correctly retargeted, proof-of-work chain from genesis, else (height, reason)"""
    hs = split(image)
    for i, h in enumerate(hs):
        if i == 0:
            if dsha(h)[::-1].hex() != genesis_hash_hex:
                return 0, 'is not the genesis header'
            continue
        f, p = fields(h), fields(hs[i - 1])
        pp = fields(hs[i - 2]) if i > 1 else p
        if f['prev'] != dsha(hs[i - 1]):
            return i, 'does not link to the header stored at height %d' % (i - 1)
        target = next_target(max_target, pp['ts'], p['ts'], p['bits'])
        if f['bits'] != to_compact(target):
            return i, 'bits %08x, the retarget rule demands %08x' % (f['bits'], to_compact(target))
        if pow_int(h) > from_compact(f['bits']):
            return i, 'proof-of-work hash is above the target its bits encode'
    return None

# ---------------------------------------------------------------------------------------------------------------
# a small test network: the same rules at a difficulty a demo can mine.  Only configuration attributes of Headers
# are set (what Ledger subclasses / UnvalidatedHeaders do for testnet, regtest, simnet), no method is replaced.
# ---------------------------------------------------------------------------------------------------------------
SIM_MAX_TARGET = 2 ** 248 - 1                        # ~256 hashes per header


def mine(prev, prevprev, height, spacing=150, tag=b'', first_nonce=0):
    if prev is None:
        bits, prev_hash, ts = to_compact(SIM_MAX_TARGET), bytes(32), 1600000000
    else:
        p, pp = fields(prev), fields(prevprev if prevprev else prev)
        bits = to_compact(next_target(SIM_MAX_TARGET, pp['ts'], p['ts'], p['bits']))
        prev_hash, ts = dsha(prev), p['ts'] + spacing
    base = (struct.pack('<I', 1) + prev_hash + hashlib.sha256(b'tx of %d' % height + tag).digest() +
            bytes(31) + b'\1' + struct.pack('<II', ts, bits))
    for nonce in range(first_nonce, 2 ** 32):           # first_nonce is only a hint that shortens the search
        raw = base + struct.pack('<I', nonce)
        if height == 0 or pow_int(raw) <= from_compact(bits):
            return raw


def build_chain(count, hints=()):
    chain = []
    for height in range(count):
        chain.append(mine(chain[-1] if chain else None, chain[-2] if len(chain) > 1 else None, height,
                          first_nonce=hints[height] if height < len(hints) else 0))
    return chain


async def main():
    chain = build_chain(1010)
    genesis = dsha(chain[0])[::-1].hex()
    assert first_invalid(b''.join(chain), SIM_MAX_TARGET, genesis) is None

    class SimHeaders(Headers):
        max_target = SIM_MAX_TARGET
        genesis_hash = genesis.encode()
        checkpoints = {0: dsha(b''.join(chain[:1000]))[::-1].hex()}

    async def honest_server_chunk(start):               # blockchain.block.headers(start, 1000, b64=True)
        deflate = zlib.compressobj(wbits=-15)
        data = deflate.compress(b''.join(chain[start:start + 1000])) + deflate.flush()
        return {'base64': base64.b64encode(data).decode(), 'count': 1000}

    tmp = tempfile.mkdtemp(prefix='c07f3')
    path = os.path.join(tmp, 'headers')
    failures = []
    try:
        damages = [
            (1010, 'nonce, one bit flipped', lambda raw, o: raw.__setitem__(o + 108, raw[o + 108] ^ 1)),
            (1010, 'last 40 bytes of the file zeroed (unflushed tail)', lambda raw, o: raw.__setitem__(slice(o + 72, o + 112), bytes(40))),
            (1010, 'merkle root, one byte', lambda raw, o: raw.__setitem__(o + 40, raw[o + 40] ^ 0xff)),
            (1010, 'bits replaced by the easiest target', lambda raw, o: raw.__setitem__(slice(o + 104, o + 108), struct.pack('<I', 0x2000ffff))),
            (1001, 'whole header replaced by garbage', lambda raw, o: raw.__setitem__(slice(o, o + 112), bytes(range(1, 113)))),
        ]
        for count, what, damage in damages:
            if os.path.exists(path):
                os.remove(path)
            headers = SimHeaders(path)
            await headers.open()
            headers.chunk_getter = honest_server_chunk   # as Ledger.initial_headers_sync() sets network.get_headers
            # connecting above the checkpoints fetches the checkpointed chunk on demand and verifies it
            assert await headers.connect(1000, b''.join(chain[1000:count])) == count - 1000
            assert headers.known_missing_checkpointed_chunks == set()
            await headers.close()
            with open(path, 'rb') as f:
                stored = f.read()
            assert stored == b''.join(chain[:count])

            image = bytearray(stored)
            damage(image, (count - 1) * 112)
            with open(path, 'wb') as f:
                f.write(image)
            headers = SimHeaders(path)
            await headers.open()
            assert headers.known_missing_checkpointed_chunks == set()
            loaded = headers._read(0, len(headers))
            await headers.close()
            bad = first_invalid(loaded, SIM_MAX_TARGET, genesis)
            if bad is not None:
                failures.append(f"{count} headers stored, last one (height {count - 1}) overwritten ({what}): "
                                f"{len(headers)} headers loaded, header {bad[0]} {bad[1]}")
            elif not stored.startswith(loaded) or len(loaded) // 112 < count - 2:
                failures.append(f"{count} headers stored, last one overwritten ({what}): {len(loaded) // 112} loaded, "
                                f"not the stored chain minus the headers from {count - 2} on")
    finally:
        shutil.rmtree(tmp, ignore_errors=True)
    if failures:
        print("C07 VIOLATED - a damaged last header survives the repair on open and becomes the chain tip:")
        for failure in failures:
            print("  *", failure)
        return 1
    print("ok: every damaged file was loaded as a valid prefix of the stored chain")
    return 0


if __name__ == '__main__':
    sys.exit(asyncio.run(main()))
