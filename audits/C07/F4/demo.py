"""
C07 finding F4 - Headers.connect() now cuts the chain at the end of every batch it stores (fix 149459b).  It does so
also when the batch ends INSIDE the checkpointed range, where the file is not a plain chain but a set of
independently fetched chunks tracked by known_missing_checkpointed_chunks.  The cut removes checkpoint-verified chunks
without marking them missing again, and the next checkpointed chunk that is fetched (Ledger.initial_headers_sync
back-fills them in the background, any Headers.get() fetches on demand) is written past the new end, so the gap is
filled with zero bytes.  From then on has_header() reports those heights as present, get()/get_raw_header() serve
all-zero "headers" for them, and the header sync carries on connecting batches on top: the local chain from genesis
to the end of the last connected batch contains headers that do not link, have bits 0 and no proof of work, and that
never hashed to the checkpoint of their chunk.  (Until the next restart; merkle proofs for those heights are checked
against a zero merkle root.)

All it takes is a server that, while the wallet is still back-filling checkpointed chunks, sends one
`blockchain.headers.subscribe` notification carrying an OLD, perfectly valid header of the real chain together with
its real height (Ledger.receive_header passes the server's height to connect()).  No proof of work is needed.

Circumstance forced by the harness: the real Ledger / Headers code runs against a scripted server object that
replaces lbry.wallet.network.Network (the OUTSIDE).  The server answers every request truthfully from one valid
chain; it delays its first reply until it has pushed the notification (a server may push at any time), so that
receive_header() queues for Ledger._header_processing_lock behind the already queued back-fill task - the order in
which asyncio.Lock serves them is the product's own.  Test network = Headers with configuration attributes only
(max_target, genesis_hash, three checkpointed chunks), as every Ledger subclass sets them.
"""
import warnings
warnings.filterwarnings('ignore')
import array, asyncio, base64, hashlib, logging, os, shutil, struct, sys, tempfile, zlib
import lbry.wallet                                   # must be imported before lbry.conf
from lbry.wallet.header import Headers

logging.disable(logging.CRITICAL)

# ---------------------------------------------------------------------------------------------------------------
# independent reference implementation of the LBRY header rules (exact integer arithmetic, after lbrycrd's
# lbry.cpp CalculateLbryNextWorkRequired / pow.cpp CheckProofOfWork / arith_uint256 SetCompact+GetCompact)
# ---------------------------------------------------------------------------------------------------------------
def dsha(b): return hashlib.sha256(hashlib.sha256(b).digest()).digest()
def rip(b): return hashlib.new('ripemd160', b).digest()
def pow_int(raw):
    h = hashlib.sha512(dsha(raw)).digest()
    return int.from_bytes(dsha(rip(h[:32]) + rip(h[32:])), 'little')
def from_compact(c):
    size, word = c >> 24, c & 0x007fffff
    return word >> 8 * (3 - size) if size <= 3 else word << 8 * (size - 3)
def to_compact(v):
    size = (v.bit_length() + 7) // 8
    c = v << 8 * (3 - size) if size <= 3 else v >> 8 * (size - 3)
    if c & 0x00800000:
        c >>= 8
        size += 1
    return c | size << 24
def cdiv(a, b):                                      # C++ integer division truncates toward zero
    q = abs(a) // abs(b)
    return q if (a >= 0) == (b > 0) else -q
def next_target(max_target, prevprev_ts, prev_ts, prev_bits, span=150):
    mod = span + cdiv((prev_ts - prevprev_ts) - span, 8)
    mod = max(span - span // 8, min(mod, span + span // 2))
    return min(max_target, (from_compact(prev_bits) * mod) % 2 ** 256 // span)
def fields(raw):
    ts, bits, nonce = struct.unpack('<III', raw[100:112])
    return dict(prev=raw[4:36], ts=ts, bits=bits, nonce=nonce)
def split(image): return [image[i:i + 112] for i in range(0, len(image) - len(image) % 112, 112)]
def first_invalid(image, max_target, genesis_hash_hex):
    """None if image is a linked, correctly retargeted, proof-of-work chain from genesis, else (height, reason)"""
    hs = split(image)
    for i, h in enumerate(hs):
        if i == 0:
            if dsha(h)[::-1].hex() != genesis_hash_hex:
                return 0, 'is not the genesis header'
            continue
        f, p = fields(h), fields(hs[i - 1])
        pp = fields(hs[i - 2]) if i > 1 else p
        if f['prev'] != dsha(hs[i - 1]):
            return i, 'does not link to the header stored at height %d' % (i - 1)
        target = next_target(max_target, pp['ts'], p['ts'], p['bits'])
        if f['bits'] != to_compact(target):
            return i, 'bits %08x, the retarget rule demands %08x' % (f['bits'], to_compact(target))
        if pow_int(h) > from_compact(f['bits']):
            return i, 'proof-of-work hash is above the target its bits encode'
    return None

# ---------------------------------------------------------------------------------------------------------------
# a small test network: the same rules at a difficulty a demo can mine.  Only configuration attributes of Headers
# are set (what Ledger subclasses / UnvalidatedHeaders do for testnet, regtest, simnet), no method is replaced.
# ---------------------------------------------------------------------------------------------------------------
SIM_MAX_TARGET = 2 ** 248 - 1                        # ~256 hashes per header


def mine(prev, prevprev, height, spacing=150, tag=b'', first_nonce=0):
    if prev is None:
        bits, prev_hash, ts = to_compact(SIM_MAX_TARGET), bytes(32), 1600000000
    else:
        p, pp = fields(prev), fields(prevprev if prevprev else prev)
        bits = to_compact(next_target(SIM_MAX_TARGET, pp['ts'], p['ts'], p['bits']))
        prev_hash, ts = dsha(prev), p['ts'] + spacing
    base = (struct.pack('<I', 1) + prev_hash + hashlib.sha256(b'tx of %d' % height + tag).digest() +
            bytes(31) + b'\1' + struct.pack('<II', ts, bits))
    for nonce in range(first_nonce, 2 ** 32):           # first_nonce is only a hint that shortens the search
        raw = base + struct.pack('<I', nonce)
        if height == 0 or pow_int(raw) <= from_compact(bits):
            return raw


def build_chain(count, hints=()):
    chain = []
    for height in range(count):
        chain.append(mine(chain[-1] if chain else None, chain[-2] if len(chain) > 1 else None, height,
                          first_nonce=hints[height] if height < len(hints) else 0))
    return chain


# nonces of the 3010 headers of the demo chain, found by the search in mine(); they are only used as starting
# points of that search (every header is still checked against its target), so the demo need not redo ~900k hashes
NONCE_HINTS = array.array('H', zlib.decompress(base64.b64decode(
    "eNodmAe8znX7xz/X9f3d97F3ZHOsc2yPvc852bJL2eNYSVbiZCYjISujkKishxJKtmTn0UBEWlKShvEo/qn+b49eet3uc9+/7/W9rs+6jrRD"
    "E/We5oRh1lmtVNS+V2TtPV0FdUR1vLZyKYf6+111tgeUR4/pSwV7UgdVTfn1op7VXa+heYprl4oq8v4qyTdPWRstVTe1VHFlsSKW117XHqun"
    "r5Rbg1Rf5VXc/lCGzlk/P6YUNVcJ1YqyaVaopTO6oezKqr9UzifaWq1WXfXVLP9bmVWKc8raizrgn2q07bWRsVP60Ad7UzWzfppji7RN91lC"
    "rLv2a7mK2XZJzfzFUMV/18Dwuv5PVfUyVSWoPXeOa76e0oVoubb7Y/FOmugZVj9qrKw+0EpquLqojX70PtbMsthutbULIdhxeyGqoTn61ZPC"
    "BjozQtN0IyzVv1WMMzvaGpll0wn/UMuiarpgg+jYFOttyVER3v+Iz+9RqsrQgQ8tUyikFjppZr3sZ2p7Rqs4p53+o+PeQBu1h1oqhHTVs2/1"
    "QXTR+thY/9HyaIzK27/sjr9OJ3/zwmGHVnobb2bHqDGPHtFW+r1V4+3+eEErbzd9AJ8frhIW1FifU+V3ekkvW3/rZjGNCxkapuN6x0fad3pF"
    "o+jYozpiNyzFZulHZaavm/h5UGfN9rf0k5JUWz1ATQMvDxZaqIPHFbMCqsJ73X1TdMY+oxePM90NHrcCtly3meYTmuRTLHMYas3o/UmNsDXW"
    "1T7xDF3W5wnZbD/TbRzVVx0bZVXsY7tfZ3XLKtpqlaNbz1PjHCtsVbndCWuiF2wzKB1oc724fmEC25TuDayo+ukP2xMW2ExF6mufxwaoJ69r"
    "Kq+2+GEV4e5N9YeG2Pfc9X4tt8cUA0+trIYV12ZV4OmFrAQY3ak0yxtNtfFeEpy/b+X1j3qApvpapHZ0N135VMlTqDZJ9/nHdHSsD7ae9O9r"
    "MFMuHOUbi6N0OmdZftEEK6fnYmPCl3qNGlPVWxWtmK9U91BZZXyw+quc9QEXPay7vtB6y+tf2DtWUAujacob9kUdtUXJ8QncKasN1CgvAkLK"
    "2jeqFtuq57y1zYxWyOhfcaXrQcWY0kDvGe0Mzaj+nKaD+RTl1C1PVR//Wc20JD4O5GbXU1FtHbV8dlZH/U87ARda2PRwS7VBS1dPsGle2B5S"
    "EeuhAurKBJaiCE01mDkP0n9B8AXbqQfsY+X3zHpHj1JxxH+Fo09Vj2d1t9L6Kfwgt5xK9ltU0cTO2MVM78DAfnYstKPatnafvQ9ORmqSWtpZ"
    "z80sc8D/bqjDSZXWEKXG1thRjdQV7bRb9mv8CPjrTT/yoQsFNNXqgLQH9KUn8O46kPIaqlQZfn6qv5Wo63oYfDXRfXxmlR6zNL63xvaqtfKH"
    "k/qVO+y2DdbZX9Z79ggYH+uVVJFzR/OMSX7bZvtVPj9KdbReh2FGJ1CZDmYPgujB+tlzoJ2n9HMoSkc6RynWgEkfptfGTDdKdl779Lyl6irP"
    "Hun1+P4pa6zNluRH9bRfsi5e3/OjHa3R1N9U007a79Sb295WJntV2ZTiA6m9hHrbTKtvO8B3QzupUva1rfSKeidMBWdHVQPMNYPfy+wbsJGo"
    "knA2g5s/qAXwuaNNBXP1tJUnP6vT3sS7ojnD9LzH/AnN1U0qLKay3lLbrJy/AdJv6GGUdKom2gJbpwxLRNdvelEratssQw20Fiy00yUvYBPV"
    "JzTx9+lYGyWjBVNtfWio6prpla06T0i0wTaGUxf5DZXVULicVdPtaXgxz/L4eqqtEqLQSSuttzr6AF7dRe9acF4Cyr+SLiZR+Sqtsyxo0W0/"
    "p4TYG0y4lNXQK5bV54YFfgDu7FATX69YdIlvLrN5nNdAx+0uKvM2lSUyubd1OnwPP1uFf+FRb+BSjVRYzdGPDOvlnWBUflWwA9x1iPUHRxfD"
    "zmhh/He/pnh4FxXvCi6CamkPfZ+ugapq4/U3iC/p39LFZL59Dt5E3sbOKNlW6aJNsRY66MNRw9xoygh9ZI+iRFm5UTKIjPC+7jpEj5qA49Ro"
    "uLfFsfKhX9211aurtj8W2ltlC5yxG0c9J/dPrZlf9laoX1WttvY47j+hRcjkaZ7JftBsFfc/4Wd1+FhSVSyyyrFVWqh84K8OzjkgRPC5PF7w"
    "i56GCxvVEPy38K+ptSWvHoKJK3SNriTCz4fQzXQbraW2KCyMGmqWKmkIk57k9dHvn+KD1Njm+2o960PIDHs1KfSFtdO1Gh28oHt/nvB9/jmK"
    "OY33H7eDTHAG3tjYrqGtc0FADo2D/e14zqe8/wn6l67P0OD1ymMrvG5oIkcznkShx9PXy5w/0hr7bdQjSfu9REggkazjbmssB746VZPtK8X9"
    "GV+k720IjtKAnq/QP3YcpS1tk6mjpm0PR6w2vGikm/6mZsD7DzWKs1+1KWAzs09RDmvKFGbDxrkar7nxnXjGXHqyD/VbBAY2WXK8OS47DFbm"
    "VAf8dDtMGwXDbuOKq3SWaop6tuh9r6pscL2WhmXpy6yf8slgr50fwlVTQVBzrYL5F7TWbpI1rkRNeVZ7OPK2smhL6GU/ckIbr2gj4FaVe6+t"
    "vm/gpP/Sj7r6RD21hA5fpAd5QUNFvWkN4e4E24+OZQp7cZTKfDOvsoQ86he+RSW3k3q6aIZVsj9tAvMc60ftiCXT/54ap2w+3cqqTCjJZM7j"
    "56XtMN5ZEiecg9M08lJWH43p6g3V2p4BQfU4IacKMbXLOGQZfKu8HQpHlUZVp624z6Fr34HViSjbQnsFF7hK7koncc0Lr/HM8tqLB4/QE6EY"
    "LK/shbh7blTo32SN+8glnaitD7fvjxYfQgfHh2YkqUa4qntf9YERceocrVfx+Zncvws6fON/6S/Vu6l2uIYC9iNTPQRXc9ltu8jnl1ijMBjc"
    "99BurxfyK8FK2irrTnbZilrUDtlDDEcabUt8rk2IP0V33yKx5rMvNchOkXVz8f8KYVEoAhpE7phDzgkaQzprBa+383clKJoROpCH99OJlPA+"
    "7xZTClpQhy5cASffmEhOFWFDBp8+oRr2V6jPzeajDcdx6BfoUZsQ0c8p1kWfenZ7WWfDFur/zXLaaTWFSQ1IGSXwly6Wg9fb4dUW/WWFPdn+"
    "IRsWtY3emcS0mSkPpudxPWs9bJrN1uxoBDl+L9o7DA7Uinrr21A4LpT0ipcOl3jSVZvuhcl8LZhCVt21xVpsadFvTDGOz1RWR9JTO1zuO6p8"
    "JPwHByqiyV4JBW4XsqstaNlFRvmInSEbueS6GtlKznvR90UdcJI0HG1+7ICW2TUfju6U1AdkhDSvjF+u9G2aoiWhlN7lrJrqFm6GzuwdObwK"
    "LBoJWkrjhB3VI2SzFWBUqOJZWFSJOZS1ss6+YPuouZoi8nCq6tomMmepWGOUuQyu+ReIraBLaPsDNuZ/2pAFhSwG6wajaDXAzXRwsB9NSrFH"
    "4FIBP6XfuM1GO4AuPGor0YXGZJKjlgt0LtNBu+eti1TdFsV6wIU/yS/D4fxWyyC71hDzAvM/hW0+GbVbyr6zC/Y29zQNcyc/HCStJOiyT/Qe"
    "3GUd53+EO621O6CyODmsKkoUgf6O6HIevHA0/r7D1oXZlmwzcNLDUaIO2ehobawDyF+GYnUin8ZIeMvIuRXJ6Em2wIfBkZu43UL7xZt7Ooj4"
    "gPyYZHvgWi/0ayeKscOys+tE1ivKzmxnRu3sHAlilnCbMAse1lJOuntJk9Hj1SofjYz+9GfQ2vG6o09Q5g/hYjYvhdJvAc/T8KWeIKKxfc1t"
    "EnwhDMprTb0HN+pB0iiHlt41QxkGcIsjIXMYZPNsAErfVMPInTnxz6Gc9Soe5ew7M9gcF+JeWakpIkc9HZJsebTLOkVHyBWlUZ/pqNx16xp2"
    "s43c8ey828F/kYfr1o1cMA6teC/c0RoN9+H39lSXMkJ2MLULHzppM0lz//V22kCCfR723QRPj8KugXhKVbR5gV6nsx3AS3ctBkElme0F3DWT"
    "72YPncX738H5tspvS8Nb8GqK7bTJePZLPoVscUFjUaDeOPZSkKHMXdgY0uBPJZLTApgxgkRYkNxWGxUfwUbodPE/vgbmN6Jvteh321DSv8LB"
    "6uHOY+D7i+woAndvwNaPLU52bIl6taab1Uzk2/qkB7NO+pjEm8qOu4b8vg42n2FTKU3enxaNC0+F+SSGbmh3Ua2Md7SGKpjpBXucz7RGDfuS"
    "v/5iuvmUI3aVXpRTol8mhyTxKrdOs8dWJJesDeeZdXGS4gf2DrtTQfRxNj0aDKNqou7jLEYi6Borjv7P9YCDvaUMlHuEJ6qrvYvLP0sq+RBf"
    "62u74vfrUkj2VZ6XiV31miSSdLLjFjxuBqnzV3aLmmjA9tCVTS0veNhIVxM8Cw7Uwi7Tq3RVDFVgzjOxx9kIDtoLdPtPf5E965hlpbZUu8mt"
    "ysSz+Lz4CLsO3mKel3Ry1V6DK8/jEx/xtw0s3MReuFKv6/nYIn8BR/7GR4Gutkx+hVb4Jn+Fk9LCtyThi+xrG0jLlfCA8eB6DvO8ys+zkz93"
    "c8dZTGYC2tMi5FMHUuBapQaRDS9ZIXvJCyoh+lovocxz2OSnswUOwFXah9bg+Yrut4H+KJlslvLArSQ1t0m67onolruRB+qyk5z1PcpE4igC"
    "JpeTT7Mqb1RIxUIlMlNrvDsRDfoO/T5NzkskVYwFcU3sRFRHhbyFPayTXs0LhM9s2r0tFRetpolhrFW1FHiRj+zRCa0rgladJJ+5pvrj6qtM"
    "sbIhyQui7IvJiH/o4egC6Ctrf9huDbBWuPdha2hD6OMP7AknwWABkvkytrHzNk4/gaDq4K42TtaK2gvbMf3tJ7jxGlvM0zKz+eeyCA/IQrI4"
    "b9fsjA+I0mJNrbcdVK5YOcWtF+6RxFN+RSmehMOHwnrQPpQU/X+w8BM6VsHy275oNXdPw4t60fv3w1Wm2CLcy5OHLRMuVMLvY5ctbZnZyPOR"
    "HTqjnL11l3Q1HsWdjComw/xaJI+WNtUGRU/HyvprbNgbw1ZqmP8/1rfFTRqgZkeZURI5sJzG2kjSlMHQDHCUB3/ORBob4wf5eUF6kQ+nTlf3"
    "2Er9Ej0WHgZTD6AkZTy3V0Ovc9kIy69jdt4S8Ik3QWFjPWfVUOcPqDEnsy1ubbh1unqxXSVw/jTw04dNoiIacksHYFMqMxrHaU2Z5lCVgctD"
    "yfZ3Qi6U9TCYeSuMACkHSPkFwU1Bq8lmc1zfMsuvqGBt6ING18SFW8U+gp9xnKyDtbFx0eO2mcrPwdYdllvX/GO86t7v0IrhWuUtwZqQ5ivh"
    "LAX0jL6wgAMM40nJpJsmdsrv/V7uMzgxFMY/aXPYkNfrhtclrW0A2bf47jScdwg63gW9yk1P24Lh8dE57Qkj6GcHtfYFZIpDvhNNuZdiZ7E5"
    "jlWdMCyMY4PYBrKK4GA92Uo3sZN391x49jFQd4I9Jo+y4/29wPgP1HuGJFHX28CZKP679WLOg5lUMatFHXfp/hN2nMm/wV7aC29po9nxkSqB"
    "1y6zO+wQAe/9DLWbDZ4OsI9XIH/n5r4PWj7/G6+rhYJ+aXtDZtQh1fp7ex0BpRmgs7sNiOrYy8HATENu9CAZLtFTmHp1P+QJelNTY/WYZWs7"
    "z12WsY/mo8Yv2NZrciJphUw7jG5NsSuklhsqrt52Ty1ngvkUPR3FvR7zaI5DVjNjT7xu+3Um1CazpZE15oe+KNMYJlKFm5QjKfyAVrfHwRei"
    "G53tC7b0v+nscB2M+lJbJ8sIxby2N9O77LLToqVa7m/YmzbKxvhSu/fbhmSdZlNNjOIozEuaRNI7hP7Ot5hl9hRQgtri+Mn8ezG5tqxm8l4b"
    "kspz3gVdW8SusctrsMXMZa4bSCll7AP86OdwO6EQMyjvjeDVJB3xmG1HWzJzuyVRc7CZwxKiJLRzqL0W24J+NCTf4V94/mae9Qhq3+Le7+TY"
    "Jl6GkcbmXYLUE8HeB32gvYfvfwE/czG9dJLKOv0TjUftH8T7+pG0m9LLPro/+gNOxFG96v4q6jYB5t1VhzDHN6KOS+w97tOSTas5CnuQzm1m"
    "P7hNBkyDeYv5SZzZHsc5T+O92/WkX/GH2E7nsQmksSnMJX9O13uo1gTfoVM22P8fqHoVGA=="
))).tolist()


from lbry.wallet.ledger import Ledger
from lbry.wallet.database import Database


class Stream:
    def listen(self, *_args, **_kwargs):
        pass


class ScriptedServer:
    """stands in for lbry.wallet.network.Network; answers truthfully from `chain[:tip]`"""

    def __init__(self, chain, tip):
        self.chain, self.tip = chain, tip
        self.on_header, self.on_status, self.on_connected = Stream(), Stream(), Stream()
        self.first_request, self.reply = asyncio.Event(), asyncio.Event()

    async def retriable_call(self, function, *args, **kwargs):
        return await function(*args, **kwargs)

    async def get_headers(self, height, count=10000, b64=False):   # blockchain.block.headers
        self.first_request.set()
        await self.reply.wait()
        await asyncio.sleep(0)                                       # a network round trip
        data = b''.join(self.chain[height:min(height + count, self.tip)])
        if b64:
            deflate = zlib.compressobj(wbits=-15)
            packed = deflate.compress(data) + deflate.flush()
            return {'base64': base64.b64encode(packed).decode(), 'count': len(data) // 112}
        return {'hex': data.hex(), 'count': len(data) // 112}


async def main():
    chain = build_chain(3010, NONCE_HINTS)
    genesis = dsha(chain[0])[::-1].hex()
    assert first_invalid(b''.join(chain), SIM_MAX_TARGET, genesis) is None

    class SimHeaders(Headers):
        max_target = SIM_MAX_TARGET
        genesis_hash = genesis.encode()

    class SimLedger(Ledger):
        network_name = 'simnet'
        headers_class = SimHeaders
        checkpoints = {start: dsha(b''.join(chain[start:start + 1000]))[::-1].hex() for start in (0, 1000, 2000)}

    tmp = tempfile.mkdtemp(prefix='c07f4')
    try:
        server = ScriptedServer(chain, tip=3009)
        ledger = SimLedger({'data_path': tmp, 'db': Database(':memory:'), 'network': server,
                            'headers': SimHeaders(os.path.join(tmp, 'headers'))})
        headers = ledger.headers
        await headers.open()                         # fresh wallet: zero placeholders for 3 checkpointed chunks
        assert len(headers) == 3000 and headers.known_missing_checkpointed_chunks == {0, 1000, 2000}

        async def as_in_ledger_start():              # the header part of Ledger.start(), verbatim
            async with ledger._header_processing_lock:
                await ledger._update_tasks.add(ledger.initial_headers_sync())
        start = asyncio.ensure_future(as_in_ledger_start())
        await server.first_request.wait()
        # the server pushes a notification with the real header of height 5 while the initial sync is in flight
        pushed = asyncio.ensure_future(ledger.receive_header([{'height': 5, 'hex': chain[5].hex()}]))
        for _ in range(5):
            await asyncio.sleep(0)
        server.reply.set()
        await start
        try:
            await pushed
        except Exception:                            # in the daemon: logged by the listener task, nothing else
            pass
        await ledger._other_tasks.done.wait()        # the background back-fill of checkpointed chunks has finished

        server.tip = 3010                            # a new block is found and announced, the wallet syncs up
        await ledger.receive_header([{'height': 3009, 'hex': chain[3009].hex()}])
        tip = headers.height

        # what the wallet now holds and serves, from genesis to the end of the last connected batch
        served = []
        for height in range(tip + 1):
            served.append(await headers.get_raw_header(height))   # fetches chunks it knows to be missing
        claimed = [height for height in range(tip + 1) if headers.has_header(height) and not any(served[height])]
        await headers.close()
    finally:
        shutil.rmtree(tmp, ignore_errors=True)

    bad = first_invalid(b''.join(served), SIM_MAX_TARGET, genesis)
    if bad is not None or tip != 3009:
        print(f"C07 VIOLATED - after a pushed old header and the usual back-fill the chain (tip {tip}) is broken: "
              f"header {bad[0]} {bad[1]}; has_header() is True for {len(claimed)} heights "
              f"({claimed[0]}..{claimed[-1]}) whose stored header is 112 zero bytes, none of them in "
              f"known_missing_checkpointed_chunks")
        return 1
    print(f"ok: all {tip + 1} headers the wallet serves form the valid chain")
    return 0


if __name__ == '__main__':
    sys.exit(asyncio.run(main()))
