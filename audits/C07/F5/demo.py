"""
C07 finding F5 - Headers.validate_header() compares the proof-of-work hash with the retargeted target BEFORE it is
rounded to compact form,

    block_target = self.get_next_block_target(...)          # full precision (or max_target = 0x..ffffffff)
    if header['bits'] != target.compact: ...                # bits must be the rounded value - fine
    if proof_of_work > target: ...                          # but the work is measured against the UNROUNDED value

whereas the target of a header - the one lbrycrd's CheckProofOfWork uses, the one every other node enforces - is
what its bits encode: from_compact(bits) <= unrounded target, the difference being everything below the top 16..24
bits.  A header whose proof-of-work hash lies between the two does NOT meet its proof-of-work target, is rejected by
the network, and is accepted and stored by the wallet.  At minimum difficulty the same holds on main net:
max_target is 0x0000ffffffff...ff while its bits 0x1f00ffff encode 0x0000ffff0000...00.

Circumstance forced by the harness (QUANTIFIER: "headers mined to be valid except for one rule"): a three header
batch [genesis, header 1, header 2] where header 2 links, carries exactly the demanded bits, and has a proof-of-work
hash of 0x00ffffc55e... against the target 0x00ffff0000... encoded by its bits 0x2000ffff (nonce 699350, found by a
search over ~700k nonces for this demo).  The window is a 2^-16..2^-24 fraction of the valid hashes, so the test
network uses an easy max_target (configuration attribute, as UnvalidatedHeaders/Ledger subclasses set it) to make
hitting it affordable; nothing of the product is replaced or patched.
"""
import warnings
warnings.filterwarnings('ignore')
import asyncio, base64, hashlib, logging, os, shutil, struct, sys, tempfile, zlib
import lbry.wallet                                   # must be imported before lbry.conf
from lbry.wallet.header import Headers

logging.disable(logging.CRITICAL)

# ---------------------------------------------------------------------------------------------------------------
# independent reference implementation of the LBRY header rules (exact integer arithmetic, after lbrycrd's
# lbry.cpp CalculateLbryNextWorkRequired / pow.cpp CheckProofOfWork / arith_uint256 SetCompact+GetCompact)
# ---------------------------------------------------------------------------------------------------------------
def dsha(b): return hashlib.sha256(hashlib.sha256(b).digest()).digest()
def rip(b): return hashlib.new('ripemd160', b).digest()
def pow_int(raw):
    h = hashlib.sha512(dsha(raw)).digest()
    return int.from_bytes(dsha(rip(h[:32]) + rip(h[32:])), 'little')
def from_compact(c):
    size, word = c >> 24, c & 0x007fffff
    return word >> 8 * (3 - size) if size <= 3 else word << 8 * (size - 3)
def to_compact(v):
    size = (v.bit_length() + 7) // 8
    c = v << 8 * (3 - size) if size <= 3 else v >> 8 * (size - 3)
    if c & 0x00800000:
        c >>= 8
        size += 1
    return c | size << 24
def cdiv(a, b):                                      # C++ integer division truncates toward zero
    q = abs(a) // abs(b)
    return q if (a >= 0) == (b > 0) else -q
def next_target(max_target, prevprev_ts, prev_ts, prev_bits, span=150):
    mod = span + cdiv((prev_ts - prevprev_ts) - span, 8)
    mod = max(span - span // 8, min(mod, span + span // 2))
    return min(max_target, (from_compact(prev_bits) * mod) % 2 ** 256 // span)
def fields(raw):
    ts, bits, nonce = struct.unpack('<III', raw[100:112])
    return dict(prev=raw[4:36], ts=ts, bits=bits, nonce=nonce)
def split(image): return [image[i:i + 112] for i in range(0, len(image) - len(image) % 112, 112)]
def first_invalid(image, max_target, genesis_hash_hex):
    """None if image is a linked, correctly retargeted, proof-of-work chain from genesis, else (height, reason)"""
    hs = split(image)
    for i, h in enumerate(hs):
        if i == 0:
            if dsha(h)[::-1].hex() != genesis_hash_hex:
                return 0, 'is not the genesis header'
            continue
        f, p = fields(h), fields(hs[i - 1])
        pp = fields(hs[i - 2]) if i > 1 else p
        if f['prev'] != dsha(hs[i - 1]):
            return i, 'does not link to the header stored at height %d' % (i - 1)
        target = next_target(max_target, pp['ts'], p['ts'], p['bits'])
        if f['bits'] != to_compact(target):
            return i, 'bits %08x, the retarget rule demands %08x' % (f['bits'], to_compact(target))
        if pow_int(h) > from_compact(f['bits']):
            return i, 'proof-of-work hash is above the target its bits encode'
    return None

SIM_MAX_TARGET = 2 ** 248 - 1
GENESIS_HEADER = bytes.fromhex(
    "010000000000000000000000000000000000000000000000000000000000000000000000e4223ed20d7ea5740a326e2b268ca6db91d041cf"
    "5194f577e393a8ba3b85d8e9000000000000000000000000000000000000000000000000000000000000000100105e5fffff002000000000")
HEADER_1 = bytes.fromhex(      # fully valid; 1000 s after genesis, so that the next target is clamped to max_target
    "01000000013728f5a70300d84f39704090dcae820fcf8fa2fcc517708a9d4e33e0eb67a2ca0df2c95aa144c1d0ff2ff3c8f967fdc1de9ef0"
    "c4120b3726416701b519d6190000000000000000000000000000000000000000000000000000000000000001e8135e5f46e100201f010000")
HEADER_2 = bytes.fromhex(      # valid link, valid bits (0x2000ffff), proof of work ABOVE the target those bits encode
    "01000000cc37953de1bc57e723f817cd9371c009ca40529b6cc64a32113aa69c7d38176244ff7b02c80d38b26dd6aa31d9470aed81b32e10"
    "331a3c994fb1a9945fd847ba00000000000000000000000000000000000000000000000000000000000000017e145e5fffff0020d6ab0a00")


async def main():
    genesis = dsha(GENESIS_HEADER)[::-1].hex()
    batch = GENESIS_HEADER + HEADER_1 + HEADER_2
    assert first_invalid(GENESIS_HEADER + HEADER_1, SIM_MAX_TARGET, genesis) is None
    bad = first_invalid(batch, SIM_MAX_TARGET, genesis)
    assert bad == (2, 'proof-of-work hash is above the target its bits encode'), bad   # the ONLY rule header 2 breaks

    class SimHeaders(Headers):
        max_target = SIM_MAX_TARGET
        genesis_hash = genesis.encode()
        checkpoints = {}

    headers = SimHeaders(':memory:')
    await headers.open()
    added = await headers.connect(0, batch)
    stored = headers._read(0, len(headers))
    headers.io.close()
    if first_invalid(stored, SIM_MAX_TARGET, genesis) is not None or added > 2:
        bits = fields(HEADER_2)['bits']
        print(f"C07 VIOLATED - connect() stored {added} headers of a batch whose header 2 does not meet its "
              f"proof-of-work target:\n  proof-of-work hash      {pow_int(HEADER_2):064x}\n"
              f"  target of bits {bits:08x} {from_compact(bits):064x}\n"
              f"  unrounded target        {SIM_MAX_TARGET:064x}   <- what validate_header compared with")
        return 1
    print(f"ok: {added} headers stored, nothing at or beyond the header without sufficient proof of work")
    return 0


if __name__ == '__main__':
    sys.exit(asyncio.run(main()))
