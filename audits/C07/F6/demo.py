"""
C07 finding F6 - Headers.validate_chunk() takes the two headers below a batch from get_raw_header()/get(), which
fetch a still missing checkpointed chunk only `if self.chunk_getter:`.  Ledger.start() sets chunk_getter in
initial_headers_sync(), i.e. only AFTER network.on_connected - but Ledger.receive_header() is subscribed to the
network's header notifications from Ledger.__init__ on, and a server can push a `blockchain.headers.subscribe`
notification the moment the TCP session exists (before it even answers server.features).  In that window the
all-zero PLACEHOLDER of a chunk that was not back-filled yet is used as if it were a header: for a batch connecting
at k*1000+1, just above the boundary between a fetched chunk k and an unfetched chunk k-1, header k*1000 is real but
"header" k*1000-1 is 112 zero bytes with timestamp 0, so the retarget sees a time span of ~50 years, clamps it to the
maximum, and demands 1.5 x the previous target (capped by max_target) instead of what the rule demands.

A header that links to the real header k*1000, carries those (too easy) bits and meets them is accepted, stored over
the checkpoint-verified header k*1000+1 and made the tip; its chunk stays tracked as present.  The local chain now
holds a header whose bits are not what the retarget rule demands, inside a chunk that does not hash to its checkpoint.

Circumstance forced by the harness: real Ledger / Headers code against a scripted server object in place of
lbry.wallet.network.Network.  Session 1: honest replies; the wallet is shut down (what Ledger.stop() does to the
headers) while the back-fill of the lowest chunk is still waiting for its reply - the normal state of any wallet
restarted within its first minutes.  Session 2: the server pushes one notification before the wallet has finished
connecting: height 1001, a header mined to be valid except for the bits rule ("headers mined to be valid except for
one rule").  ledger.receive_header() is called directly because StreamController cannot run coroutine listeners on
this Python.  Test network = Headers with configuration attributes only (max_target, genesis_hash, checkpoints).
"""
import warnings
warnings.filterwarnings('ignore')
import asyncio, base64, hashlib, logging, os, shutil, struct, sys, tempfile, zlib
import lbry.wallet                                   # must be imported before lbry.conf
from lbry.wallet.header import Headers

logging.disable(logging.CRITICAL)

# ---------------------------------------------------------------------------------------------------------------
# independent reference implementation of the LBRY header rules (exact integer arithmetic, after lbrycrd's
# lbry.cpp CalculateLbryNextWorkRequired / pow.cpp CheckProofOfWork / arith_uint256 SetCompact+GetCompact)
# ---------------------------------------------------------------------------------------------------------------
def dsha(b): return hashlib.sha256(hashlib.sha256(b).digest()).digest()
def rip(b): return hashlib.new('ripemd160', b).digest()
def pow_int(raw):
    h = hashlib.sha512(dsha(raw)).digest()
    return int.from_bytes(dsha(rip(h[:32]) + rip(h[32:])), 'little')
def from_compact(c):
    size, word = c >> 24, c & 0x007fffff
    return word >> 8 * (3 - size) if size <= 3 else word << 8 * (size - 3)
def to_compact(v):
    size = (v.bit_length() + 7) // 8
    c = v << 8 * (3 - size) if size <= 3 else v >> 8 * (size - 3)
    if c & 0x00800000:
        c >>= 8
        size += 1
    return c | size << 24
def cdiv(a, b):                                      # C++ integer division truncates toward zero
    q = abs(a) // abs(b)
    return q if (a >= 0) == (b > 0) else -q
def next_target(max_target, prevprev_ts, prev_ts, prev_bits, span=150):
    mod = span + cdiv((prev_ts - prevprev_ts) - span, 8)
    mod = max(span - span // 8, min(mod, span + span // 2))
    return min(max_target, (from_compact(prev_bits) * mod) % 2 ** 256 // span)
def fields(raw):
    ts, bits, nonce = struct.unpack('<III', raw[100:112])
    return dict(prev=raw[4:36], ts=ts, bits=bits, nonce=nonce)
def split(image): return [image[i:i + 112] for i in range(0, len(image) - len(image) % 112, 112)]
def first_invalid(image, max_target, genesis_hash_hex):
    """None if image is a linked, correctly retargeted, proof-of-work chain from genesis, else (height, reason)"""
    hs = split(image)
    for i, h in enumerate(hs):
        if i == 0:
            if dsha(h)[::-1].hex() != genesis_hash_hex:
                return 0, 'is not the genesis header'
            continue
        f, p = fields(h), fields(hs[i - 1])
        pp = fields(hs[i - 2]) if i > 1 else p
        if f['prev'] != dsha(hs[i - 1]):
            return i, 'does not link to the header stored at height %d' % (i - 1)
        target = next_target(max_target, pp['ts'], p['ts'], p['bits'])
        if f['bits'] != to_compact(target):
            return i, 'bits %08x, the retarget rule demands %08x' % (f['bits'], to_compact(target))
        if pow_int(h) > from_compact(f['bits']):
            return i, 'proof-of-work hash is above the target its bits encode'
    return None

# ---------------------------------------------------------------------------------------------------------------
# a small test network: the same rules at a difficulty a demo can mine.  Only configuration attributes of Headers
# are set (what Ledger subclasses / UnvalidatedHeaders do for testnet, regtest, simnet), no method is replaced.
# ---------------------------------------------------------------------------------------------------------------
SIM_MAX_TARGET = 2 ** 248 - 1                        # ~256 hashes per header


def mine(prev, prevprev, height, spacing=150, tag=b'', first_nonce=0):
    if prev is None:
        bits, prev_hash, ts = to_compact(SIM_MAX_TARGET), bytes(32), 1600000000
    else:
        p, pp = fields(prev), fields(prevprev if prevprev else prev)
        bits = to_compact(next_target(SIM_MAX_TARGET, pp['ts'], p['ts'], p['bits']))
        prev_hash, ts = dsha(prev), p['ts'] + spacing
    base = (struct.pack('<I', 1) + prev_hash + hashlib.sha256(b'tx of %d' % height + tag).digest() +
            bytes(31) + b'\1' + struct.pack('<II', ts, bits))
    for nonce in range(first_nonce, 2 ** 32):           # first_nonce is only a hint that shortens the search
        raw = base + struct.pack('<I', nonce)
        if height == 0 or pow_int(raw) <= from_compact(bits):
            return raw


def build_chain(count, hints=()):
    chain = []
    for height in range(count):
        chain.append(mine(chain[-1] if chain else None, chain[-2] if len(chain) > 1 else None, height,
                          first_nonce=hints[height] if height < len(hints) else 0))
    return chain

from lbry.wallet.ledger import Ledger
from lbry.wallet.database import Database


class Stream:
    def listen(self, *_args, **_kwargs):
        pass


class ScriptedServer:
    """stands in for lbry.wallet.network.Network; answers truthfully from `chain`, never answers for chunk 0"""

    def __init__(self, chain):
        self.chain = chain
        self.on_header, self.on_status, self.on_connected = Stream(), Stream(), Stream()
        self.asked_for_lowest_chunk = asyncio.Event()

    async def retriable_call(self, function, *args, **kwargs):
        return await function(*args, **kwargs)

    async def get_headers(self, height, count=10000, b64=False):   # blockchain.block.headers
        await asyncio.sleep(0)
        if b64 and height == 0:
            self.asked_for_lowest_chunk.set()
            await asyncio.Event().wait()                             # reply still under way when the user quits
        data = b''.join(self.chain[height:height + count])
        if b64:
            deflate = zlib.compressobj(wbits=-15)
            packed = deflate.compress(data) + deflate.flush()
            return {'base64': base64.b64encode(packed).decode(), 'count': len(data) // 112}
        return {'hex': data.hex(), 'count': len(data) // 112}


async def main():
    chain = build_chain(2010)
    genesis = dsha(chain[0])[::-1].hex()
    assert first_invalid(b''.join(chain), SIM_MAX_TARGET, genesis) is None

    class SimHeaders(Headers):
        max_target = SIM_MAX_TARGET
        genesis_hash = genesis.encode()

    class SimLedger(Ledger):
        network_name = 'simnet'
        headers_class = SimHeaders
        checkpoints = {start: dsha(b''.join(chain[start:start + 1000]))[::-1].hex() for start in (0, 1000)}

    def new_ledger(tmp):
        return SimLedger({'data_path': tmp, 'db': Database(':memory:'), 'network': ScriptedServer(chain),
                          'headers': SimHeaders(os.path.join(tmp, 'headers'))})

    # the forged header for height 1001: links to the real header 1000, proof of work fine for its bits, but bits
    # 1.5 x easier (capped at max_target) than the previous ones although the chain's blocks are 150 s apart
    real_1000 = fields(chain[1000])
    easy_bits = to_compact(min(SIM_MAX_TARGET, from_compact(real_1000['bits']) * 225 // 150))
    demanded_bits = to_compact(next_target(SIM_MAX_TARGET, fields(chain[999])['ts'], real_1000['ts'], real_1000['bits']))
    assert easy_bits != demanded_bits == fields(chain[1001])['bits']
    base = (struct.pack('<I', 1) + dsha(chain[1000]) + bytes(32) + bytes(31) + b'\1' +
            struct.pack('<II', real_1000['ts'] + 150, easy_bits))
    forged = next(base + struct.pack('<I', n) for n in range(2 ** 32)
                  if pow_int(base + struct.pack('<I', n)) <= from_compact(easy_bits))
    bad = first_invalid(b''.join(chain[:1001]) + forged, SIM_MAX_TARGET, genesis)
    assert bad is not None and bad[0] == 1001 and 'retarget rule' in bad[1], bad      # the ONLY rule it breaks

    tmp = tempfile.mkdtemp(prefix='c07f6')
    try:
        # ---- session 1: first start of a fresh wallet, quit while the lowest chunk is still being back-filled
        ledger = new_ledger(tmp)
        await ledger.headers.open()
        async with ledger._header_processing_lock:   # the header part of Ledger.start(), verbatim
            await ledger._update_tasks.add(ledger.initial_headers_sync())
        await ledger.network.asked_for_lowest_chunk.wait()
        assert len(ledger.headers) == 2010 and ledger.headers.known_missing_checkpointed_chunks == {0}
        ledger._update_tasks.cancel()                # the header part of Ledger.stop(), verbatim
        ledger._other_tasks.cancel()
        await ledger.headers.close()

        # ---- session 2: restart; the server pushes a header notification before the wallet has finished connecting
        ledger = new_ledger(tmp)
        headers = ledger.headers
        await headers.open()
        assert len(headers) == 2010 and headers.known_missing_checkpointed_chunks == {0}
        assert headers.chunk_getter is None          # initial_headers_sync() has not run yet
        try:
            await ledger.receive_header([{'height': 1001, 'hex': forged.hex()}])
            outcome = 'returned'
        except Exception as error:                   # in the daemon: logged by the listener task, nothing else
            outcome = f'raised {type(error).__name__}: {error}'
        stored_1001 = headers._read(1001)
        length = len(headers)
        tracked_missing = set(headers.known_missing_checkpointed_chunks)
        await headers.close()
    finally:
        shutil.rmtree(tmp, ignore_errors=True)

    if stored_1001 == forged:
        print(f"C07 VIOLATED - a pushed header with the wrong difficulty bits was stored inside a checkpointed chunk:\n"
              f"  receive_header {outcome}; chain cut from 2010 to {length} headers, header 1001 is the pushed one\n"
              f"  its bits            {fields(stored_1001)['bits']:08x}\n"
              f"  the rule demands    {demanded_bits:08x}  (headers 999 and 1000 of the checkpointed chain are 150 s apart)\n"
              f"  validated against   header 1000 and the all-zero placeholder of the missing chunk as 'header 999'\n"
              f"  chunks tracked as missing: {sorted(tracked_missing)} - chunk 1000 no longer hashes to its checkpoint "
              f"but counts as present")
        return 1
    print(f"ok: receive_header {outcome}; header 1001 is still the checkpointed one, {length} headers")
    return 0 if stored_1001 == chain[1001] and length == 2010 else 1


if __name__ == '__main__':
    sys.exit(asyncio.run(main()))
