"""
C10 / F2 - a lying peer poisons the concurrent transfer from an honest peer.

The client stores the length ANNOUNCED in a response header on the blob object that is shared by all
connections downloading that blob (client.py data_received -> blob.set_length) before a single byte is verified.
When the blob's length is not known beforehand (every stream descriptor blob), a peer that announces a wrong
length and then stalls makes the response of every honest peer that answers while the liar's connection is
still open look like "incoming blob unexpected length": the honest connection is closed and the peer is dropped.
(Commit 1774bbd only repaired the case where the liar's request had already FAILED.)

History: blob X (length unknown to the client, as for an sd blob); the downloader races two peers, as
BlobDownloader does: connection 1 -> liar (header: right hash, length+1, then silence), connection 2 -> honest
real BlobServerProtocol holding X.  The liar's header arrives first.
Expected: the transfer from the honest server completes, X verified and byte-identical.
"""
import asyncio
import json
import logging
import os
import sys

from harness import Node, connect
from lbry.blob_exchange.server import BlobServerProtocol
from lbry.blob_exchange.client import BlobExchangeClientProtocol

PEER_TIMEOUT = 3.0


class LyingPeer(asyncio.Protocol):
    """well-formed response naming the requested hash, but a wrong length; then it sends nothing"""
    def __init__(self, length_offset):
        self.length_offset, self.buf, self.transport = length_offset, b'', None
        self.real_length = None

    def connection_made(self, transport):
        self.transport = transport

    def data_received(self, data):
        self.buf += data
        if self.buf.endswith(b'}'):
            wanted = json.loads(self.buf)['requested_blob']
            self.buf = b''
            self.transport.write(json.dumps({
                'incoming_blob': {'blob_hash': wanted, 'length': self.real_length + self.length_offset},
                'blob_data_payment_rate': 'RATE_ACCEPTED', 'available_blobs': [wanted]}).encode())


async def main() -> int:
    loop = asyncio.get_running_loop()
    H, C = await Node(loop).start(), await Node(loop).start()
    try:
        data = os.urandom(5000)
        blob_hash = await H.add_blob(data)
        blob = C.bm.get_blob(blob_hash)             # length unknown, like a stream descriptor blob
        assert blob.get_length() is None

        liar = LyingPeer(+1)
        liar.real_length = len(data)
        to_liar = BlobExchangeClientProtocol(loop, PEER_TIMEOUT)
        connect(loop, to_liar, liar, ('1.2.3.9', 4000), ('1.2.3.66', 3333))
        to_honest = BlobExchangeClientProtocol(loop, PEER_TIMEOUT)
        connect(loop, to_honest, BlobServerProtocol(loop, H.bm, 'addr', 30, 60), ('1.2.3.9', 4001), ('1.2.3.1', 3333))

        liar_task = loop.create_task(to_liar.download_blob(blob))
        await asyncio.sleep(0)                      # the liar is asked (and answers) one loop iteration earlier
        honest_task = loop.create_task(to_honest.download_blob(blob))

        try:
            honest_result = await asyncio.wait_for(honest_task, 3 * PEER_TIMEOUT)
        except BaseException as err:  # noqa
            honest_result = f"raised {type(err).__name__}"
        verified_after_honest = blob.get_is_verified()
        file_ok = os.path.isfile(os.path.join(C.dir, blob_hash)) and \
            open(os.path.join(C.dir, blob_hash), 'rb').read() == data
        try:
            liar_result = await asyncio.wait_for(liar_task, 3 * PEER_TIMEOUT)
        except BaseException as err:  # noqa
            liar_result = f"raised {type(err).__name__}"
        await asyncio.sleep(0.05)

        if verified_after_honest and file_ok and not to_liar.transport:
            print("OK: the honest transfer completed (verified, byte-identical); the liar's connection is closed")
            return 0
        print("VIOLATION: the request to the honest server that holds the blob did not complete:")
        print(f"  honest peer: download_blob -> {honest_result}; blob verified={verified_after_honest}, "
              f"identical file on disk={file_ok}")
        print(f"  lying peer : download_blob -> {liar_result}")
        return 1
    finally:
        await H.stop()
        await C.stop()


if __name__ == '__main__':
    logging.basicConfig(level=logging.WARNING, format='  [lbry log] %(name)s: %(message)s')
    sys.exit(asyncio.run(main()))
