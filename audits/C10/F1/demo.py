"""
C10 / F1 - a node that holds a verified blob fails to serve it: BlobDownloader.download_blob() ends with
blob.close(), which also closes the file handles of the blob's READERS - i.e. of a BlobServerProtocol that is
in the middle of blob.sendfile() for that same blob.

History (all lbry code is real; only the network is in-memory):
  P  holds blob X.                      S  downloads X from P with a real BlobDownloader and runs a blob server.
  C  has an (idle) connection to S's blob server and asks for X.  The harness delivers C's request right after
     X became verified on S (a legal arrival time - a few loop iterations before BlobDownloader.download_blob on S
     reaches its `finally: blob.close()`).
Expected (property): S holds X verified, so C ends with the verified byte-identical blob.
Unchanged tree: S sends the header, starts sendfile, then its own downloader closes the reader under it:
  "could not read blob ... to send", S closes the connection, C's request fails.
"""
import asyncio
import logging
import os
import sys

from harness import Node, connect
from lbry.blob_exchange.server import BlobServerProtocol
from lbry.blob_exchange.client import BlobExchangeClientProtocol
from lbry.blob_exchange.downloader import BlobDownloader
from lbry.dht.peer import make_kademlia_peer

P_ADDR, S_ADDR, C_ADDR = ('1.2.3.1', 3333), ('1.2.3.2', 3333), ('1.2.3.3', 4444)


async def main() -> int:
    loop = asyncio.get_running_loop()
    P, S, C = await Node(loop).start(), await Node(loop).start(), await Node(loop).start()
    try:
        data = os.urandom(2 * 2 ** 20)
        blob_hash = await P.add_blob(data)

        async def create_connection(factory, host, port, **_):      # S's outgoing connections (to P)
            assert (host, port) == P_ADDR
            proto = factory()
            ct, _st = connect(loop, proto, BlobServerProtocol(loop, P.bm, 'addr', 30, 60), S_ADDR[:1] + (5000,), P_ADDR)
            return ct, proto
        loop.create_connection = create_connection

        # C <-> S's blob server, connection already open and idle
        c_proto = BlobExchangeClientProtocol(loop, 5)
        s_server_proto = BlobServerProtocol(loop, S.bm, 'addr', 30, 60)
        c_transport, s_transport = connect(loop, c_proto, s_server_proto, C_ADDR, S_ADDR)

        s_blob = S.bm.get_blob(blob_hash, len(data))
        c_blob = C.bm.get_blob(blob_hash, len(data))

        async def c_requests_when_s_has_it():
            await s_blob.verified.wait()            # from here on S holds X verified
            return await c_proto.download_blob(c_blob)
        c_task = loop.create_task(c_requests_when_s_has_it())

        peers = asyncio.Queue()
        peers.put_nowait([make_kademlia_peer(b'1' * 48, P_ADDR[0], tcp_port=P_ADDR[1])])
        downloader = BlobDownloader(loop, S.conf, S.bm, peers)
        await downloader.download_blob(blob_hash, len(data))
        assert s_blob.get_is_verified()

        outcome = None
        try:
            received, proto = await asyncio.wait_for(c_task, 20)
            outcome = f"download_blob returned ({received}, {proto})"
        except BaseException as err:        # noqa
            outcome = f"download_blob raised {type(err).__name__}"
        downloader.close()
        await asyncio.sleep(0.05)

        sent_by_s = sum(len(x) for x in s_transport.written)
        ok = c_blob.get_is_verified() and open(os.path.join(C.dir, blob_hash), 'rb').read() == data
        if ok:
            print("OK: C got the verified, byte-identical blob from S")
            return 0
        print("VIOLATION: S holds the blob verified (is_verified=%s, file on disk=%s) but C's honest request failed"
              % (s_blob.get_is_verified(), os.path.isfile(os.path.join(S.dir, blob_hash))))
        print("  C: %s; C's blob verified=%s" % (outcome, c_blob.get_is_verified()))
        print("  S wrote %d bytes on C's connection (header + %d of %d blob bytes) and closed it: closing=%s"
              % (sent_by_s, max(0, sent_by_s - len(s_transport.written[0])) if s_transport.written else 0, len(data),
                 s_transport.is_closing()))
        return 1
    finally:
        await P.stop()
        await S.stop()
        await C.stop()


if __name__ == '__main__':
    logging.basicConfig(level=logging.WARNING, format='  [lbry log] %(name)s: %(message)s')
    sys.exit(asyncio.run(main()))
