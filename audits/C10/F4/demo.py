"""
C10 / F4 - when the local write of a downloaded blob fails (disk full / quota / file size limit / EIO) the blob is
marked verified anyway, the truncated file stays on disk, and the node then serves it under a header announcing
the full length.

AbstractBlob.save_verified_blob() registers  update_events  as done-callback of the write task and that callback
sets blob.verified (and fires blob_completed -> completed_blob_hashes + database "finished") without looking at
the task's outcome; BlobFile._write_blob leaves the partially written file behind.

Fault forced by the harness (outside of lbry, no patching): the process' RLIMIT_FSIZE is lowered to 100000 bytes
while a real client downloads a 300000 byte blob from a real server, so the kernel fails the executor thread's
write() with EFBIG after 100000 bytes - exactly what ENOSPC/EDQUOT do on a full disk.  The limit is restored
afterwards.
Expected: the client does not end with a "verified" blob that is not byte-identical; nothing of it stays on disk;
the node does not offer or send it; once the fault is gone a new request completes.
"""
import asyncio
import json
import logging
import os
import resource
import sys

from harness import Node, connect
from lbry.blob_exchange.server import BlobServerProtocol
from lbry.blob_exchange.client import BlobExchangeClientProtocol

PEER_TIMEOUT = 2.0


class RawClient(asyncio.Protocol):
    """records what a blob server sends for one request"""
    def __init__(self):
        self.received, self.transport = b'', None

    def connection_made(self, transport):
        self.transport = transport

    def data_received(self, data):
        self.received += data


async def main() -> int:
    loop = asyncio.get_running_loop()
    H, C = await Node(loop).start(), await Node(loop).start()
    try:
        data = os.urandom(300000)
        blob_hash = await H.add_blob(data)
        path = os.path.join(C.dir, blob_hash)
        blob = C.bm.get_blob(blob_hash, len(data))
        client = BlobExchangeClientProtocol(loop, PEER_TIMEOUT)
        connect(loop, client, BlobServerProtocol(loop, H.bm, 'addr', 30, 60), ('1.2.3.9', 4000), ('1.2.3.1', 3333))

        soft, hard = resource.getrlimit(resource.RLIMIT_FSIZE)
        resource.setrlimit(resource.RLIMIT_FSIZE, (100000, hard))       # "disk full" after 100000 bytes
        try:
            try:
                result = await asyncio.wait_for(client.download_blob(blob), 5 * PEER_TIMEOUT)
            except BaseException as err:  # noqa
                result = type(err).__name__
            await asyncio.sleep(0.05)
        finally:
            resource.setrlimit(resource.RLIMIT_FSIZE, (soft, hard))

        problems = []
        on_disk = os.path.getsize(path) if os.path.isfile(path) else None
        if blob.get_is_verified():
            problems.append(f"blob is marked verified although saving it failed (download_blob -> {result})")
        if on_disk is not None:
            problems.append(f"a file of {on_disk} bytes (blob is {len(data)}) is left on disk under the blob's hash")
        if blob_hash in C.bm.completed_blob_hashes:
            problems.append("the blob is in completed_blob_hashes (offered to peers, announced to the DHT)")
        if blob_hash in await C.storage.get_all_blob_hashes() and \
                (await C.storage.get_blob_status(blob_hash)) == 'finished':
            problems.append("the database records the blob as finished")

        # what does this node now send to a peer that asks for the blob?
        raw = RawClient()
        connect(loop, raw, BlobServerProtocol(loop, C.bm, 'addr', 30, 60), ('1.2.3.7', 4000), ('1.2.3.9', 3333))
        raw.transport.write(json.dumps({'requested_blobs': [blob_hash], 'blob_data_payment_rate': 0.0,
                                        'requested_blob': blob_hash}).encode())
        await asyncio.sleep(0.5)
        if b'"incoming_blob"' in raw.received:
            header, end = json.JSONDecoder().raw_decode(raw.received.decode('latin-1'))
            problems.append("as a server it sent the header %s followed by %d blob bytes" % (
                {'incoming_blob': {'blob_hash': header['incoming_blob']['blob_hash'][:8] + '...',
                                   'length': header['incoming_blob']['length']}}, len(raw.received) - end))

        # the fault is over: a new request must complete
        client2 = BlobExchangeClientProtocol(loop, PEER_TIMEOUT)
        connect(loop, client2, BlobServerProtocol(loop, H.bm, 'addr', 30, 60), ('1.2.3.9', 4001), ('1.2.3.1', 3333))
        try:
            await asyncio.wait_for(client2.download_blob(blob), 5 * PEER_TIMEOUT)
        except BaseException as err:  # noqa
            pass
        await asyncio.sleep(0.05)
        if not (blob.get_is_verified() and os.path.isfile(path) and open(path, 'rb').read() == data):
            problems.append("after the fault is gone the blob on disk is still not the verified byte-identical blob "
                            "(size %s of %d)" % (os.path.getsize(path) if os.path.isfile(path) else None, len(data)))
        if not problems:
            print("OK: failed save -> not verified, nothing on disk, not offered; the retry completed")
            return 0
        print("VIOLATION:")
        for p in problems:
            print("  -", p)
        return 1
    finally:
        await H.stop()
        await C.stop()


if __name__ == '__main__':
    logging.basicConfig(level=logging.CRITICAL)
    sys.exit(asyncio.run(main()))
