"""
C10 / F5 - a response that the client REJECTS still completes the blob, and the "forget the announced length"
clean-up of download_blob() then wipes the length of a blob that is just being verified: the node ends up holding
a verified blob with length None, the completion callback raises ("Blob has a length of 0": never recorded as
completed), and every honest client that later requests the blob from this node fails, because the node's server
announces  {"incoming_blob": {"blob_hash": X, "length": null}}.

History (length of X unknown to the client, as for every stream descriptor blob):
 1. the peer answers with ONE segment: a header naming X and its true length, but "blob_data_payment_rate":
    "RATE_TOO_LOW" (equally: no/other available_blobs), glued to the correct blob bytes.
    data_received() feeds the bytes to the writer (complete + hash ok, in the same call); _download_blob() then
    rejects the response and closes; download_blob()'s finally sees "length only known from this peer, not
    verified, writeable, all writers closed" - the writer's done-callback that starts the save has not run yet -
    and sets blob.length = None.  One iteration later the save starts and the blob becomes verified.
    (commit c89734b closed this hole only for the time AFTER the save has started)
 2. an honest client asks this node's real blob server for X.
Expected: the node holds X verified, so the client ends with the verified byte-identical blob, the header names
exactly X's length.
"""
import asyncio
import json
import logging
import os
import sys

from harness import Node, connect, blob_hash_of
from lbry.blob_exchange.server import BlobServerProtocol
from lbry.blob_exchange.client import BlobExchangeClientProtocol

PEER_TIMEOUT = 2.0


class RejectedButSendsPeer(asyncio.Protocol):
    def __init__(self, data):
        self.data, self.buf, self.transport = data, b'', None

    def connection_made(self, transport):
        self.transport = transport

    def data_received(self, data):
        self.buf += data
        if self.buf.endswith(b'}'):
            wanted = json.loads(self.buf)['requested_blob']
            self.buf = b''
            self.transport.write(json.dumps({
                'incoming_blob': {'blob_hash': wanted, 'length': len(self.data)},
                'blob_data_payment_rate': 'RATE_TOO_LOW', 'available_blobs': [wanted]}).encode() + self.data)


async def main() -> int:
    loop = asyncio.get_running_loop()
    N, D = await Node(loop).start(), await Node(loop).start()
    loop_errors = []
    loop.set_exception_handler(lambda _loop, ctx: loop_errors.append(ctx.get('exception') or ctx.get('message')))
    try:
        data = os.urandom(5000)
        blob_hash = blob_hash_of(data)
        blob = N.bm.get_blob(blob_hash)                 # length unknown
        client = BlobExchangeClientProtocol(loop, PEER_TIMEOUT)
        connect(loop, client, RejectedButSendsPeer(data), ('1.2.3.9', 4000), ('1.2.3.66', 3333))
        try:
            step1 = await asyncio.wait_for(client.download_blob(blob), 5 * PEER_TIMEOUT)
        except BaseException as err:  # noqa
            step1 = type(err).__name__
        await asyncio.sleep(0.1)
        print(f"step 1: download_blob -> {step1}; node's blob: verified={blob.get_is_verified()} "
              f"length={blob.get_length()} in completed_blob_hashes={blob_hash in N.bm.completed_blob_hashes} "
              f"file size={os.path.getsize(os.path.join(N.dir, blob_hash)) if blob.get_is_verified() else None}")
        if not blob.get_is_verified():
            print("OK: the rejected response did not leave a blob behind (nothing to serve)")
            return 0

        # step 2: the node holds X verified -> an honest client must be able to get it from the node's server
        d_blob = D.bm.get_blob(blob_hash)
        d_client = BlobExchangeClientProtocol(loop, PEER_TIMEOUT)
        d_ct, n_st = connect(loop, d_client, BlobServerProtocol(loop, N.bm, 'addr', 30, 60),
                             ('1.2.3.7', 4000), ('1.2.3.9', 3333))
        try:
            step2 = await asyncio.wait_for(d_client.download_blob(d_blob), 5 * PEER_TIMEOUT)
        except BaseException as err:  # noqa
            step2 = f"raised {type(err).__name__}"
        await asyncio.sleep(0.1)
        header = json.JSONDecoder().raw_decode(b''.join(n_st.written).decode('latin-1'))[0] if n_st.written else None
        ok = d_blob.get_is_verified() and open(os.path.join(D.dir, blob_hash), 'rb').read() == data and \
            header['incoming_blob']['length'] == len(data) and blob_hash in N.bm.completed_blob_hashes and \
            blob.get_length() == len(data)
        if ok:
            print("OK: node holds the blob with its true length, recorded as completed; the honest client got it")
            return 0
        print("VIOLATION:")
        print(f"  - the node's verified blob has length {blob.get_length()}; blob_completed raised: {loop_errors[:1]}")
        print(f"  - header sent by the node's server: {dict(header['incoming_blob'], blob_hash=blob_hash[:8] + '...')}")
        print(f"  - honest client: download_blob {step2}, verified={d_blob.get_is_verified()}, "
              f"fatal error in its data_received: {d_ct.fatal!r}")
        return 1
    finally:
        await N.stop()
        await D.stop()


if __name__ == '__main__':
    logging.basicConfig(level=logging.CRITICAL)
    sys.exit(asyncio.run(main()))
