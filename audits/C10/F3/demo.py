"""
C10 / F3 - oversized malformed JSON from a peer freezes the whole client far beyond the configured timeouts.

BlobExchangeClientProtocol.data_received() keeps every byte received before a response could be parsed in
self.buf WITHOUT ANY BOUND and, for each new TCP segment, runs _parse_blob_response() again over the whole
buffer; that function calls json.loads() on the prefix ending at EVERY '}' of the buffer.  A peer that answers
a request with   {"a":"}}}}}}}}}...   (an unterminated JSON string made of '}') costs O(n^2) per segment and
O(n^3) per connection, all of it inside data_received, i.e. with the event loop blocked: the timeout of the
request cannot fire, other transfers are not served, nothing else in the daemon runs.
(64 KiB in one segment block the loop ~4 s on this machine, 256 KiB - one socket read - about a minute, 1 MiB hours.)

Demo: blob_download_timeout (peer_timeout) = 2.0 s. Connection 1 -> malicious peer sending 6 segments of 32 KiB.
Connection 2 (concurrently) -> honest real BlobServerProtocol with a 1 MiB blob, in 64 KiB segments.
Expected: connection 1 is closed/timed out within its configured timeout (2 s, we allow 3x), the loop never stalls
for longer than the timeout, the honest transfer is unaffected.
"""
import asyncio
import json
import logging
import os
import sys
import time

from harness import Node, connect
from lbry.blob_exchange.server import BlobServerProtocol
from lbry.blob_exchange.client import BlobExchangeClientProtocol

PEER_TIMEOUT = 2.0
SEGMENT = 32 * 1024
SEGMENTS = 6


class OversizedJsonPeer(asyncio.Protocol):
    def __init__(self, loop):
        self.loop, self.buf, self.transport, self.sent = loop, b'', None, 0

    def connection_made(self, transport):
        self.transport = transport

    def data_received(self, data):
        self.buf += data
        if self.buf.endswith(b'}'):
            self.buf = b''
            self.transport.write(b'{"a":"')
            self.loop.call_soon(self.more)

    def more(self):                      # one segment per loop iteration while the connection is open
        if self.transport.is_closing() or self.sent >= SEGMENTS:
            return
        self.sent += 1
        self.transport.write(b'}' * SEGMENT)
        self.loop.call_soon(self.more)


async def main() -> int:
    loop = asyncio.get_running_loop()
    H, C = await Node(loop).start(), await Node(loop).start()
    try:
        data = os.urandom(2 ** 20)
        honest_hash = await H.add_blob(data)
        evil_blob = C.bm.get_blob('ab' * 48, 1000)
        honest_blob = C.bm.get_blob(honest_hash, len(data))

        to_evil = BlobExchangeClientProtocol(loop, PEER_TIMEOUT)
        evil_ct, _ = connect(loop, to_evil, OversizedJsonPeer(loop), ('1.2.3.9', 4000), ('1.2.3.66', 3333))
        to_honest = BlobExchangeClientProtocol(loop, PEER_TIMEOUT)
        connect(loop, to_honest, BlobServerProtocol(loop, H.bm, 'addr', 30, 60), ('1.2.3.9', 4001), ('1.2.3.1', 3333),
                s2c=lambda d: [d[i:i + 65536] for i in range(0, len(d), 65536)])

        stall = {'max': 0.0}

        async def watchdog():            # measures for how long the event loop was not running at all
            last = time.perf_counter()
            while True:
                await asyncio.sleep(0.01)
                now = time.perf_counter()
                stall['max'] = max(stall['max'], now - last - 0.01)
                last = now
        wd = loop.create_task(watchdog())

        start = time.perf_counter()
        evil_task = loop.create_task(to_evil.download_blob(evil_blob))
        honest_task = loop.create_task(to_honest.download_blob(honest_blob))

        async def timed(task):
            try:
                result = await task
            except BaseException as err:  # noqa
                result = type(err).__name__
            return result, time.perf_counter() - start
        (evil_result, evil_time), (honest_result, honest_time) = await asyncio.gather(timed(evil_task), timed(honest_task))
        wd.cancel()

        problems = []
        if evil_time > 3 * PEER_TIMEOUT:
            problems.append(f"the connection to the malicious peer was only given up after {evil_time:.1f} s "
                            f"(configured timeout {PEER_TIMEOUT} s)")
        if stall['max'] > PEER_TIMEOUT:
            problems.append(f"the event loop was blocked for {stall['max']:.1f} s in one piece "
                            f"(nothing else is served meanwhile)")
        if not honest_blob.get_is_verified():
            problems.append(f"the concurrent honest transfer failed: {honest_result}")
        if evil_blob.get_is_verified() or not evil_ct.is_closing():
            problems.append("malicious connection not closed / blob verified")
        if not problems:
            print(f"OK: malicious connection closed after {evil_time:.2f} s, longest loop stall {stall['max']:.2f} s, "
                  f"honest transfer done after {honest_time:.2f} s")
            return 0
        print("VIOLATION (peer sent only %d KiB of malformed JSON):" % (SEGMENTS * SEGMENT // 1024))
        for p in problems:
            print("  -", p)
        print(f"  honest transfer: {honest_result} after {honest_time:.1f} s, verified={honest_blob.get_is_verified()}")
        return 1
    finally:
        await H.stop()
        await C.stop()


if __name__ == '__main__':
    logging.basicConfig(level=logging.ERROR, format='  [lbry log] %(name)s: %(message)s')
    sys.exit(asyncio.run(main()))
