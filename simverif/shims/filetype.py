"""Stub of the third-party ``filetype`` package (not installed, cannot be fetched)."""


def guess(_path_or_bytes):
    return None


def guess_mime(_path_or_bytes):
    return None
