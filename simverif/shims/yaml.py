"""Stub of PyYAML (not installed).  lbry.conf only touches it when a config file is read/written,
which the harness never does."""
import json


def safe_load(stream):
    if hasattr(stream, 'read'):
        stream = stream.read()
    return json.loads(stream) if stream and stream.strip() else None


def safe_dump(data, stream=None, **_):
    s = json.dumps(data)
    if stream is not None:
        stream.write(s)
        return None
    return s
