"""Stub of the third-party ``appdirs`` package (not installed, cannot be fetched)."""
import os


def user_data_dir(appname=None, *a, **k):
    return os.path.join('/nonexistent-verif', 'data', appname or '')


def user_config_dir(appname=None, *a, **k):
    return os.path.join('/nonexistent-verif', 'config', appname or '')


def user_cache_dir(appname=None, *a, **k):
    return os.path.join('/nonexistent-verif', 'cache', appname or '')
