"""C13 — wallet secrets, wrong password, atomic save (DESIGN.md §7 C13).

SUT: real Wallet / WalletStorage / Account / crypt helpers (+ real Ledger subclass and an open in-memory
Database, because `Wallet.unlock` primes deterministic channel keys through the database).
Stub: the file system — `SimFS` is the `open` / `os` of module `lbry.wallet.wallet`; a two-line
wallet-manager object for `Wallet.from_storage`.

Crash enumeration: every save of a history (explicit `save`, and the saves inside `encrypt` /
`decrypt`) is first executed fault-free against a copy of the settled SimFS (the reference: number of
operations, new file image), then re-executed once per crash point (before and after each SimFS
operation) against fresh copies; for every crash point both namespace models, every prefix of the
journalled namespace operations (model b) and a set of torn variants of the un-synced data are turned
into post-crash images; each distinct image of the wallet path is booted as a fresh SimFS incarnation
and read with the real `WalletStorage.read()`.
"""
import asyncio
import hashlib
import json
import unicodedata

from simverif.core import env
from simverif.core.run import Run, SimBudget, SimIdle
from simverif.core.rng import stream, H
from simverif.core.simfs import SimFS, SimFSCrash, SimFSError, Mount

ID = 'C13'
LEVEL = 'fault_enumeration'
TIERS = {'quick': {'runs': 1200}, 'thorough': {'seconds': 600}}
DET_PAIRS_PER_SLOT = 3
RULE = ("one run = one seeded history of 6..50 wallet operations (encrypt / lock / unlock with the right password, "
        "with a derived wrong password, with a searched wrong password that decrypts to valid PKCS7 padding / "
        "unlock with another / the empty password while the wallet is encrypted but not locked, a second unlock "
        "request overlapping a suspended unlock(right), another task saving while unlock is suspended / "
        "decrypt / add account / remove account / change preference / save / pack+unpack / process crash / reload / "
        "crash inside a save) over a generated account set (mnemonic-seeded HD with the seed phrase in canonical or "
        "user spelling [capitalised, upper-case, title-case, trailing full stop, extra spaces, Spanish word list, "
        "free text], private-key-only, watch-only, single-address, with channel keys) and generated passwords "
        "(ASCII, unicode with combining marks, 1..200 chars), on a file system with POSIX or (15 % of runs) Windows "
        "rename semantics. Every "
        "save is crash-enumerated: re-executed once per crash point (before and after each SimFS operation) x "
        "2 namespace models x journal prefixes x torn variants of un-synced data, each distinct post-crash image "
        "read back with the real WalletStorage.read(). Non-trivial = at least one save was crash-enumerated; "
        "distinct = distinct event-trace digest.")
COMPONENTS = {
    'real': ['lbry.wallet.wallet.Wallet', 'lbry.wallet.wallet.WalletStorage', 'lbry.wallet.wallet.TimestampedPreferences',
             'lbry.wallet.account.Account (+ address managers, DeterministicChannelKeyManager)',
             'lbry.crypto.crypt aes_encrypt/aes_decrypt/better_aes_encrypt/better_aes_decrypt/scrypt',
             'lbry.wallet.mnemonic.Mnemonic', 'lbry.wallet.bip32', 'lbry.wallet.ledger.Ledger (simnet subclass)',
             'lbry.wallet.database.Database(":memory:")'],
    'stub': ['file system: SimFS installed as `open`/`os` of lbry.wallet.wallet (durable + volatile image per file, '
             'numbered crash points, two namespace models)',
             'wallet manager (get_or_create_ledger only)', 'sqlite executors (inline on SimLoop)',
             'secrets.randbelow inside Mnemonic.make_seed (entropy comes from the scenario)',
             'event loop (SimLoop, virtual time)'],
}
ASSUMPTIONS = [
    'crashes only: no injected I/O errors (no EIO/ENOSPC); the file system follows POSIX rename semantics or, per '
    'run, Windows semantics (os.rename raises FileExistsError when the destination exists, os.replace overwrites '
    'atomically; sharing violations of open files are not modelled)',
    'between two history operations enough time passes for write-back and journal commit (SimFS.settle): only the '
    'effects of the interrupted save are uncertain at a crash',
    'un-synced data survive as an arbitrary byte prefix; a truncate+rewrite survives as the old content or a prefix '
    'of the new content; journalled namespace operations survive as a prefix of their program order',
    'namespace model a: directory operations durable immediately, rename is a data barrier for the renamed file; '
    'model b: rename/create can be persisted without the data they expose, and a suffix of namespace operations '
    'can be lost (nothing fsyncs the directory)',
    'a password is "wrong" only if some encrypted secret-bearing account was encrypted under another one: a wallet '
    'whose only encrypted accounts are watch-only has nothing to decrypt and accepts any password (noted, not a '
    'finding); after a refusal EVERY account, watch-only included, must be as before',
    'channel certificates are stored in clear by design and are excluded from the plaintext scan',
    'unlock with another password on a wallet that is encrypted but not locked may answer anything, but must leave '
    'the wallet (accounts and the password used by later saves / lock) unchanged',
    '"fails to unlock" = Wallet.unlock returns False or raises InvalidPasswordError/ValueError',
    'schedules: one other task may call Wallet.save() while unlock(right password) is suspended in the database '
    '(encryption is enabled and the user has supplied the password: that save must not write secrets in clear)',
]
EXPECTED_PROBES = [
    'save_enumerated', 'crash_points', 'images_checked', 'images_distinct', 'image_old', 'image_new', 'image_absent_ok',
    'torn_variants', 'multi_chunk_save', 'first_save_no_previous_file', 'save_encrypted', 'save_plain', 'save_locked',
    'save_pref_reset', 'save_in_encrypt', 'save_in_decrypt', 'plaintext_scan', 'unlock_right', 'unlock_wrong',
    'unlock_wrong_valid_padding', 'unlock_after_wrong_ok', 'wrong_pw_normalization_variant',
    'wrong_pw_previous_password', 'unicode_password',
    'combining_password', 'long_password', 'one_char_password', 'watch_only_wallet', 'watch_only_unlock_any',
    'wrong_pw_after_watch_only_account', 'acct_seed', 'acct_key', 'acct_watch', 'acct_single', 'acct_certs',
    'reload_encrypted', 'reload_plain', 'unlock_after_reload', 'secrets_compared', 'pack_roundtrip',
    'unpack_wrong_raised', 'crash_in_save_old', 'crash_in_save_new', 'add_account_while_locked', 'process_crash',
    'ns_journal_prefixes', 'completed_save_verified', 'remove_account', 'pid_changed', 'crash_left_temp_file',
    'stale_tmp_at_save', 'stale_tmp_reused', 'stale_tmp_longer_than_new', 'crash_in_save_pre_rename',
    'crash_in_save_post_write', 'crash_in_save_mid_write', 'race_save_during_unlock',
    'acct_seed_noncanonical_text', 'unlock_right_noncanonical_seed_text', 'unlock_other_pw_on_unlocked_wallet',
    'unlock_empty_pw_on_unlocked_wallet', 'overlapping_unlock', 'refused_unlock_all_accounts_compared',
    'fs_posix', 'fs_windows', 'windows_rename_refused',
]

def extra_coverage(cov):
    p = cov.get('probes', {})
    saves = p.get('save_enumerated', 0)
    return {
        'crash_points_per_save': round(p.get('crash_points', 0) / saves, 1) if saves else 0,
        'post_crash_images_per_save': round(p.get('images_checked', 0) / saves, 1) if saves else 0,
    }


WALLET_DIR = '/sim/wallets'
WALLET_PATH = WALLET_DIR + '/default_wallet'
ENCRYPT_ON_DISK = 'encrypt-on-disk'

# ---------------------------------------------------------------------------------------------------
# generation (pure function of the run seed)
# ---------------------------------------------------------------------------------------------------

_ASCII = ''.join(chr(c) for c in range(32, 127))
_UNI_POOLS = [
    '\u00e9\u00fc\u00f1\u00df\u00f8\u00c5\u00e7\u0153',            # precomposed latin
    '\u5bc6\u7801\u53e3\u4ee4\u77ed\u8bed\u9470',                  # CJK
    '\u043f\u0430\u0440\u043e\u043b\u044c\u0416',                  # cyrillic
    '\u0643\u0644\u0645\u0629\u05e1\u05d9\u05e1\u05de\u05d4',      # arabic / hebrew
    '\U0001f600\U0001f511\U0001f9ea\U0001f980',                    # astral emoji
    '\u200d\u200b\u00a0\u3000\ufeff',                              # invisible / odd spaces
    '\uff21\uff22\uff11\uff12\ufb01\u01c5\u2126\u212b',            # compatibility forms (NFKC-sensitive)
]
_COMBINING = '\u0300\u0301\u0302\u0303\u0308\u030a\u0323\u0327\u0328\u0338\u20d7'


def _gen_password(r):
    cls = r.choices(['ascii1', 'ascii', 'long', 'unicode', 'combining', 'space', 'ctrl', 'unilong'],
                    [2, 6, 2, 4, 4, 1, 1, 1])[0]
    if cls == 'ascii1':
        return r.choice(_ASCII.strip() or 'x')
    if cls == 'ascii':
        return ''.join(r.choice(_ASCII) for _ in range(r.randint(2, 24))).strip() or 'pw'
    if cls == 'long':
        n = r.choice([64, 127, 128, 199, 200])
        return ''.join(r.choice(_ASCII) for _ in range(n - 2)).join('<>')
    if cls == 'unicode':
        pool = ''.join(r.sample(_UNI_POOLS, r.randint(1, 3))) + 'abcXYZ019'
        return ''.join(r.choice(pool) for _ in range(r.randint(1, 20)))
    if cls == 'combining':
        out = []
        for _ in range(r.randint(1, 8)):
            out.append(r.choice('aeiouAEOnNcsyZ'))
            out.extend(r.choice(_COMBINING) for _ in range(r.randint(1, 4)))
        return ''.join(out)
    if cls == 'space':
        core = ''.join(r.choice(_ASCII) for _ in range(r.randint(1, 8)))
        return r.choice([' ', '\t', '  ']) + core + r.choice([' ', '\n', '\r\n', ''])
    if cls == 'ctrl':
        return ''.join(r.choice('\x00\x01\x7f"\\/{}[]:,\'') for _ in range(r.randint(1, 10)))
    pool = ''.join(_UNI_POOLS) + _COMBINING
    return ''.join(r.choice(pool) for _ in range(r.choice([100, 200])))


def _gen_account(r, kind=None):
    kind = kind or r.choices(['seed', 'key', 'watch'], [6, 3, 2])[0]
    spec = {'kind': kind, 'entropy': r.getrandbits(128), 'gen': r.choices(['hd', 'single', 'default'], [4, 3, 3])[0],
            'certs': r.choices([0, 1, 2, 3], [6, 2, 1, 1])[0]}
    if spec['gen'] == 'hd':
        spec['gap'] = [r.choice([1, 6, 20, 37]), r.choice([1, 6, 20])]
    if r.random() < 0.3:
        spec['name'] = r.choice(['main', 'café \U0001f980', 'a"b\\c', ' spaced ', '密码'])
    return spec


def _gen_pref(r):
    key = r.choice(['shared', 'local', 'theme', 'café', 'k"ey', '密', 'x' * 40])
    kind = r.choice(['str', 'int', 'dict', 'list', 'uni', 'bool', 'none'])
    if kind == 'str':
        val = ''.join(r.choice(_ASCII) for _ in range(r.choice([0, 3, 40, 300])))
    elif kind == 'int':
        val = r.choice([0, -1, 2 ** 40, 7])
    elif kind == 'dict':
        val = {'a': r.randrange(100), 'nested': {'b': [1, 2, {'c': 'd'}]}, 'subscriptions': ['x' * r.randrange(30)]}
    elif kind == 'list':
        val = [r.randrange(1000) for _ in range(r.choice([0, 3, 60]))]
    elif kind == 'uni':
        val = ''.join(r.choice(''.join(_UNI_POOLS)) for _ in range(r.choice([1, 10, 100])))
    elif kind == 'bool':
        val = r.random() < 0.5
    else:
        val = None
    return key, val


_WRONG_VARIANTS = ['other', 'previous', 'previous', 'trunc', 'append', 'swapcase', 'norm', 'bump', 'prefix_space',
                   'empty', 'double']
# spellings of a seed phrase that Account.from_dict accepts (Mnemonic.mnemonic_to_seed normalises any text)
_SEED_TEXTS = ['capitalize', 'upper', 'title', 'fullstop', 'spaces', 'spanish', 'free']


def gen(run_seed, tier):
    r = stream('C13.gen', run_seed)
    quick = tier == 'quick'
    family = 'crash' if r.random() < 0.4 else 'nofault'
    n_ops = r.choice([6, 10, 14, 20]) if quick else r.choice([10, 20, 30, 50])
    wk = r.choices(['mixed', 'watch_only', 'one', 'watch_first', 'empty'], [60, 7, 20, 11, 2])[0]
    if wk == 'mixed':
        accounts = [_gen_account(r) for _ in range(r.choice([1, 2, 2, 3, 4]))]
    elif wk == 'watch_only':
        accounts = [_gen_account(r, 'watch') for _ in range(r.choice([1, 2]))]
    elif wk == 'one':
        accounts = [_gen_account(r, r.choice(['seed', 'seed', 'key']))]
    elif wk == 'watch_first':
        accounts = [_gen_account(r, 'watch')] + [_gen_account(r, r.choice(['seed', 'key']))
                                                 for _ in range(r.choice([1, 2]))]
    else:
        accounts = []
    passwords = []
    for _ in range(r.choice([2, 3, 4])):
        p = _gen_password(r)
        while p in passwords or not p:
            p += 'x'
        passwords.append(p)
    use_pack = r.random() < 0.10
    has_secret = any(a['kind'] != 'watch' for a in accounts)
    n_acc = len(accounts)
    pw_set = locked = pref = disk_locked = False
    disk_n_acc = 0
    ops = []

    def emit_save():
        nonlocal pref, disk_locked, disk_n_acc
        if pref and not pw_set and not locked:
            pref = False
        disk_locked = n_acc > 0 and (locked or (pref and pw_set))
        disk_n_acc = n_acc

    def crash_args(at):
        return {'op': 'save_crash', 'point': round(r.random(), 4), 'when': r.choice(['before', 'after']),
                'model': r.choice(['a', 'b']), 'tear': r.choice([None, -1, 0.0, 0.5, 0.99, round(r.random(), 3)]),
                'ns_lost': r.choice([0, 0, 0, 1, 2]), 'at': at}

    while len(ops) < n_ops:
        cand = {'save': 4.0, 'pref': 2.0, 'pref_big': 0.5, 'pref_encrypt': 0.8, 'reload': 1.2}
        if not locked:
            cand['encrypt'] = 4.0 if not pw_set else 1.5
            cand['decrypt'] = 1.2
            if use_pack:
                cand['pack'] = 2.0
        if pw_set and n_acc:
            cand['lock'] = 5.0 if not locked else 0.5
        if locked:
            cand['unlock_right'] = 5.0
            cand['unlock_wrong'] = 6.0
            cand['unlock_vp'] = 1.5
        if n_acc < 5:
            cand['add_account'] = 1.5
        if n_acc >= 2:
            cand['remove_account'] = 0.8
        cand['pref_shrink'] = 0.5
        if family == 'crash':
            cand['crash'] = 1.2
            cand['save_crash'] = 2.5
            cand['stale_tmp'] = 2.0
        kinds, weights = zip(*cand.items())
        kind = r.choices(kinds, weights)[0]
        if kind == 'save':
            ops.append({'op': 'save'})
            emit_save()
        elif kind == 'pref':
            k, v = _gen_pref(r)
            ops.append({'op': 'pref', 'key': k, 'value': v})
        elif kind == 'pref_big':
            ops.append({'op': 'pref', 'key': 'blob', 'value': 'B' * r.choice([3000, 9000, 20000, 40000])})
        elif kind == 'pref_encrypt':
            v = r.random() < 0.6
            ops.append({'op': 'pref_encrypt', 'value': v})
            pref = v
        elif kind == 'encrypt':
            ops.append({'op': 'encrypt', 'pw': r.randrange(len(passwords))})
            pw_set, pref = True, True
            emit_save()
        elif kind == 'decrypt':
            ops.append({'op': 'decrypt'})
            pref = False
            emit_save()
        elif kind == 'lock':
            ops.append({'op': 'lock'})
            locked = n_acc > 0
        elif kind == 'unlock_right':
            ops.append({'op': 'unlock', 'pw': 'right'})
            locked, pw_set = False, True
        elif kind in ('unlock_wrong', 'unlock_vp'):
            if kind == 'unlock_vp':
                ops.append({'op': 'unlock', 'pw': 'valid_padding'})
            else:
                ops.append({'op': 'unlock', 'pw': 'wrong', 'variant': r.choice(_WRONG_VARIANTS),
                            'alt': r.randrange(len(passwords))})
            if not has_secret:
                locked, pw_set = False, True
            elif r.random() < 0.6:
                ops.append({'op': 'unlock', 'pw': 'right'})
                locked, pw_set = False, True
        elif kind == 'add_account':
            spec = _gen_account(r)
            ops.append({'op': 'add_account', 'spec': spec})
            n_acc += 1
            has_secret = has_secret or spec['kind'] != 'watch'
        elif kind == 'pack':
            ops.append({'op': 'pack', 'pw': r.randrange(len(passwords)),
                        'wrong': r.choice([None, 'other', 'append', 'norm', 'trunc'])})
        elif kind == 'remove_account':
            ops.append({'op': 'remove_account', 'pick': round(r.random(), 3)})
            n_acc -= 1
        elif kind == 'pref_shrink':
            ops.append({'op': 'pref_shrink'})
        elif kind in ('crash', 'reload'):
            ops.append({'op': kind})
            pw_set, locked, n_acc = False, disk_locked, disk_n_acc
        elif kind == 'save_crash':
            ops.append(crash_args(r.choice([None, None, None, 'pre_rename', 'post_write', 'mid_write'])))
            emit_save()
            pw_set, locked = False, disk_locked
        elif kind == 'stale_tmp':
            # a save that dies once its temporary copy is (partly) written but not yet moved in place, then --
            # after the restart -- a complete save of a SMALLER wallet, then a reload of what that save left
            if n_acc < 5 and r.random() < 0.6:
                ops.append({'op': 'add_account', 'spec': _gen_account(r)})
            else:
                ops.append({'op': 'pref', 'key': 'blob', 'value': 'B' * r.choice([2000, 6000, 15000])})
            at = r.choices(['pre_rename', 'post_write', 'mid_write'], [6, 2, 2])[0]
            ops.append(dict(crash_args(at), ns_lost=0, tear=None if at == 'pre_rename' else r.choice([None, 0.5, 0.99])))
            pw_set, locked, n_acc = False, disk_locked, disk_n_acc     # the disk still holds the previous version
            if locked and r.random() < 0.5:
                ops.append({'op': 'unlock', 'pw': 'right'})
                locked, pw_set = False, True
            how = r.choice(['remove_account', 'pref_shrink', 'both', 'none'])
            if how in ('remove_account', 'both') and n_acc >= 2:
                ops.append({'op': 'remove_account', 'pick': round(r.random(), 3)})
                n_acc -= 1
            if how in ('pref_shrink', 'both'):
                ops.append({'op': 'pref_shrink'})
            ops.append({'op': 'save'})
            emit_save()
            if r.random() < 0.7:
                ops.append({'op': 'reload'})
                pw_set, locked = False, disk_locked
    # closing sequence: whatever state was reached must survive a save + restart + unlock
    ops.append({'op': 'save'})
    emit_save()
    ops.append({'op': 'reload'})
    if disk_locked:
        if r.random() < 0.5:
            ops.append({'op': 'unlock', 'pw': 'wrong', 'variant': r.choice(_WRONG_VARIANTS),
                        'alt': r.randrange(len(passwords))})
        ops.append({'op': 'unlock', 'pw': 'right'})
    # another task of the daemon saves the wallet while unlock() is suspended in the database (its own stream,
    # so the histories of earlier versions of this generator are unchanged)
    rr = stream('C13.gen.race', run_seed)
    for op in ops:
        if op['op'] == 'unlock' and op.get('pw') == 'right' and rr.random() < 0.35:
            op['race_save'] = rr.choice([1, 1, 2, 2, 3, 5, 8])
    # the features below draw from their own streams, so everything generated above stays what it was
    # (a) seed phrases as users type them: not the canonical lower-case English spelling
    rs = stream('C13.gen.seedtext', run_seed)
    for spec in accounts + [op['spec'] for op in ops if op['op'] == 'add_account']:
        if spec['kind'] == 'seed' and rs.random() < 0.15:
            spec['seedtext'] = rs.choice(_SEED_TEXTS)
    # (b) unlock(some other password) on a wallet that is encrypted but NOT locked (nothing to decrypt)
    ru = stream('C13.gen.unlock_unlocked', run_seed)
    with_extra = []
    for op in ops:
        with_extra.append(op)
        if (op['op'] == 'encrypt' or (op['op'] == 'unlock' and op.get('pw') == 'right')) and ru.random() < 0.12:
            with_extra.append({'op': 'unlock_unlocked', 'alt': ru.randrange(len(passwords)),
                               'variant': ru.choice(['other', 'other', 'empty', 'empty', 'previous', 'trunc', 'append',
                                                     'swapcase', 'norm', 'double'])})
    ops = with_extra
    # (c) a second unlock request with another password while unlock(right password) is suspended in the database
    ro = stream('C13.gen.race_unlock', run_seed)
    for op in ops:
        if op['op'] == 'unlock' and op.get('pw') == 'right' and 'race_save' not in op and ro.random() < 0.15:
            op['race_unlock'] = {'k': ro.choice([1, 1, 2, 3, 5]), 'alt': ro.randrange(len(passwords)),
                                 'variant': ro.choice(['other', 'trunc', 'append', 'swapcase', 'empty', 'bump'])}
    # (d) the platform the fallback in WalletStorage.write exists for: rename never replaces an existing file
    fs_semantics = 'windows' if stream('C13.gen.fs', run_seed).random() < 0.15 else 'posix'
    return {'family': family, 'fs_semantics': fs_semantics, 'pid_mode': r.choices(['same', 'change'], [3, 1])[0],
            'chunk': r.choice([512, 1024, 4096, 4096, 4096, 8192, 65536]),
            'bufsize': r.choice([8192, 8192, 4096, 1 << 20]), 'tear_extra': r.choice([1, 2, 4]),
            'accounts': accounts, 'passwords': passwords, 'ops': ops}


def shrink(sc):
    if sc.get('family') != 'nofault' and not any(o.get('op') in ('crash', 'save_crash') for o in sc['ops']):
        yield dict(sc, family='nofault')
    accs = sc.get('accounts', [])
    for i in range(len(accs)):
        yield dict(sc, accounts=accs[:i] + accs[i + 1:])
    for i, a in enumerate(accs):
        simple = {'kind': a['kind'], 'entropy': a['entropy'], 'gen': 'default', 'certs': 0}
        if a.get('seedtext'):
            simple['seedtext'] = a['seedtext']
        if a != simple:
            yield dict(sc, accounts=accs[:i] + [simple] + accs[i + 1:])
    plain = [f'pw{i}' for i in range(len(sc.get('passwords', [])))]
    if sc.get('passwords') != plain:
        yield dict(sc, passwords=plain)
    if sc.get('pid_mode', 'same') != 'same':
        yield dict(sc, pid_mode='same')
    if sc.get('fs_semantics', 'posix') != 'posix':
        yield dict(sc, fs_semantics='posix')
    for i, a in enumerate(accs):
        if a.get('seedtext'):
            yield dict(sc, accounts=accs[:i] + [{k: v for k, v in a.items() if k != 'seedtext'}] + accs[i + 1:])
    for i, op in enumerate(sc['ops']):
        for extra in ('race_save', 'race_unlock'):
            if extra in op:
                ops = list(sc['ops'])
                ops[i] = {k: v for k, v in op.items() if k != extra}
                yield dict(sc, ops=ops)
    if sc.get('chunk') != 4096:
        yield dict(sc, chunk=4096)
    if sc.get('bufsize') != 8192:
        yield dict(sc, bufsize=8192)
    if sc.get('tear_extra', 1) != 1:
        yield dict(sc, tear_extra=1)
    for i, op in enumerate(sc['ops']):
        if op.get('op') == 'pref' and op.get('value') not in (1, None):
            ops = list(sc['ops'])
            ops[i] = dict(op, key='k', value=1)
            yield dict(sc, ops=ops)
        if op.get('op') == 'save_crash':
            ops = list(sc['ops'])
            ops[i] = {'op': 'save'}
            yield dict(sc, ops=ops)
        if op.get('op') in ('crash',):
            ops = list(sc['ops'])
            ops[i] = {'op': 'reload'}
            yield dict(sc, ops=ops)


# ---------------------------------------------------------------------------------------------------
# helpers
# ---------------------------------------------------------------------------------------------------

_LEDGER_CLS = None
_SEED_CACHE = {}


def _ledger_class():
    global _LEDGER_CLS
    if _LEDGER_CLS is None:
        from lbry.wallet.ledger import Ledger, LedgerRegistry
        existing = LedgerRegistry.ledgers.get('lbc_simnet')
        if existing is not None:
            _LEDGER_CLS = existing
        else:
            class SimnetLedger(Ledger):
                network_name = 'simnet'
                checkpoints = {}
            _LEDGER_CLS = SimnetLedger
    return _LEDGER_CLS


def _mnemonic_seed(entropy):
    """Real Mnemonic.make_seed() with the scenario's entropy instead of secrets.randbelow."""
    phrase = _SEED_CACHE.get(entropy)
    if phrase is None:
        import lbry.wallet.mnemonic as mn
        saved = mn.randbelow
        mn.randbelow = lambda n: (1 << 122) + entropy % ((1 << 132) - (1 << 122))
        try:
            phrase = mn.Mnemonic().make_seed()
        finally:
            mn.randbelow = saved
        if len(_SEED_CACHE) > 4096:
            _SEED_CACHE.clear()
        _SEED_CACHE[entropy] = phrase
    return phrase


def _seed_text(phrase, variant, entropy):
    """The generated mnemonic `phrase` the way a user may type / import it.  Every result is accepted by
    Account.from_dict (some derive other keys than the canonical phrase: it is simply another seed)."""
    if variant == 'capitalize':
        return phrase.capitalize()
    if variant == 'upper':
        return phrase.upper()
    if variant == 'title':
        return phrase.title()
    if variant == 'fullstop':
        return phrase + '.'
    if variant == 'spaces':
        return ' ' + phrase.replace(' ', '  ', 3) + ' '
    if variant == 'spanish':
        from lbry.wallet.words import spanish
        return ' '.join(spanish.words[(entropy >> (11 * i)) % len(spanish.words)] for i in range(12))
    if variant == 'free':
        return f'foobar {entropy % 1000003}'
    return phrase


def _wrong_password(right, variant, alt):
    """A password different from `right`, derived deterministically."""
    if variant == 'other':
        q = alt
    elif variant == 'trunc':
        q = right[:-1]
    elif variant == 'append':
        q = right + ' '
    elif variant == 'swapcase':
        q = right.swapcase()
    elif variant == 'norm':
        q = right
        for form in ('NFC', 'NFD', 'NFKC', 'NFKD'):
            q = unicodedata.normalize(form, right)
            if q != right:
                break
        if q == right:
            q = right + '\u0301'
    elif variant == 'bump':
        q = right[:-1] + chr((ord(right[-1]) + 1) % 0xD800 or 1) if right else 'x'
    elif variant == 'prefix_space':
        q = ' ' + right
    elif variant == 'empty':
        q = ''
    elif variant == 'double':
        q = right + right
    else:
        q = right + 'x'
    if q == right or _kdf_equivalent(q, right):
        q = right + 'x'
    return q


def _kdf_equivalent(a, b):
    """pack/unpack derive the key with scrypt, i.e. PBKDF2-HMAC-SHA256 keyed by the password: HMAC pads a
    key shorter than its 64-byte block with zero bytes, so two passwords of <= 64 encoded bytes that differ
    only in trailing NUL characters ARE the same key for every HMAC-based KDF.  That is a property of the
    primitive, not of lbry; such a pair is not "another password" for the purposes of the wrong-password
    clauses (a first version of the oracle flagged unpack('x\\0'-truncated-to-'x') as a leak)."""
    ea, eb = a.encode('utf-8', 'surrogatepass'), b.encode('utf-8', 'surrogatepass')
    return len(ea) <= 64 and len(eb) <= 64 and ea.rstrip(b'\0') == eb.rstrip(b'\0')


def _ref_padding_valid(password, raw):
    """Independent AES-256-CBC last-block check: does `password` decrypt `raw` (iv + blocks) to valid PKCS7 padding?"""
    from cryptography.hazmat.primitives.ciphers import Cipher, modes
    from cryptography.hazmat.primitives.ciphers.algorithms import AES
    key = hashlib.sha256(hashlib.sha256(password.encode()).digest()).digest()
    dec = Cipher(AES(key), modes.ECB()).decryptor()
    block = dec.update(raw[-16:]) + dec.finalize()
    plain = bytes(a ^ b for a, b in zip(block, raw[-32:-16]))
    n = plain[-1]
    return 1 <= n <= 16 and plain[-n:] == bytes([n]) * n


def _ciphertext_bytes(b64_ciphertext):
    import base64
    try:
        raw = base64.b64decode(b64_ciphertext.encode(), validate=True)
    except ValueError:
        return None      # not a ciphertext the reference understands: no targeted password, nothing else
    return raw if len(raw) >= 32 and len(raw) % 16 == 0 else None


def _sha(b):
    return hashlib.sha256(b).hexdigest()[:12]


class _Manager:
    def __init__(self, ledger):
        self.ledger = ledger

    def get_or_create_ledger(self, ledger_id):
        if ledger_id != self.ledger.get_id():
            raise ValueError(f'unknown ledger {ledger_id}')
        return self.ledger


class _MAcct:
    """Model of one account: the original secrets and the password its secrets are encrypted under."""
    __slots__ = ('orig', 'enc')

    def __init__(self, orig, enc=None):
        self.orig = orig
        self.enc = enc

    @property
    def secret(self):
        return self.orig['kind'] != 'watch'


class _Stop(Exception):
    """A violation was recorded: leave the history."""


# ---------------------------------------------------------------------------------------------------
# execution
# ---------------------------------------------------------------------------------------------------

def execute(scenario, keep_trace=False):
    env.import_lbry()
    from simverif.core.loop import _InertExecutor
    import lbry.wallet.database as dbm
    dbm.ThreadPoolExecutor = _InertExecutor
    dbm.ReaderExecutorClass = _InertExecutor
    import lbry.wallet.wallet as wmod
    from lbry.wallet.wallet import Wallet, WalletStorage
    from lbry.wallet.account import Account
    from lbry.wallet.database import Database
    from lbry.wallet.header import Headers
    from lbry.wallet.bip32 import PrivateKey
    from lbry.error import InvalidPasswordError

    run = Run(scenario, keep_trace)
    P, F = run.probes, run.faults
    passwords = [p for p in scenario.get('passwords', []) if isinstance(p, str) and p] or ['pw0', 'pw1']
    ops = scenario.get('ops', [])
    tear_extra = int(scenario.get('tear_extra', 1))

    base_pid = 4242
    pid_changes = scenario.get('pid_mode', 'same') == 'change'
    fs_semantics = 'windows' if scenario.get('fs_semantics') == 'windows' else 'posix'
    fs0 = SimFS(chunk=scenario.get('chunk', 4096), bufsize=scenario.get('bufsize', 8192), pid=base_pid,
                semantics=fs_semantics)
    fs0.mkdir(WALLET_DIR)
    P['fs_' + fs_semantics] += 1
    del SimFSError.raised[:]
    mount = Mount(fs0).install(wmod)

    # ---- the reference model ------------------------------------------------------------------
    class M:
        accounts = []        # list of _MAcct, aligned with wallet.accounts
        password = None      # what Wallet.encryption_password should be
        pref = False         # ENCRYPT_ON_DISK
        disk = None          # None (no file yet) or {'accounts': [(orig, enc)], 'pref': bool}
        last_unlock_failed = False
        reloaded_locked = False
        previous_password = None   # a password that was valid once and has been replaced by `encrypt`

    st = {'i': 0, 'saves': 0, 'wallet': None, 'ledger': None}

    def m_locked():
        return any(a.enc is not None for a in M.accounts)

    def right_password():
        for a in M.accounts:
            if a.enc is not None and a.secret:
                return a.enc
        return None

    def note_password(p):
        if any(ord(c) > 127 for c in p):
            P['unicode_password'] += 1
        if any(unicodedata.combining(c) for c in p):
            P['combining_password'] += 1
        if len(p) >= 100:
            P['long_password'] += 1
        if len(p) == 1:
            P['one_char_password'] += 1

    def bad(kind, detail, **site):
        run.violation(kind, detail, **site)
        raise _Stop()

    def unexpected(where, e):
        run.ev('exception', where, type(e).__name__)
        bad('C13.exception', f'{where} raised {type(e).__name__}: {e}', where=where, exc=type(e).__name__)

    # ---- accounts -------------------------------------------------------------------------------
    def account_dict(ledger, spec):
        kind = spec.get('kind', 'seed')
        entropy = int(spec.get('entropy', 1)) % (1 << 128)
        d = {'ledger': ledger.get_id()}
        root = PrivateKey.from_seed(ledger, hashlib.sha256(b'C13-key-%d' % entropy).digest())
        if kind == 'seed':
            d['seed'] = _seed_text(_mnemonic_seed(entropy), spec.get('seedtext'), entropy)
        elif kind == 'key':
            d['private_key'] = root.extended_key_string()
            d['public_key'] = root.public_key.extended_key_string()
        else:
            d['public_key'] = root.public_key.extended_key_string()
        g = spec.get('gen', 'default')
        if g == 'single':
            d['address_generator'] = {'name': 'single-address'}
        elif g == 'hd':
            gap = spec.get('gap', [20, 6])
            d['address_generator'] = {'name': 'deterministic-chain',
                                      'receiving': {'gap': int(gap[0]), 'maximum_uses_per_address': 1},
                                      'change': {'gap': int(gap[1]), 'maximum_uses_per_address': 1}}
        if spec.get('name'):
            d['name'] = spec['name']
        certs = {}
        for j in range(int(spec.get('certs', 0))):
            ck = PrivateKey.from_seed(ledger, hashlib.sha256(b'C13-cert-%d-%d' % (entropy, j)).digest())
            certs[ck.address] = ck.to_pem().decode()
        if certs:
            d['certificates'] = certs
        return d

    def add_account(ledger, wallet, spec):
        d = account_dict(ledger, spec)
        acc = Account.from_dict(ledger, wallet, d)
        kind = spec.get('kind', 'seed')
        pk = acc.private_key
        orig = {
            'kind': kind, 'single': spec.get('gen') == 'single',
            'seedtext': (spec.get('seedtext') if spec.get('seedtext') in _SEED_TEXTS else 'canonical')
            if kind == 'seed' else '-',
            'seed': acc.seed if kind == 'seed' else '',
            'xprv': pk.extended_key_string() if pk is not None else None,
            'hex': pk.private_key_bytes.hex() if pk is not None else None,
            'xpub': acc.public_key.extended_key_string(),
            'recv0': (acc.receiving.get_private_key(0).address if pk is not None
                      else acc.receiving.get_public_key(0).address),
            'chg0': (acc.change.get_private_key(0).address if pk is not None
                     else acc.change.get_public_key(0).address),
        }
        if kind == 'seed' and orig['seed'] != d['seed']:
            raise RuntimeError('harness: account did not keep the generated seed')
        if (kind == 'watch') != (pk is None):
            raise RuntimeError('harness: account kind / private key mismatch')
        M.accounts.append(_MAcct(orig, None))
        P['acct_' + kind] += 1
        if orig['seedtext'] not in ('canonical', '-'):
            P['acct_seed_noncanonical_text'] += 1
        if orig['single']:
            P['acct_single'] += 1
        if spec.get('certs'):
            P['acct_certs'] += 1
        return acc

    def compare_account(acc, orig, kind, where):
        """Seed, private key and first addresses of an account the model says is in the clear."""
        P['secrets_compared'] += 1
        if acc.encrypted:
            bad(kind, f'{where}: {orig["kind"]} account is still marked encrypted', field='encrypted', acct=orig['kind'])
        if acc.public_key.extended_key_string() != orig['xpub']:
            bad(kind, f'{where}: public key differs', field='public_key', acct=orig['kind'])
        if orig['kind'] == 'watch':
            return
        if acc.seed != orig['seed']:
            bad(kind, f'{where}: seed differs from the original ({len(acc.seed)} vs {len(orig["seed"])} chars)',
                field='seed', acct=orig['kind'])
        pk = acc.private_key
        if pk is None:
            bad(kind, f'{where}: private key is missing', field='private_key', acct=orig['kind'])
        if pk.extended_key_string() != orig['xprv'] or pk.private_key_bytes.hex() != orig['hex']:
            bad(kind, f'{where}: private key differs from the original', field='private_key', acct=orig['kind'])
        if acc.receiving.get_private_key(0).address != orig['recv0'] or \
                acc.change.get_private_key(0).address != orig['chg0'] or \
                acc.receiving.get_public_key(0).address != orig['recv0']:
            bad(kind, f'{where}: first receiving/change address differs', field='address', acct=orig['kind'])

    def compare_clear_accounts(wallet, kind, where):
        for acc, m in zip(wallet.accounts, M.accounts):
            if m.enc is None:
                compare_account(acc, m.orig, kind, where)

    def sync_watch_flags(wallet):
        """The `encrypted` flag of a watch-only account protects nothing; the model just follows it."""
        for acc, m in zip(wallet.accounts, M.accounts):
            if not m.secret:
                m.enc = (m.enc if m.enc is not None else '\x00flag-only') if acc.encrypted else None

    # ---- saving with crash enumeration ----------------------------------------------------------
    def model_save(commit=True):
        locked = m_locked()
        pref = M.pref
        if pref and M.password is not None:
            enc = [a.enc if a.enc is not None else M.password for a in M.accounts]
            mode = 'save_encrypted'
        else:
            if pref and not locked:
                pref = False
                mode = 'save_pref_reset'
            else:
                mode = 'save_locked' if locked else 'save_plain'
            enc = [a.enc for a in M.accounts]
        disk = {'accounts': [(a.orig, e) for a, e in zip(M.accounts, enc)], 'pref': pref}
        if commit:
            M.pref = pref
            M.disk = disk
            P[mode] += 1
        return disk

    def product_read(image_fs):
        prev = mount.fs
        mount.fs = image_fs
        try:
            return WalletStorage(WALLET_PATH).read()
        finally:
            mount.fs = prev

    def scan_plaintext(ref, context='encryption enabled and password set'):
        P['plaintext_scan'] += 1
        streams = []
        for path in sorted(set(ref.offered) | set(ref.written)):
            streams.append((path, bytes(ref.offered.get(path, b''))))
            streams.append((path, bytes(ref.written.get(path, b''))))
        touched = {path for _, _, path, _ in ref.log} | {WALLET_PATH}
        for path, content in sorted(ref.listing().items()):
            if path in touched:     # a leftover of a crashed save made *before* encryption was enabled is not
                streams.append((path, content))   # "written while encryption is enabled" (noted, outside the statement)
            else:
                P['untouched_leftover_not_scanned'] += 1
        for m in M.accounts:
            o = m.orig
            if o['kind'] == 'watch':
                continue
            needles = [('xprv', o['xprv'].encode()), ('privkey_hex', o['hex'].encode()),
                       ('privkey_hex', o['hex'].upper().encode())]
            if o['seed']:
                needles.append(('seed', o['seed'].encode()))
                escaped = json.dumps(o['seed'])[1:-1].encode()     # how json.dumps writes a non-ASCII phrase
                if escaped != needles[-1][1]:
                    needles.append(('seed', escaped))
            for what, needle in needles:
                for path, content in streams:
                    if needle in content:
                        bad('C13.plaintext_on_disk',
                            f'{context}, but the plaintext {what} of a {o["kind"]} '
                            f'account was written to {path}', secret=what, acct=o['kind'])

    def reference_save(wallet, action, label):
        """Fault-free execution against a copy of the settled file system."""
        pre = mount.fs
        pre.settle()
        ref = pre.clone()
        ref.reset_log()
        mount.fs = ref
        try:
            action()
        except SimFSCrash:
            mount.fs = pre
            raise RuntimeError('harness: crash in an un-armed SimFS')
        except Exception as e:  # noqa
            mount.fs = pre
            unexpected(label, e)
        if ref.open_files():
            P['save_left_file_open'] += 1     # a leak, not a durability problem; clones need closed files
            for fd in list(ref.fds):
                ref.fds[fd].closed = True
            ref.fds.clear()
        return pre, ref

    def intended_dict(wallet, pref):
        """The complete new version: what this wallet state serialises to (same decision as Wallet.save)."""
        pw = M.password if (pref and M.password is not None) else None
        return json.loads(json.dumps(wallet.to_dict(encrypt_password=pw)))

    def stale_temp_files(pre, ref, new_len):
        """Leftovers of an earlier crashed save that this save met (reach probes + text for reports)."""
        stale = {p: c for p, c in pre.listing().items() if p != WALLET_PATH}
        if not stale:
            return ''
        P['stale_tmp_at_save'] += 1
        opened = {path for _, name, path, _ in ref.log if name in ('open', 'os.open')}
        reused = {p: c for p, c in stale.items() if p in opened}
        if reused:
            P['stale_tmp_reused'] += 1
            if any(len(c) > new_len for c in reused.values()):
                P['stale_tmp_longer_than_new'] += 1
        return '; leftover files met by this save: ' + ', '.join(
            f'{p} ({len(c)} bytes{", reused" if p in reused else ""})' for p, c in sorted(stale.items()))

    def verify_completed(wallet, pre, ref, label, pref):
        """A save that ran to completion must leave exactly the new version (statement: 'complete new one')."""
        expected = intended_dict(wallet, pref)
        new_bytes = ref.peek(WALLET_PATH)
        note = stale_temp_files(pre, ref, len(new_bytes or b''))
        if new_bytes is None:
            bad('C13.save_corrupt', f'{label}: a save without any crash left no wallet file{note}', state='missing')
        try:
            got = product_read(ref.reboot(ref.crash_view('a')))
        except Exception as e:  # noqa
            bad('C13.save_corrupt', f'{label}: after a save without any crash the wallet file ({len(new_bytes)} '
                f'bytes) cannot be read: WalletStorage.read() raises {type(e).__name__}: {e}{note}',
                state='empty' if not new_bytes else 'unparseable')
        if got != expected:
            bad('C13.save_corrupt', f'{label}: after a save without any crash the wallet file ({len(new_bytes)} '
                f'bytes) is not the new version of the wallet{note}', state='other')
        P['completed_save_verified'] += 1
        return expected

    def enumerate_save(wallet, action, label):
        st['saves'] += 1
        save_no = st['saves']
        must_be_encrypted = M.pref and M.password is not None
        pre, ref = reference_save(wallet, action, label)
        model_save()
        if must_be_encrypted:
            scan_plaintext(ref)
        new_dict = verify_completed(wallet, pre, ref, f'{label} #{save_no}', M.pref)
        old_bytes = pre.peek(WALLET_PATH)
        new_bytes = ref.peek(WALLET_PATH)
        old_exists = old_bytes is not None
        n_ops = ref.opno
        ref_log = [(name, path, nb) for _, name, path, nb in ref.log]
        try:
            old_dict = product_read(pre.reboot(pre.crash_view('a'))) if old_exists else None
        except Exception as e:  # noqa
            raise RuntimeError(f'harness: the previous wallet file is unreadable although every earlier save was '
                               f'verified: {type(e).__name__}: {e}')
        if not old_exists:
            P['first_save_no_previous_file'] += 1
        if ref.rename_refused:
            P['windows_rename_refused'] += 1     # os.rename refused the existing wallet file: the fallback ran
        if any(name == 'replace' for name, _, _ in ref_log):
            P['save_used_os_replace'] += 1
        if sum(1 for name, _, _ in ref_log if name in ('pwrite', 'os.write')) > 1:
            P['multi_chunk_save'] += 1
        verdicts = {}
        rng = run.rng('tear', save_no)
        images = distinct = 0

        def judge(content, ctx):
            """'old' / 'new' / 'absent' or a violation for one post-crash content of the wallet path."""
            k, when, model, ns_keep, keep = ctx
            opname = ref_log[k - 1][0]
            where = (f'{label} #{save_no}: crash {when} operation {k}/{n_ops} ({opname}), namespace model {model}, '
                     f'journal prefix {ns_keep}, un-synced bytes kept {keep}')
            site = dict(op=opname, when=when, model=model, fs=fs_semantics)
            if content is None:
                if old_exists:
                    bad('C13.torn_save', f'{where}: the wallet file no longer exists (previous version had '
                        f'{len(old_bytes)} bytes)', state='missing', **site)
                return 'absent'
            img = pre.reboot({WALLET_PATH: (content, 0o100600)})
            try:
                d = product_read(img)
            except Exception as e:  # noqa
                state = 'empty' if not content else 'unparseable'
                bad('C13.torn_save', f'{where}: wallet file has {len(content)} bytes (previous '
                    f'{len(old_bytes) if old_exists else "absent"}, new {len(new_bytes)}) and '
                    f'WalletStorage.read() raises {type(e).__name__}', state=state, **site)
            if d == new_dict:
                return 'new'
            if old_exists and d == old_dict:
                return 'old'
            bad('C13.torn_save', f'{where}: wallet file ({len(content)} bytes) is neither the previous '
                f'({len(old_bytes) if old_exists else "absent"}) nor the new ({len(new_bytes)}) version',
                state='other', **site)

        for k in range(1, n_ops + 1):
            for when in ('before', 'after'):
                c = pre.clone()
                c.reset_log()
                c.arm(k, when)
                mount.fs = c
                try:
                    wallet.save()
                except SimFSCrash:
                    pass
                except Exception as e:  # noqa
                    mount.fs = ref
                    unexpected('save_rerun', e)
                else:
                    mount.fs = ref
                    raise RuntimeError(f'harness: armed save did not crash at {k} {when} of {n_ops}')
                finally:
                    mount.fs = ref
                got = [(name, path, nb) for _, name, path, nb in c.log]
                if got != ref_log[:len(got)]:
                    raise RuntimeError(f'harness: re-executed save diverged from the reference: {got[-1]} vs '
                                       f'{ref_log[len(got) - 1]}')
                F['crash_before_op' if when == 'before' else 'crash_after_op'] += 1
                P['crash_points'] += 1
                if c.post_mortem:
                    P['post_mortem_ops_refused'] += c.post_mortem
                for model in ('a', 'b'):
                    u = c.unsynced_max(model)
                    if not c.any_dirty(model):
                        keeps = [None]
                    elif u == 0:
                        keeps = [None, -1]          # only truncations are pending
                    elif u <= 40:
                        keeps = [None, -1] + list(range(u))
                    else:
                        keeps = [None, -1, 0, 1, u - 1, u // 2] + [rng.randrange(1, u) for _ in range(tear_extra)]
                    ns_keeps = [None] if model == 'a' else [None] + list(range(c.pending_ns()))
                    for ns_keep in ns_keeps:
                        if ns_keep is not None:
                            F['ns_op_lost'] += 1
                            P['ns_journal_prefixes'] += 1
                        for keep in keeps:
                            if len(keeps) > 1:
                                P['torn_variants'] += 1
                                if keep is None:
                                    F['unsynced_all_kept'] += 1
                                elif keep <= 0:
                                    F['unsynced_lost'] += 1
                                else:
                                    F['torn_prefix'] += 1
                            view = c.crash_view(model, ns_keep, keep)
                            ent = view.get(WALLET_PATH)
                            content = None if ent is None else ent[0]
                            images += 1
                            v = verdicts.get(content)
                            if v is None:
                                distinct += 1
                                v = verdicts[content] = judge(content, (k, when, model, ns_keep, keep))
                            P['image_old' if v == 'old' else 'image_new' if v == 'new' else 'image_absent_ok'] += 1
        # the claim the enumeration relies on: re-executing save() is idempotent
        chk = pre.clone()
        chk.reset_log()
        mount.fs = chk
        try:
            wallet.save()
        finally:
            mount.fs = ref
        if chk.peek(WALLET_PATH) != new_bytes:
            raise RuntimeError('harness: Wallet.save() is not idempotent, crash enumeration is unsound')
        ref.settle()
        P['save_enumerated'] += 1
        P['images_checked'] += images
        P['images_distinct'] += distinct
        run.ev('save', label, save_no, n_ops, images, distinct, old_exists, len(new_bytes), _sha(new_bytes))
        return n_ops

    def crash_inside_save(wallet, op):
        """History-level fault: the process dies inside this save; the history continues after a restart."""
        st['saves'] += 1
        must_be_encrypted = M.pref and M.password is not None
        pre, ref = reference_save(wallet, wallet.save, 'save')
        new_disk = model_save(commit=False)
        if must_be_encrypted:
            scan_plaintext(ref)
        verify_completed(wallet, pre, ref, f'save #{st["saves"]}', new_disk['pref'])
        mount.fs = pre
        old_bytes, new_bytes = pre.peek(WALLET_PATH), ref.peek(WALLET_PATH)
        n_ops = ref.opno
        k = min(n_ops, 1 + int(float(op.get('point', 0.5)) * n_ops))
        when = 'after' if op.get('when') == 'after' else 'before'
        # structural crash points: the temporary copy is (partly) written, the rename has not happened
        names = [name for _, name, _, _ in ref.log]
        writes = [i + 1 for i, nm in enumerate(names) if nm in ('pwrite', 'os.write')]
        moves = [i + 1 for i, (_, nm, path, _) in enumerate(ref.log)
                 if nm in ('rename', 'replace') and path == WALLET_PATH]
        at = op.get('at')
        if at == 'pre_rename' and moves:
            k, when = moves[0], 'before'
        elif at == 'post_write' and writes:
            k, when = writes[-1], 'after'
        elif at == 'mid_write' and writes:
            k, when = writes[0], 'after'
        if at and (moves or at != 'pre_rename') and writes:
            P['crash_in_save_' + at] += 1
        c = pre.clone()
        c.reset_log()
        c.arm(k, when)
        mount.fs = c
        try:
            wallet.save()
        except SimFSCrash:
            pass
        except Exception as e:  # noqa
            unexpected('save_rerun', e)
        else:
            raise RuntimeError('harness: armed save did not crash')
        model = 'b' if op.get('model') == 'b' else 'a'
        u = c.unsynced_max(model)
        t = op.get('tear')
        keep = None if t is None else (-1 if t < 0 else int(t * u))
        ns_keep = None
        if model == 'b' and op.get('ns_lost'):
            ns_keep = max(0, c.pending_ns() - int(op['ns_lost']))
        view = c.crash_view(model, ns_keep, keep)
        F['crash_in_save'] += 1
        F['crash_before_op' if when == 'before' else 'crash_after_op'] += 1
        if u and keep is not None and 0 < keep < u:
            F['torn_prefix'] += 1
        ent = view.get(WALLET_PATH)
        content = None if ent is None else ent[0]
        opname = ref.log[k - 1][1]
        where = f'save: crash {when} operation {k}/{n_ops} ({opname}), namespace model {model}'
        mount.fs = pre.reboot(view)
        if any(p != WALLET_PATH for p in view):
            P['crash_left_temp_file'] += 1
        if content == new_bytes:
            M.disk = new_disk
            P['crash_in_save_new'] += 1
            outcome = 'new'
        elif content == old_bytes:
            P['crash_in_save_old'] += 1
            outcome = 'old'
        else:
            state = 'missing' if content is None else 'empty' if not content else 'other'
            bad('C13.torn_save', f'{where}: wallet file is neither the previous nor the new version '
                f'({None if content is None else len(content)} bytes)', state=state, op=opname, when=when, model=model,
                fs=fs_semantics)
        run.ev('save_crash', k, when, model, keep, ns_keep, outcome)

    # ---- unlock ---------------------------------------------------------------------------------
    def model_unlock(pw):
        """A password that does not open every encrypted secret-bearing account is refused and nothing changes."""
        for a in M.accounts:
            if a.enc is not None and a.secret and a.enc != pw:
                return False
        for a in M.accounts:
            a.enc = None
        M.password = pw
        return True

    def serialised(wallet):
        return [(bool(a.encrypted), json.dumps(a.to_dict(), sort_keys=True)) for a in wallet.accounts]

    def other_password(right, op):
        variant = op.get('variant', 'other')
        if variant == 'previous' and M.previous_password not in (None, right):
            P['wrong_pw_previous_password'] += 1
            return M.previous_password, variant
        return _wrong_password(right, variant, passwords[int(op.get('alt', 0)) % len(passwords)]), variant

    async def do_unlock_unlocked(wallet, op, n):
        """unlock(another password) on a wallet that has a password and nothing to decrypt: whatever it returns,
        the wallet -- including the password later saves and lock() encrypt with -- must stay as it was."""
        if m_locked() or M.password is None:
            P['skipped_op'] += 1
            return
        pw, variant = other_password(M.password, op)
        note_password(pw)
        before = serialised(wallet)
        pw_before = wallet.encryption_password
        try:
            res = await wallet.unlock(pw)
        except (InvalidPasswordError, ValueError) as e:
            res = type(e).__name__
        except Exception as e:  # noqa
            unexpected('unlock_unlocked', e)
        run.ev('unlock_unlocked', n, variant, res if isinstance(res, str) else bool(res))
        P['unlock_other_pw_on_unlocked_wallet'] += 1
        if pw == '':
            P['unlock_empty_pw_on_unlocked_wallet'] += 1
        if wallet.encryption_password != pw_before:
            bad('C13.password_adopted', f'the wallet was encrypted with a password and is unlocked; unlock() with '
                f'{"the empty string" if pw == "" else "another password"} ({variant}) returned {res!r} and replaced '
                f'Wallet.encryption_password: later saves / lock() encrypt with a password the user never chose'
                f'{" (the empty string: secrets are written in clear)" if pw == "" else ""}, the original password is '
                f'refused after a restart', state='unlocked')
        if wallet.is_locked or serialised(wallet) != before:
            bad('C13.wrong_password_mutated', f'unlock() with another password ({variant}) on an unlocked wallet '
                f'changed its accounts', field='serialised', acct='-')

    def find_valid_padding_password(wallet, right):
        for acc, m in zip(wallet.accounts, M.accounts):
            if m.enc is not None and m.secret:
                raw = _ciphertext_bytes(acc.seed or acc.private_key_string or '')
                if raw is None:
                    return None
                for j in range(6000):
                    cand = f'{right[:8]}#{j}'
                    if cand != right and _ref_padding_valid(cand, raw):
                        return cand
                return None
        return None

    async def do_unlock(wallet, op, n):
        if not m_locked():
            if op.get('pw') == 'wrong' and M.password is not None:
                return await do_unlock_unlocked(wallet, op, n)     # the wallet is open: still "another password"
            P['skipped_op'] += 1
            return
        right = right_password()
        mode = op.get('pw', 'right')
        flavour = mode
        if right is None:
            # only watch-only accounts carry the flag: nothing to decrypt, anything is accepted (scoped out)
            pw = passwords[int(op.get('alt', 0)) % len(passwords)]
            P['watch_only_unlock_any'] += 1
        elif mode == 'right':
            pw = right
        elif mode == 'valid_padding':
            pw = find_valid_padding_password(wallet, right)
            if pw is None:
                pw = right + '#'
                flavour = 'wrong'
            else:
                P['unlock_wrong_valid_padding'] += 1
        else:
            pw, variant = other_password(right, op)
            if variant == 'norm' and unicodedata.normalize('NFKC', pw) == unicodedata.normalize('NFKC', right):
                P['wrong_pw_normalization_variant'] += 1
        note_password(pw)
        watch_first = False
        for a in M.accounts:
            if a.enc is not None:
                watch_first = not a.secret
                break
        before = [(a.seed, a.private_key_string, a.encrypted, a.private_key is None) for a in wallet.accounts]
        ser_before = serialised(wallet)
        seedtext = next((m.orig['seedtext'] for m in M.accounts if m.enc is not None and m.secret and
                         m.orig['seedtext'] not in ('canonical', '-')), 'canonical')
        pw_before = wallet.encryption_password
        was = [m.enc is not None and m.secret for m in M.accounts]
        model_pw_before = M.password
        pref_before = M.pref
        expected = model_unlock(pw)
        raised = None
        race = {'done': False, 'fs': None, 'error': None}
        racer = None
        if expected and right is not None and op.get('race_save') is not None and pref_before:
            async def race_save(k):
                for _ in range(k):
                    await asyncio.sleep(0)
                if race['done']:
                    P['race_save_after_unlock'] += 1     # unlock() never suspended (no private key to prime)
                    return
                fs = mount.fs
                fs.settle()
                fs.reset_log()
                try:
                    wallet.save()
                except AssertionError:
                    raise
                except Exception as e:  # noqa
                    race['error'] = e
                    return
                race['fs'] = fs
                race['pref_after'] = bool(wallet.preferences.get(ENCRYPT_ON_DISK, False))
                race['locked_at_save'] = wallet.is_locked
            racer = asyncio.ensure_future(race_save(int(op['race_save'])))
        second = None
        if racer is None and expected and right is not None and isinstance(op.get('race_unlock'), dict):
            q, q_variant = other_password(right, op['race_unlock'])

            async def race_unlock(k):
                for _ in range(k):
                    await asyncio.sleep(0)
                if race['done']:
                    P['race_unlock_after_unlock'] += 1
                    return
                try:
                    race['second'] = bool(await wallet.unlock(q))
                except (InvalidPasswordError, ValueError) as e:
                    race['second'] = type(e).__name__
                except Exception as e:  # noqa
                    race['error'] = e
            second = asyncio.ensure_future(race_unlock(int(op['race_unlock'].get('k', 1))))
        try:
            res = await wallet.unlock(pw)
        except (InvalidPasswordError, ValueError) as e:
            res, raised = False, type(e).__name__
        except Exception as e:  # noqa
            race['done'] = True
            unexpected('unlock_' + ('right' if expected else 'wrong'), e)
        race['done'] = True
        if racer is not None:
            await racer
            if race['error'] is not None:
                unexpected('save_during_unlock', race['error'])
            if race['fs'] is not None:
                # encryption was enabled, the file on disk was encrypted and unlock() had been given the right
                # password: a save of another task in that window must not write the secrets in clear
                P['race_save_during_unlock'] += 1
                run.ev('race_save', n, race['locked_at_save'], race['pref_after'])
                scan_plaintext(race['fs'], 'encryption enabled, unlock() called with the right password and suspended '
                               'in the database; another task saved the wallet in that window')
                if not race['pref_after']:
                    bad('C13.plaintext_on_disk', 'a save issued by another task while unlock(right password) was '
                        'suspended switched the encrypt-on-disk preference off', secret='pref', acct='-')
                model_save()
                race['fs'].settle()
        if second is not None:
            await second
            if race['error'] is not None:
                unexpected('overlapping_unlock', race['error'])
            if 'second' in race:
                # the first request supplied the password that decrypted the accounts; the overlapping one found
                # nothing left to decrypt: whatever it answers, it must not become the wallet's password
                P['overlapping_unlock'] += 1
                run.ev('overlapping_unlock', n, q_variant, race['second'], bool(res))
                if res and wallet.encryption_password != pw:
                    bad('C13.password_adopted', f'unlock(right password) was suspended in the database; a second '
                        f'unlock request with another password ({q_variant}) returned {race["second"]!r} and its '
                        f'password replaced the right one as Wallet.encryption_password', state='overlapping_unlock')
        run.ev('unlock', n, flavour, bool(res), raised, wallet.is_locked)
        sync_watch_flags(wallet)
        if not expected:
            P['unlock_wrong'] += 1
            if watch_first:
                P['wrong_pw_after_watch_only_account'] += 1
            if res or not wallet.is_locked:
                bad('C13.wrong_password_unlocked', f'unlock with a wrong password ({flavour}) returned {res!r}, '
                    f'is_locked={wallet.is_locked}', flavour=flavour)
            for acc, b, secret_enc, m in zip(wallet.accounts, before, was, M.accounts):
                if not secret_enc:
                    continue
                now = (acc.seed, acc.private_key_string, acc.encrypted, acc.private_key is None)
                for field, x, y in zip(('seed', 'private_key_string', 'encrypted', 'private_key'), b, now):
                    if x != y:
                        bad('C13.wrong_password_mutated', f'a refused unlock ({flavour}) changed `{field}` of a '
                            f'{m.orig["kind"]} account', field=field, acct=m.orig['kind'])
            if wallet.encryption_password != pw_before:
                bad('C13.wrong_password_mutated', f'a refused unlock ({flavour}) changed Wallet.encryption_password',
                    field='encryption_password', acct='-')
            # "... and leaves the wallet locked and unchanged": every account, secret-bearing or not
            for acc, b, now, m in zip(wallet.accounts, ser_before, serialised(wallet), M.accounts):
                if b[0] != now[0]:
                    bad('C13.wrong_password_mutated', f'a refused unlock ({flavour}) left the `encrypted` flag of a '
                        f'{m.orig["kind"]} account {"set" if now[0] else "cleared"} (accounts before it in the wallet '
                        f'were opened and not locked again)', field='encrypted', acct=m.orig['kind'])
                if b[1] != now[1]:
                    bad('C13.wrong_password_mutated', f'a refused unlock ({flavour}) changed the serialised form of a '
                        f'{m.orig["kind"]} account', field='serialised', acct=m.orig['kind'])
            P['refused_unlock_all_accounts_compared'] += 1
            M.last_unlock_failed = True
            return
        if right is not None:
            P['unlock_right'] += 1
            if not res:
                # Wallet.unlock stops at the first account it cannot open (and may lock the ones before it again):
                # name the still-encrypted account with an unusual seed text if there is one, else the first one
                stuck = [m.orig for acc, m in zip(wallet.accounts, M.accounts) if acc.encrypted and m.secret]
                culprit = next((o for o in stuck if o['seedtext'] not in ('canonical', '-')), stuck[0] if stuck else None)
                bad('C13.unlock_mismatch', f'unlock with the right password was refused (returned {res!r}, '
                    f'raised {raised}); the account that stays encrypted is a '
                    f'{culprit["kind"] if culprit else "?"} account, seed text: '
                    f'{culprit["seedtext"] if culprit else "?"}', field='result',
                    acct=culprit['kind'] if culprit else '-',
                    seedtext=('-' if not culprit else culprit['seedtext'] if culprit['seedtext'] in ('canonical', '-')
                              else 'noncanonical'))     # few, stable site values: the spelling is in the detail
        elif not res:
            M.password = model_pw_before
            return  # watch-only flag and a refusal: outside the statement either way
        if wallet.is_locked:
            bad('C13.unlock_mismatch', 'unlock returned True but the wallet is still locked', field='is_locked', acct='-')
        compare_clear_accounts(wallet, 'C13.unlock_mismatch', 'after unlock with the right password')
        if right is not None:
            if seedtext != 'canonical':
                P['unlock_right_noncanonical_seed_text'] += 1
            if M.last_unlock_failed:
                P['unlock_after_wrong_ok'] += 1
            if M.reloaded_locked:
                P['unlock_after_reload'] += 1
        M.last_unlock_failed = False
        M.reloaded_locked = False

    # ---- pack / unpack ----------------------------------------------------------------------------
    def do_pack(wallet, op, n):
        if m_locked():
            P['skipped_op'] += 1
            return
        pw = passwords[int(op.get('pw', 0)) % len(passwords)]
        note_password(pw)
        try:
            expect = json.loads(json.dumps(wallet.to_dict()))
            blob = wallet.pack(pw)
            got = Wallet.unpack(pw, blob)
        except Exception as e:  # noqa
            unexpected('pack_unpack', e)
        if got != expect:
            bad('C13.unpack_mismatch', 'unpack(pack(p), p) differs from the wallet dictionary', where='roundtrip')
        P['pack_roundtrip'] += 1
        outcome = None
        if op.get('wrong'):
            q = _wrong_password(pw, op['wrong'], passwords[(int(op.get('pw', 0)) + 1) % len(passwords)])
            try:
                leaked = Wallet.unpack(q, blob)
            except Exception as e:  # noqa
                P['unpack_wrong_raised'] += 1
                P['unpack_wrong_raised_' + type(e).__name__] += 1
                outcome = type(e).__name__
            else:
                bad('C13.unpack_wrong_password', f'unpack with a wrong password returned data '
                    f'({type(leaked).__name__})', variant=op['wrong'])
        run.ev('pack', n, len(blob), outcome)

    # ---- one process incarnation ------------------------------------------------------------------
    async def incarnation(first):
        if pid_changes and not first:
            mount.fs.pid = base_pid + len(run.loops) - 1
            P['pid_changed'] += 1
        ledger = _ledger_class()({'db': Database(':memory:'), 'headers': Headers(':memory:'), 'data_path': '/sim'})
        await ledger.db.open()
        manager = _Manager(ledger)
        try:
            wallet = Wallet.from_storage(WalletStorage(WALLET_PATH), manager)
        except Exception as e:  # noqa
            unexpected('from_storage', e)
        if first:
            for spec in scenario.get('accounts', []):
                add_account(ledger, wallet, spec)
            if M.accounts and not any(a.secret for a in M.accounts):
                P['watch_only_wallet'] += 1
        else:
            # the model restarts from what the disk is known to hold
            M.password = None
            M.last_unlock_failed = False
            disk = M.disk
            M.accounts = [_MAcct(o, e) for o, e in disk['accounts']] if disk else []
            M.pref = disk['pref'] if disk else False
            M.reloaded_locked = right_password() is not None
            if len(wallet.accounts) != len(M.accounts):
                bad('C13.reload_mismatch', f'wallet file holds {len(wallet.accounts)} accounts, the last complete '
                    f'save wrote {len(M.accounts)}', field='account_count')
            sync_watch_flags(wallet)
            for acc, m in zip(wallet.accounts, M.accounts):
                if bool(acc.encrypted) != (m.enc is not None):
                    bad('C13.reload_mismatch', f'{m.orig["kind"]} account reloaded with encrypted={acc.encrypted}, '
                        f'expected {m.enc is not None}', field='encrypted')
            compare_clear_accounts(wallet, 'C13.reload_mismatch', 'after reload of a plaintext wallet file')
            P['reload_encrypted' if m_locked() else 'reload_plain'] += 1
            run.ev('reloaded', len(wallet.accounts), wallet.is_locked,
                   bool(wallet.preferences.get(ENCRYPT_ON_DISK, False)))
        while st['i'] < len(ops):
            n = st['i']
            op = ops[n]
            st['i'] += 1
            kind = op.get('op')
            if kind == 'save':
                enumerate_save(wallet, wallet.save, 'save')
            elif kind == 'encrypt':
                if m_locked():
                    P['skipped_op'] += 1
                    continue
                pw = passwords[int(op.get('pw', 0)) % len(passwords)]
                note_password(pw)
                if M.password is not None and M.password != pw:
                    M.previous_password = M.password
                M.password, M.pref = pw, True
                enumerate_save(wallet, lambda: wallet.encrypt(pw), 'encrypt')
                P['save_in_encrypt'] += 1
            elif kind == 'decrypt':
                if m_locked():
                    P['skipped_op'] += 1
                    continue
                M.pref = False
                enumerate_save(wallet, wallet.decrypt, 'decrypt')
                P['save_in_decrypt'] += 1
            elif kind == 'lock':
                if M.password is None:
                    P['skipped_op'] += 1
                    continue
                for a in M.accounts:
                    if a.enc is None:
                        a.enc = M.password
                try:
                    wallet.lock()
                except Exception as e:  # noqa
                    unexpected('lock', e)
                sync_watch_flags(wallet)
                run.ev('lock', n, wallet.is_locked)
            elif kind == 'unlock':
                await do_unlock(wallet, op, n)
            elif kind == 'unlock_unlocked':
                await do_unlock_unlocked(wallet, op, n)
            elif kind == 'add_account':
                if len(M.accounts) >= 6:
                    P['skipped_op'] += 1
                    continue
                if m_locked():
                    P['add_account_while_locked'] += 1
                try:
                    add_account(ledger, wallet, op.get('spec', {}))
                except RuntimeError:
                    raise
                except Exception as e:  # noqa
                    unexpected('add_account', e)
                run.ev('add_account', n, len(wallet.accounts))
            elif kind == 'pref':
                wallet.preferences[str(op.get('key', 'k'))] = op.get('value')
                run.ev('pref', n)
            elif kind == 'pref_shrink':
                for key in sorted(wallet.preferences.data):
                    if key != ENCRYPT_ON_DISK:
                        del wallet.preferences[key]
                run.ev('pref_shrink', n)
            elif kind == 'remove_account':
                if len(M.accounts) < 2:
                    P['skipped_op'] += 1
                    continue
                idx = min(len(M.accounts) - 1, int(float(op.get('pick', 0.99)) * len(M.accounts)))
                wallet.accounts.remove(wallet.accounts[idx])
                del M.accounts[idx]
                P['remove_account'] += 1
                run.ev('remove_account', n, idx, len(wallet.accounts))
            elif kind == 'pref_encrypt':
                M.pref = bool(op.get('value'))
                wallet.preferences[ENCRYPT_ON_DISK] = M.pref
                run.ev('pref_encrypt', n, M.pref)
            elif kind == 'pack':
                do_pack(wallet, op, n)
            elif kind == 'save_crash':
                crash_inside_save(wallet, op)
                return 'crash'
            elif kind == 'crash':
                mount.fs.settle()
                run.ev('crash', n)
                return 'crash'
            elif kind == 'reload':
                mount.fs.settle()
                run.ev('reload', n)
                await ledger.db.close()
                return 'reload'
            else:
                P['skipped_op'] += 1
        await ledger.db.close()
        return 'done'

    async def guarded(first):
        try:
            return await incarnation(first)
        except _Stop:
            return 'violation'

    try:
        first = True
        while True:
            run.new_loop(max_steps=400_000)
            try:
                reason = run.drive(guarded(first))
            except (SimBudget, SimIdle):
                break
            first = False
            if reason == 'crash':
                F['process_crash'] += 1
                P['process_crash'] += 1
                run.kill_loop()
            elif reason == 'reload':
                run.loop.abandon()      # graceful exit: nothing suspended, no collection point needed
            else:
                break
    finally:
        mount.uninstall()
    if SimFSError.raised or mount.unmodelled:
        # a limitation of the simulator, never a finding: the runner reports a harness error (exit 2)
        raise RuntimeError(f'harness: the product used file-system features SimFS does not model: '
                           f'{(SimFSError.raised + mount.unmodelled)[:3]}')
    run.nontrivial = P['save_enumerated'] > 0
    run.finish()
    return run.result()
