"""C08 — SPV verification needs a Merkle proof to the local header (DESIGN.md §7 C08).

Same environment as C09 (`simverif.core.hub.WalletSync`) with the hub Byzantine for proofs and (scenarios
`+forged_batch`) for one header batch.
SUT: Ledger.maybe_verify_transaction / get_root_of_merkle_tree / _single_batch / request_transactions
and the full sync path down to the `tx.is_verified` column; real Headers (validate_difficulty=False) fed
through receive_header -> update_headers -> connect, whose writes are compared with the hub's own record of
every header it ever mined ("locally VALIDATED header": nothing else may enter the store or be verified against).
"""
import asyncio
from binascii import unhexlify

from simverif.core import env
from simverif.core.run import Run, SimBudget, SimIdle
from simverif.core.rng import stream
from simverif.props import c09 as base

ID = 'C08'
LEVEL = 'exploration'
TIERS = {'quick': {'runs': 3000}, 'thorough': {'seconds': 600}}
DET_PAIRS_PER_SLOT = 3
RULE = ("one run = one chain of 2..5 blocks of 1..64 transactions (sizes biased to 1,2,3 and 2^k-1,2^k,2^k+1) built "
        "by an independent reference hub around 0..3 wallet transactions per block; every wallet transaction and "
        "every direct probe carries `genuine` or exactly one mutation of the served proof (branch element bit, "
        "position bit incl. bits above the branch, branch shortened/lengthened at either end, proof or branch of "
        "another index, one field of the transaction bytes incl. witness-only bytes, height shifted, `merkle` "
        "key missing, empty branch, history height shifted while the proof dict keeps the true block_height, dict "
        "block_height shifted / of another block with that block's branch / missing / string / negative / huge); "
        "family `checkpointed`: a 2..3 x 1000 block chain exists first, the wallet's header store is checkpointed "
        "on it, zero-filled, partly back-filled (chunk-aligned) and fetches chunks on demand from the hub while "
        "verifying at heights inside missing chunks; headers are delivered up to a seeded cut so later heights have no local "
        "header at verification time, the rest arrive later. Phase 1 runs the full sync path (notifications -> "
        "update_history -> _single_batch -> maybe_verify_transaction -> sqlite); phase 2/4 drive _single_batch, "
        "request_transactions and maybe_verify_transaction (proof given, or fetched through get_merkle) on any "
        "(block, index). Suffix `+forged_batch` (own seed stream `C08.forged_batch`, a quarter of the non-checkpointed "
        "scenarios, which otherwise keep their ops): after the wallet has synced (at the end, or while headers are still "
        "withheld) the hub mines k..k+2 more blocks around one more wallet payment and answers ONE "
        "`blockchain.block.headers` request with n=3..12 headers of which the first k=0..n-1 are honest (1<=k<n/2 in "
        "55%) and the rest forged (structurally valid, the first forged one does not link: random / one bit of the true "
        "hash / hash of the header two below / zero; later ones build on it); one forged header carries the Merkle root "
        "of a real block holding a wallet transaction and the hub from then on reports that transaction at the forged "
        "height with its genuine branch; the request is provoked by an honest tip announcement above the local tip, by "
        "the announcement of the forged tip, or by a catch-up update_headers(); afterwards the hub is honest about headers, "
        "the wallet is asked about the transaction directly and through the sync path, then the hub drops the height lie. "
        "Differential oracle at every maybe_verify_transaction return and on the saved rows; header-store oracle at "
        "every Headers.connect return (range written) and at every quiescence (whole store). "
        "Non-trivial = >=4 verifications judged of which >=1 expected verified and >=1 expected rejected; "
        "distinct = distinct event-trace digest.")
COMPONENTS = {
    'real': ['lbry.wallet.ledger.Ledger.maybe_verify_transaction', 'Ledger.get_root_of_merkle_tree',
             'Ledger._single_batch', 'Ledger.request_transactions', 'Ledger.update_history/_sync_and_save_batch',
             'Ledger.receive_header/update_headers (incl. its batch fetch and one-block rewind after a refused batch)',
             'lbry.wallet.header.Headers.connect/validate_chunk/get (validate_difficulty=False)',
             'lbry.wallet.database.Database (tx.is_verified column)', 'lbry.wallet.transaction.Transaction (txid)',
             'lbry.wallet.network.Network wrappers + retriable_call'],
    'stub': ['Network.rpc / is_connected / client (in-process reference hub, Byzantine for proofs and, in '
             '`+forged_batch`, for one header batch and one tip announcement)',
             'sqlite executors (inline jobs at scheduler-drawn virtual instants)', 'event loop (SimLoop)',
             'header notifications handed to Ledger.receive_header directly'],
}
ASSUMPTIONS = [
    'the locally validated header of a height is the header the wallet holds there PROVIDED it is a header the hub '
    'chain has or had at that height (the harness reads the raw store and compares with its own record of every '
    'block ever mined); any other stored header counts as never validated and nothing may be verified against it. '
    'Header validation in general is C07; here only the clause "locally validated" is guarded, and with '
    'validate_difficulty=False (simnet) validity is exactly linkage to the chain held, so the forged headers, whose '
    'first never links, are the only invalid ones that exist. In family `checkpointed` the reference root of a '
    'height is the hub header of that height (a chunk that hashes to its checkpoint is the hub chain), never the '
    'local copy, and the header-store oracle is off (zero-filled chunks are legitimate there)',
    'header-store oracle: every header Headers.connect wrote, and at quiescence every stored header, is a header '
    'of the hub chain history at its height and names the stored header below it as predecessor; reported as '
    'C08.unvalidated_header_stored either at once or (scenario field `report: late`, so that the run reaches the '
    'verification against the forged header) at the next quiescence / end of run -- the observation is the same',
    'after the forged batch only observation: the unchanged product drops the whole batch (including its honest '
    'first k headers), rewinds one block and re-fetches from the then honest hub; that it ends on the hub chain is '
    'counted (forged_batch_recovered / _not_recovered, notes) but not asserted, C08 does not promise it; an '
    'exception out of header sync during the lie is a note as well. A forged reply lost to an injected RPC fault is '
    'simply not seen by the wallet (forged_batch_served counts hub side, forged_batch_connected wallet side)',
    'forged headers that DO link (a fork the hub mined itself) are the family `reorg`, not forgery: without proof of '
    'work nothing distinguishes them from the chain',
    'the verdict is taken at the height the wallet records for the transaction (tx.height / saved row height)',
    'reorganisations (family `reorg`): the hub replaces its last 1..3 blocks by a LONGER branch (an equal-height '
    'one-block tip replacement is connected by update_headers without its rewind branch and is not generated, see '
    'report); wallet transactions of replaced blocks stay, move or drop back to the mempool, they never vanish',
    'rows after a reorganisation are judged only at quiescence after every changed address was notified, the wallet '
    'holds exactly the hub headers, and the history re-sync of every address the transaction touches has completed '
    '(stored history == the TRUE history of the hub chain; a hub that misreports the height in its history so that '
    'the entry equals the one stored before the reorganisation never triggers that re-sync); a verified row must '
    'then belong to a transaction of the current block at its '
    'height (membership; a row whose transaction kept its height is not re-proven by the product)',
    'results of the cached path are judged strictly: the proof the object was accepted with must reproduce the '
    'root of the header held at its height at the time it is handed back',
    'the hub may lie about proofs, heights, transaction bytes and (one batch, one tip announcement) headers but '
    'answers every request with well-formed JSON (hex strings, integer pos, whole 112-byte headers)',
    'lbry.wallet.claim_proofs.verify_proof (legacy, unused by any live path) is not exercised',
]
MUT_KINDS = ['genuine', 'branch_elem', 'pos_bit', 'shorten', 'lengthen', 'other_tx', 'other_branch_same_pos',
             'tx_bytes', 'height_shift', 'no_merkle', 'empty_branch',
             'height_only', 'dict_height_only', 'dict_other_block', 'dict_height_type']
MUT_WEIGHTS = [22, 10, 14, 7, 7, 7, 5, 8, 6, 6, 4, 9, 7, 5, 4]
EXPECTED_PROBES = ['judged', 'expected_verified', 'expected_rejected', 'header_absent', 'dup_last_node_flip_judged',
                   'pos_bit_above_branch_judged', 'witness_only_alteration_accepted', 'row_checked', 'sync_path_judged',
                   'direct_judged', 'via_get_merkle', 'odd_level_block', 'single_tx_block', 'height_not_positive',
                   'recorded_height_differs_from_dict_both_present', 'ckpt_on_demand_fetch', 'ckpt_unaligned_fetch',
                   'ckpt_verified_in_missing_chunk', 'ckpt_sync_path_judged',
                   'reorg', 'reorg_followed', 'reorg_lowest_block_holds_cached_verified_tx', 'reorg_via_tip_notification',
                   'reorg_via_get_headers', 'reorg_tx_moved', 'reorg_tx_same_height', 'reorg_tx_to_mempool',
                   'cached_path_fetch', 'cached_path_hit', 'cached_path_judged', 'cached_path_refetched_after_reorg',
                   'rows_checked_after_reorg',
                   'stored_header_checked', 'forged_batch_served', 'forged_batch_connected', 'forged_batch_k_in_first_half',
                   'forged_batch_k_in_second_half', 'forged_batch_k_zero', 'forged_batch_trigger_notify_future',
                   'forged_batch_trigger_notify_tip', 'forged_batch_trigger_update', 'forged_batch_overlaps_honest_heights',
                   'forged_batch_wallet_on_hub_chain_afterwards', 'forged_batch_recovered', 'forged_root_tx_judged',
                   'forged_root_tx_judged_sync', 'forged_root_tx_judged_direct',
                   'forged_root_proof_consistent_with_forged_header', 'forged_root_tx_header_absent',
                   'forged_root_tx_honest_header_present'] + \
                  ['mut_' + k for k in MUT_KINDS]
# reach probes that must stay ZERO on a correct tree: forged_header_stored, forged_root_tx_unvalidated_header,
# forged_batch_not_recovered (observation only)
MAX_BUDGET_FRACTION = 0.02

SIZES = [1, 1, 2, 2, 3, 3, 4, 5, 6, 7, 8, 9, 11, 13, 15, 16, 17, 23, 31, 32, 33, 47, 63, 64]


# ---------------------------------------------------------------------------------------------------
# generation
# ---------------------------------------------------------------------------------------------------

def _mut(r, allow_tx_bytes=True):
    w = list(MUT_WEIGHTS)
    if not allow_tx_bytes:
        w[MUT_KINDS.index('tx_bytes')] = 0
    kind = r.choices(MUT_KINDS, w)[0]
    m = {'kind': kind}
    if kind == 'branch_elem':
        m.update(i=r.randrange(8), byte=r.randrange(32), bit=r.randrange(8))
    elif kind == 'pos_bit':
        m.update(bit=r.randrange(9))
    elif kind in ('shorten', 'lengthen'):
        m.update(end=r.random() < 0.6)
        if kind == 'lengthen':
            m.update(extra=r.getrandbits(256).to_bytes(32, 'big').hex())
    elif kind in ('other_tx', 'other_branch_same_pos'):
        m.update(j=r.randrange(64))
    elif kind == 'tx_bytes':
        m.update(where=r.choice(['amount', 'locktime', 'version', 'prevout', 'script_sig', 'sequence', 'witness']),
                 k=r.randrange(4), bit=r.randrange(32))
    elif kind in ('height_shift', 'height_only', 'dict_height_only', 'dict_other_block'):
        # mostly to a neighbouring height, so that the wallet has headers for both heights
        m.update(delta=r.choice([-1, -1, 1, 1, -2, 2, 5]))
    elif kind == 'dict_height_type':
        m.update(how=r.choice(['missing', 'string', 'negative', 'none', 'huge', 'zero']))
    elif kind == 'no_merkle':
        m.update(drop_pos=r.random() < 0.5)
    elif kind == 'empty_branch':
        m.update(zero_pos=r.random() < 0.5)
    return m


def _deep_chain(r, n, big):
    """Op describing a long pre-existing chain: `chunks` x 1000 blocks, real transaction lists only at `deep`."""
    chunks = r.choice([2, 2, 3]) if not big else r.choice([2, 3, 4])
    heights = set()
    for c in range(chunks):
        s0 = c * 1000
        for h in (s0 + 1, s0 + 999, s0 + r.randrange(2, 999), s0 + r.randrange(2, 999)):
            if r.random() < 0.6:
                heights.add(h)
        if c and r.random() < 0.5:
            heights.add(s0)
    if not heights:
        heights.add(r.randrange(1, chunks * 1000))
    deep = []
    for h in sorted(heights):
        size = r.choice(SIZES)
        txs = []
        for _ in range(min(size - 1, r.choice([0, 0, 1, 2]))):
            t = base._tx(r, 'standard', n[0], not deep and not txs)
            t['mut'] = _mut(r, allow_tx_bytes=False)
            n[0] += 1
            txs.append(t)
        deep.append({'h': h, 'size': size, 'txs': txs})
    prefill = []
    mode = r.choices(['top', 'none', 'all_but_one', 'all'], [50, 25, 20, 5])[0]
    starts = [c * 1000 for c in range(chunks)]
    if mode == 'top':
        prefill = [starts[-1]]
    elif mode == 'all_but_one':
        prefill = [s0 for s0 in starts if s0 != r.choice(starts)]
    elif mode == 'all':
        prefill = starts
    op = {'op': 'deep_chain', 'n': n[0], 'chunks': chunks, 'deep': deep, 'prefill': prefill}
    n[0] += 1
    return op

def gen(run_seed, tier):
    # the forged-batch section is drawn from its own stream: the base scenario of a run seed is what it always was
    return _add_forged_batch(stream('C08.forged_batch', run_seed), _gen_base(run_seed, tier), tier != 'quick')


FORGED_P = 0.25


def _add_forged_batch(r, sc, big):
    """Family suffix `+forged_batch`: somewhere after the wallet has synced, the hub answers ONE header batch
    request with k honest headers followed by forged ones, then is honest again."""
    if sc['family'] == 'checkpointed' or r.random() >= FORGED_P:
        return sc
    ops = list(sc['ops'])
    n = 1 + max([o['n'] for o in ops if isinstance(o.get('n'), int)] or [0])
    count = r.randint(3, 12)
    x = r.random()
    if x < 0.55:
        k = r.randint(1, (count - 1) // 2)                  # 1 <= k < count/2
    elif x < 0.70:
        k = 0
    elif x < 0.80 and count % 2 == 0:
        k = count // 2
    else:
        k = r.randint((count + 1) // 2, count - 1)
    trigger = r.choices(['notify_future', 'notify_tip', 'update'], [45, 35, 20])[0]
    tx = base._tx(r, 'standard', n + 1, True)
    tx['mut'] = {'kind': 'genuine'}
    fb = {'op': 'forged_batch', 'n': n, 'tx': tx,
          'count': count, 'k': k,
          'mine': k + r.choice([0, 0, 0, 0, 1, 2]),         # honest blocks the wallet has no header of yet
          'sizes': [r.choice([1, 2, 2, 3, 4, 5, 8]) for _ in range(4)],
          'at': r.choice([0, 0, 0, 1, 1, 2, 3, r.randrange(12)]),      # which forged header carries the useful root
          'other_roots': r.choice(['random', 'real']),
          'first_prev': r.choice(['random', 'random', 'bitflip', 'skip', 'zero']),
          'link_p': r.choice([1.0, 1.0, 0.7]),
          'trigger': trigger,
          'pick': round(r.random(), 4), 'prefer_new': r.random() < 0.5,
          'tx_lie': r.choice(['height_shift', 'height_only']),
          'direct': r.choice([None, None, 'batch', 'verify', 'verify_given']),
          'report': r.choice(['now', 'late'])}
    section = [fb,
               {'op': 'stage', 'n': n + 2, 'wait': True, 'spread': r.choice([0.0, 0.05]), 'dup': 0.0, 'stale': 0.0},
               {'op': 'forged_end', 'n': n + 3},
               {'op': 'stage', 'n': n + 4, 'wait': True, 'spread': 0.0, 'dup': 0.0, 'stale': 0.0}]
    at = len(ops)
    hdr_ops = [i for i, o in enumerate(ops) if o['op'] == 'headers']
    if not sc['family'].startswith('reorg') and hdr_ops and r.random() < 0.5:
        at = hdr_ops[-1]                 # while headers may still be withheld (the wallet's tip is below the hub's)
    ops[at:at] = section
    return dict(sc, family=sc['family'] + '+forged_batch', ops=ops)


def _gen_base(run_seed, tier):
    r = stream('C08.gen', run_seed)
    family = r.choices(['byzantine', 'byzantine_faulty', 'checkpointed', 'reorg'], [52, 18, 14, 16])[0]
    big = tier != 'quick'
    n_blocks = r.randint(2, 5) if not big else r.randint(3, 9)
    if family == 'checkpointed':
        n_blocks = r.randint(1, 3)
    sc = {
        'family': family,
        'wallet_seed': r.getrandbits(64) or 1,
        'recv_gap': r.choice([3, 5, 20]), 'change_gap': r.choice([2, 6]),
        'mempool_order': r.choice(['arrival', 'txid']),
        'latency': r.choice(['fast', 'lan', 'wan']),
        'exec_delay': r.choice([[0.0, 0.002], [0.0, 0.05]]),
        'fault_p': r.choice([0.05, 0.2]) if family == 'byzantine_faulty' else 0.0,
    }
    if family == 'reorg':
        return _gen_reorg(r, sc, big)
    cut = r.choice([n_blocks, n_blocks, n_blocks - 1, r.randint(0, n_blocks)])   # blocks >= cut: header not yet delivered
    ops = []
    n = 0
    first = True
    if family == 'checkpointed':
        cnt = [n]
        ops.append(_deep_chain(r, cnt, big))
        n = cnt[0]
        first = not any(d['txs'] for d in ops[0]['deep'])
        sc['fault_p'] = r.choice([0.0, 0.0, 0.1])
    ops.append({'op': 'start', 'n': n}); n += 1
    for b in range(n_blocks):
        size = r.choice(SIZES) if r.random() < 0.8 else r.randint(1, 64)
        for _ in range(min(size - 1, r.choice([0, 1, 1, 2, 3]))):
            t = base._tx(r, 'standard', n, first)
            t['mut'] = _mut(r, allow_tx_bytes=r.random() < 0.5)
            ops.append(t); n += 1
            first = False
        ops.append({'op': 'block', 'n': n, 'size': size, 'hdr': b < cut}); n += 1
        if r.random() < 0.7 or b == n_blocks - 1:
            ops.append({'op': 'stage', 'n': n, 'wait': True, 'spread': r.choice([0.0, 0.05, 1.0]),
                        'dup': r.choice([0.0, 0.3]), 'stale': r.choice([0.0, 0.3])}); n += 1

    def probes(k):
        nonlocal n
        for _ in range(k):
            ops.append({'op': 'probe', 'n': n, 'block': round(r.random(), 4),
                        'index': r.choice([0.0, 0.999, round(r.random(), 4), round(r.random(), 4)]),
                        'via': r.choices(['batch', 'request', 'verify', 'verify_given'], [40, 15, 25, 20])[0],
                        'mempool': r.random() < 0.05, 'save': r.random() < 0.5, 'mut': _mut(r)}); n += 1
    probes(r.randint(4, 10) if not big else r.randint(10, 30))
    ops.append({'op': 'headers', 'n': n}); n += 1
    probes(r.randint(3, 8) if not big else r.randint(10, 30))
    ops.append({'op': 'stage', 'n': n, 'wait': True, 'spread': 0.0, 'dup': 0.0, 'stale': 0.0}); n += 1
    sc['ops'] = ops
    return sc


def _gen_reorg(r, sc, big):
    """History family: populate the verified-tx cache and the rows, replace the hub's last k blocks, let the
    wallet follow, ask again."""
    sc['latency'] = r.choice(['fast', 'lan'])
    sc['fault_p'] = r.choice([0.0, 0.0, 0.05])
    ops = [{'op': 'start', 'n': 0}]
    n = 1
    first = True

    def mostly_genuine():
        return {'kind': 'genuine'} if r.random() < 0.65 else _mut(r, allow_tx_bytes=False)

    def blocks(k):
        nonlocal n, first
        for _ in range(k):
            size = r.choice([1, 2, 3, 4, 5, 7, 8, 9, 16])
            for _ in range(min(size - 1, r.choice([0, 1, 1, 2]))):
                t = base._tx(r, 'standard', n, first)
                t['mut'] = mostly_genuine()
                ops.append(t); n += 1
                first = False
            ops.append({'op': 'block', 'n': n, 'size': size, 'hdr': True}); n += 1

    def cached(again):
        nonlocal n
        ops.append({'op': 'cached_fetch', 'n': n, 'again': again,
                    'picks': [[r.choice([0, 0, 0, 1, 1, 2, 3]), round(r.random(), 3)] for _ in range(r.randint(2, 6))],
                    'wallet_txs': r.random() < 0.8}); n += 1

    def stage():
        nonlocal n
        ops.append({'op': 'stage', 'n': n, 'wait': True, 'spread': r.choice([0.0, 0.05]), 'dup': 0.0,
                    'stale': 0.0}); n += 1

    blocks(r.randint(2, 4))
    stage()
    for _ in range(r.choice([1, 1, 2]) if not big else r.randint(1, 4)):
        cached(False)
        if r.random() < 0.3:
            blocks(1)
            if r.random() < 0.5:
                stage()
            cached(False)
        k = r.choice([1, 1, 1, 2, 2, 3])
        ops.append({'op': 'reorg', 'n': n, 'k': k, 'extra': r.choice([1, 1, 1, 2, 0]),
                    'notify': r.random() < 0.75}); n += 1
        if r.random() < 0.4:
            blocks(1)                      # the next block of the new branch (its header makes the wallet catch up)
        ops.append({'op': 'headers', 'n': n}); n += 1
        cached(True)
        stage()
        cached(True)
        for _ in range(r.randint(1, 3)):
            ops.append({'op': 'probe', 'n': n, 'block': round(1 - r.random() * 0.5, 4), 'index': round(r.random(), 4),
                        'via': r.choice(['batch', 'request', 'verify', 'verify_given']), 'mempool': False,
                        'save': False, 'mut': _mut(r)}); n += 1
    stage()
    sc['ops'] = ops
    return sc


def shrink(sc):
    if sc.get('fault_p'):
        yield dict(sc, fault_p=0.0)
    if sc.get('latency') != 'fast':
        yield dict(sc, latency='fast')
    if sc.get('exec_delay') != [0.0, 0.002]:
        yield dict(sc, exec_delay=[0.0, 0.002])
    for i, op in enumerate(sc['ops']):
        def repl(new):
            ops = list(sc['ops'])
            ops[i] = new
            return dict(sc, ops=ops)
        if op['op'] == 'block' and op.get('size', 1) > 1:
            yield repl(dict(op, size=max(1, op['size'] // 2)))
            yield repl(dict(op, size=op['size'] - 1))
        elif op['op'] == 'tx':
            if op.get('mut', {}).get('kind', 'genuine') != 'genuine':
                yield repl(dict(op, mut={'kind': 'genuine'}))
            for key in ('third', 'spends', 'spend_third'):
                if op.get(key):
                    yield repl(dict(op, **{key: []}))
            if op.get('segwit'):
                yield repl(dict(op, segwit=False))
        elif op['op'] == 'probe':
            if op.get('via') != 'verify_given':
                yield repl(dict(op, via='verify_given'))
            if op.get('save'):
                yield repl(dict(op, save=False))
        elif op['op'] == 'stage' and (op.get('dup') or op.get('stale') or op.get('spread')):
            yield repl(dict(op, dup=0.0, stale=0.0, spread=0.0))
        elif op['op'] == 'forged_batch':
            if op.get('report') != 'now':
                yield repl(dict(op, report='now'))
            if op.get('direct'):
                yield repl(dict(op, direct=None))
            if op.get('trigger') != 'update':
                yield repl(dict(op, trigger='update'))
            if op.get('other_roots') != 'random' or op.get('first_prev') != 'random' or op.get('link_p') != 1.0:
                yield repl(dict(op, other_roots='random', first_prev='random', link_p=1.0))
            if op.get('mine', 0) > op.get('k', 0):
                yield repl(dict(op, mine=op.get('k', 0)))
            if op.get('count', 3) > 3 and op.get('k', 0) <= 1:
                yield repl(dict(op, count=op['count'] - 1))
            if op.get('sizes') != [1]:
                yield repl(dict(op, sizes=[1]))


# ---------------------------------------------------------------------------------------------------
# execution
# ---------------------------------------------------------------------------------------------------

def apply_mut(hub, txid, mut):
    hub.proof_mut.pop(txid, None)
    hub.raw_mut.pop(txid, None)
    hub.height_shift.pop(txid, None)
    hub.hist_shift.pop(txid, None)
    kind = (mut or {}).get('kind', 'genuine')
    if kind == 'tx_bytes':
        hub.raw_mut[txid] = mut
    elif kind == 'height_shift':            # history AND proof dict name the shifted height
        hub.height_shift[txid] = int(mut.get('delta', 1))
    elif kind == 'height_only':             # history names the shifted height, the proof dict stays genuine
        hub.hist_shift[txid] = int(mut.get('delta', 1))
    elif kind != 'genuine':
        hub.proof_mut[txid] = mut
    return kind


def execute(scenario, keep_trace=False):
    env.import_lbry()
    from simverif.core import hub as H
    from lbry.wallet.transaction import Transaction

    run = Run(scenario, keep_trace)
    loop = run.new_loop(max_steps=3_000_000, max_vtime=50_000.0,
                        exec_delay=tuple(scenario.get('exec_delay', (0.0, 0.002))))
    W = H.WalletSync(run, loop, scenario)
    hub, ledger = W.hub, W.ledger
    ops = scenario.get('ops', [])
    sent_statuses = {}
    state = {'started': False, 'mode': 'sync'}
    mut_of = {}                 # hub txid -> mutation kind currently assigned
    judged = []                 # keeps (tx object, expected) alive: id() keys below stay unique
    expected_by_obj = {}
    proof_by_obj = {}           # id(tx object) -> (proof it was judged with, number of hub reorgs at that time)
    cached_requested = []       # txids asked through the cached path so far
    probe_saved = set()         # txids whose row was written by a direct probe of the harness (no address behind it)
    last_saved = {}             # product txid -> (expected verdict, mutation kind) of the object saved last

    checkpointed = {'on': False, 'missing_at_entry': set()}

    def local_header(height):
        buf = bytes(W.headers.io.getbuffer()[height * 112: height * 112 + 112])
        return buf if len(buf) == 112 else None

    def root_at(height):
        """Merkle root of the locally VALIDATED header at `height`, or None.  Plain store: the header the wallet
        holds there, provided it is a header the hub's chain has or had at that height (only those are valid: with
        validate_difficulty=False validity is linkage to the chain, and the only other headers that exist are the
        hub's forged ones, whose first never links).  Checkpointed store: a chunk that hashes to its checkpoint IS
        the hub's chain, so the hub's own header is the reference (the local copy is under test)."""
        if checkpointed['on']:
            return hub.blocks[height].root if 0 <= height < len(hub.blocks) else None
        raw = local_header(height)
        if raw is None or (height, raw) not in hub.honest_headers:
            return None
        return H.header_merkle_root(raw)

    def judge(tx, recorded_height, n_headers, served):
        """Independent verdict for what was served, at the height the wallet records. -> (expected, reason)"""
        if not isinstance(recorded_height, int) or not 0 < recorded_height < n_headers:
            return False, 'no_header'
        if not checkpointed['on'] and root_at(recorded_height) is None:
            return False, 'unvalidated_header'      # a header is stored there that never passed validation
        if not isinstance(served, dict) or 'merkle' not in served:
            return False, 'no_merkle'
        leaf = H.txhash_from_raw(bytes(tx.raw))
        branch = [bytes.fromhex(x)[::-1] for x in served['merkle']]
        folded = H.merkle_fold(leaf, branch, served['pos'])
        if folded != root_at(recorded_height):
            return False, 'fold'
        # "altering the position makes verification fail": the supplied position must be the index of a leaf in a
        # tree of this depth (bits above the branch would simply be ignored by a fold), and it must not name the
        # padding copy of an odd level - a node whose LEFT sibling equals it holds no transaction of the block
        pos = served['pos']
        if not isinstance(pos, int) or isinstance(pos, bool) or not 0 <= pos < (1 << len(branch)):
            return False, 'position_outside_tree'
        node = leaf
        for i, sib in enumerate(branch):
            if (pos >> i) & 1:
                if sib == node:
                    return False, 'position_on_padding_copy'
                node = H.dsha256(sib + node)
            else:
                node = H.dsha256(node + sib)
        return True, 'fold'

    # ---- header store oracle: whatever Headers.connect wrote must be headers of the hub's chain history ----------
    store = {'findings': [], 'report': 'now', 'reported': False}
    lied = {}                   # hub txid -> forged height the hub reports it at (family +forged_batch)

    def check_store(lo, hi, where):
        """Stored headers [lo, hi): each is a header the hub's chain has or had at that height, and names the
        stored header below it as its predecessor.  Findings are kept; report_store() turns them into the violation."""
        if checkpointed['on'] or hi <= lo:
            return
        lo = max(0, lo)
        b0 = max(0, lo - 1)
        buf = bytes(W.headers.io.getbuffer()[b0 * 112: hi * 112])
        for h in range(lo, min(hi, b0 + len(buf) // 112)):
            i = (h - b0) * 112
            raw = buf[i:i + 112]
            run.probes['stored_header_checked'] += 1
            forged = hub.forged_headers.get(h) == raw
            honest = (h, raw) in hub.honest_headers
            linked = h == 0 or raw[4:36] == H.dsha256(buf[i - 112:i])
            if forged:
                run.probes['forged_header_stored'] += 1
            if not honest or not linked:
                lie = hub.header_lies_served[-1] if hub.header_lies_served else None
                store['findings'].append(
                    f'{where}: the header stored at height {h} '
                    f"{'is a forged header of the batch the hub lied with' if forged else 'is not a header of the hub chain'}"
                    f"{'' if linked else ' and does not name the stored header ' + str(h - 1) + ' as its predecessor'}"
                    f' (local headers {len(W.headers)}, hub blocks {len(hub.blocks)}, last lie: '
                    f"{None if lie is None else (lie['start'], lie['n'], lie['k'])} = (start, headers, honest first))")
                return

    def report_store():
        if store['findings'] and not store['reported']:
            store['reported'] = True
            return run.violation('C08.unvalidated_header_stored', store['findings'][0],
                                 forged_batch=bool(hub.header_lies_served))
        return None

    orig_connect = W.headers.connect

    async def observed_connect(start, data):
        lie = hub.header_lies_served[-1] if hub.header_lies_served else None
        added = await orig_connect(start, data)
        if lie is not None and lie['data'] == data:
            run.probes['forged_batch_connected'] += 1
            run.ev('forged_connect', start, len(data) // 112, added, len(W.headers))
        if isinstance(added, int) and added > 0:
            check_store(start, start + added, f'Headers.connect({start}, {len(data) // 112} headers) -> {added}')
            if store['report'] == 'now':
                report_store()
        return added
    W.headers.connect = observed_connect

    def hub_txid_of(tx):
        # the hub transaction these served bytes belong to (same id unless the bytes were altered)
        if tx.id in hub.txs:
            return tx.id
        for txid, raw in hub.served_raw.items():
            if raw == bytes(tx.raw):
                return txid
        return None

    orig_verify = ledger.maybe_verify_transaction

    async def observed_verify(tx, remote_height, merkle=None):
        n_headers = len(W.headers)
        was = bool(tx.is_verified)
        missing_before = set(W.headers.known_missing_checkpointed_chunks) if checkpointed['on'] else ()
        try:
            ret = await orig_verify(tx, remote_height, merkle)
        except (asyncio.CancelledError, SimBudget, SimIdle):
            raise
        except Exception as e:  # noqa
            kind = mut_of.get(hub_txid_of(tx), 'genuine')
            run.ev('verify', 'exception', type(e).__name__)
            run.violation('C08.exception', f'maybe_verify_transaction(height={remote_height}, headers={n_headers}, '
                          f'mutation={kind}) raised {type(e).__name__}: {e}', exc=type(e).__name__, mut=kind)
            raise
        htxid = hub_txid_of(tx)
        kind = mut_of.get(htxid, 'genuine')
        served = merkle if merkle else hub.served_merkle.get(tx.id)
        if not merkle:
            run.probes['via_get_merkle'] += 1
        told_height = remote_height
        remote_height = tx.height            # the height the wallet records for the transaction
        expected, reason = judge(tx, remote_height, n_headers, served)
        got = bool(tx.is_verified)
        run.probes['judged'] += 1
        run.probes['sync_path_judged' if state['mode'] == 'sync' else 'direct_judged'] += 1
        if checkpointed['on']:
            if state['mode'] == 'sync':
                run.probes['ckpt_sync_path_judged'] += 1
            if isinstance(remote_height, int) and (remote_height // 1000) * 1000 in missing_before and expected:
                run.probes['ckpt_verified_in_missing_chunk'] += 1
        dh = served.get('block_height') if isinstance(served, dict) else None
        if isinstance(dh, int) and not isinstance(dh, bool) and isinstance(remote_height, int) and \
                dh != remote_height and 0 < dh < n_headers and 0 < remote_height < n_headers and 'merkle' in served:
            run.probes['recorded_height_differs_from_dict_both_present'] += 1
        run.probes['mut_' + kind] += 1
        run.probes['expected_verified' if expected else 'expected_rejected'] += 1
        if reason == 'no_header':
            run.probes['header_absent' if remote_height > 0 else 'height_not_positive'] += 1
        if reason == 'position_outside_tree':
            run.probes['pos_bit_above_branch_judged'] += 1
        elif reason == 'position_on_padding_copy':
            run.probes['dup_last_node_flip_judged'] += 1
        if expected and kind == 'tx_bytes':
            run.probes['witness_only_alteration_accepted'] += 1
        judged.append((tx, expected))
        expected_by_obj[id(tx)] = (expected, kind, remote_height, n_headers)
        proof_by_obj[id(tx)] = (served, len(hub.reorgs))
        if htxid in lied and remote_height == lied[htxid]:
            # the hub reports this transaction at the height of one of its forged headers, with a proof that
            # reproduces the Merkle root that forged header carries
            run.probes['forged_root_tx_judged'] += 1
            run.probes['forged_root_tx_judged_' + ('sync' if state['mode'] == 'sync' else 'direct')] += 1
            run.probes['forged_root_tx_' + {'no_header': 'header_absent', 'fold': 'honest_header_present'}.get(
                reason, reason)] += 1
            fh = hub.forged_headers.get(remote_height)
            if fh is not None and isinstance(served, dict) and 'merkle' in served and H.merkle_fold(
                    H.txhash_from_raw(bytes(tx.raw)), [bytes.fromhex(x)[::-1] for x in served['merkle']],
                    served['pos']) == H.header_merkle_root(fh):
                run.probes['forged_root_proof_consistent_with_forged_header'] += 1
        run.ev('verify', tx.id[:12], remote_height, n_headers, kind, reason, expected, got)
        if got != expected:
            detail = (f'tx {tx.id[:16]} recorded height={remote_height} (told {told_height}) local_headers={n_headers} '
                      f'mutation={kind} served={_short(served)} is_verified={got} expected={expected} '
                      f'({reason}; was {was})')
            if got and reason == 'no_header':
                run.violation('C08.verified_without_header', detail, mut=kind, where='object')
            elif got and reason == 'unvalidated_header':
                run.violation('C08.verified_without_proof', detail + ': the header the wallet holds at that height '
                              'is not a header of the hub chain (it never passed validation)', mut=kind,
                              where='object', unvalidated_header=True)
            elif got:
                run.violation('C08.verified_without_proof', detail, mut=kind, where='object')
            else:
                run.violation('C08.genuine_rejected', detail, mut=kind, where='object')
        return ret
    ledger.maybe_verify_transaction = observed_verify

    orig_save = W.db.save_transaction_io_batch

    def observed_save(txs, address, txhash, history):
        txs = list(txs)
        for tx in txs:
            if address != 'not-a-wallet-address':
                probe_saved.discard(tx.id)
            e = expected_by_obj.get(id(tx))
            if e is not None:
                last_saved[tx.id] = e
            else:
                last_saved.pop(tx.id, None)      # an object that never went through verification
        return orig_save(txs, address, txhash, history)
    W.db.save_transaction_io_batch = observed_save

    def check_rows(where):
        rows = W.sql("select txid, is_verified, height from tx order by txid")
        for txid, is_verified, height in rows:
            e = last_saved.get(txid)
            if e is None:
                continue
            expected, kind, rh, nh = e
            run.probes['row_checked'] += 1
            if is_verified and height != rh:
                return run.violation('C08.verified_without_proof', f'{where}: saved row of tx {txid[:16]} is verified '
                                     f'at height {height}, but the object saved last was judged at height {rh} '
                                     f'(mutation={kind})', mut=kind, where='row')
            if bool(is_verified) != expected:
                detail = (f'{where}: saved row of tx {txid[:16]} has is_verified={is_verified} height={height}; the '
                          f'object saved last was judged expected={expected} (mutation={kind}, height={rh}, '
                          f'local_headers={nh})')
                if is_verified and not (isinstance(rh, int) and 0 < rh < nh):
                    return run.violation('C08.verified_without_header', detail, mut=kind, where='row')
                if is_verified:
                    return run.violation('C08.verified_without_proof', detail, mut=kind, where='row')
                return run.violation('C08.genuine_rejected', detail, mut=kind, where='row')
        run.ev('rows', where, len(rows))
        return None

    def start_wallet():
        if not state['started']:
            state['started'] = True
            W.start()
            run.ev('start')

    async def settle(where):
        if not await W.quiesce(base.QUIESCE_BOUND):
            run.notes.append(f'not quiescent at {where}')
            run.outcome = 'budget'
            return False
        if check_rows(where) is not None:
            return False
        if check_rows_after_reorg(where) is not None:
            return False
        check_store(0, len(W.headers), f'{where} (quiescent)')
        return report_store() is None

    def headers_follow_hub():
        n = len(W.headers)
        if n != len(hub.blocks):
            return False
        buf = bytes(W.headers.io.getbuffer()[:n * 112])
        return buf == b''.join(b.header for b in hub.blocks)

    def check_rows_after_reorg(where):
        """After a reorganisation the wallet followed, once every address whose status changed has been
        re-synced (quiescence after the notification stage): a row still verified at height H must belong to a
        transaction of the hub's CURRENT block at H, i.e. a proof to the local header at H exists."""
        if not hub.reorgs or state['started'] is False or not headers_follow_hub():
            return None
        if hub.changed_addresses():
            return None                      # some address has not been told about its new status yet
        for txid, is_verified, height in W.sql("select txid, is_verified, height from tx order by txid"):
            if not is_verified or txid in probe_saved:
                continue
            run.probes['rows_checked_after_reorg'] += 1
            tx = hub.txs.get(hub.alias.get(txid, txid))
            if tx is None or tx.height != height:
                # only once the history sync of every wallet address the transaction touches has COMPLETED on the
                # current chain (a Byzantine answer during that re-sync, e.g. altered bytes, makes it fail: then the
                # product legitimately still shows the row of its last successful sync)
                real_id = hub.alias.get(txid, txid)
                touched = [a for a in sorted(hub.addr_txs) if real_id in hub.addr_txs[a]]
                synced = True
                for a in touched:
                    got = W.sql("select history from pubkey_address where address = ?", (a,))
                    # against what the chain REALLY says: a hub that lies about the height in its history (so that
                    # the reported entry coincides with the one the wallet stored before the reorganisation) never
                    # gives the wallet a reason, or the data, to re-sync
                    if not got or (got[0][0] or '') != hub.history_string(a, truthful=True):
                        synced = False
                if touched and not synced:
                    run.probes['row_after_reorg_address_not_resynced'] += 1
                    continue
                e = last_saved.get(txid)
                now = 'gone' if tx is None else ('in the mempool' if tx.height is None else f'at height {tx.height}')
                return run.violation('C08.verified_without_proof', f'{where}: after the reorganisation(s) {hub.reorgs} and '
                                     f'the re-sync of every changed address the row of tx {txid[:16]} is still verified at '
                                     f'height {height}, but on the chain the wallet now holds headers for the '
                                     f'transaction is {now} (last saved judgement: {e})',
                                     mut=(e[1] if e else 'genuine'), where='row_after_reorg')
        return None

    def judge_cached_result(txs, where):
        """Every transaction handed back as verified by the cached path: the proof it was accepted with must
        reproduce the root of the header the wallet holds at its height NOW (cache hits involve no fresh proof)."""
        n_headers = len(W.headers)
        for tx in txs.values():
            run.probes['cached_path_judged'] += 1
            if not tx.is_verified:
                continue
            if id(tx) not in proof_by_obj:
                run.probes['cached_path_unjudged_object'] += 1
                continue
            served, epoch = proof_by_obj[id(tx)]
            ok, reason = judge(tx, tx.height, n_headers, served)
            if not ok:
                kind = mut_of.get(hub_txid_of(tx), 'genuine')
                stale = len(hub.reorgs) > epoch
                htx = hub.txs.get(tx.id)
                now = 'gone' if htx is None else ('in the mempool' if htx.height is None else
                                                  f'at height {htx.height} position {htx.pos}')
                run.violation('C08.verified_without_proof', f'{where}: request_transactions(cached=True) returned tx '
                              f'{tx.id[:16]} as verified at height {tx.height} position {tx.position}, but the proof it was '
                              f'accepted with does not reproduce the Merkle root of the header the wallet holds at '
                              f'{tx.height} now ({reason}; local headers {n_headers}; reorganisations {hub.reorgs}; on the '
                              f'hub the transaction is {now})', mut=kind,
                              where='cache_after_reorg' if stale else 'cache')
                return False
        return True

    async def do_cached_fetch(op):
        """Ask for transactions of the top blocks through the ledger-wide verified-tx cache, the way resolve /
        claim_search results are inflated (request_transactions(..., cached=True))."""
        want = []
        if op.get('again'):
            for txid in cached_requested:
                if txid in hub.txs and txid not in want:
                    want.append(txid)
        real = [b for b in hub.blocks if b.txids]
        for top, f in op.get('picks', []):
            if not real:
                break
            blk = real[max(0, len(real) - 1 - int(top))]
            txid = blk.txids[min(len(blk.txids) - 1, int(float(f) * len(blk.txids)))]
            if txid not in want:
                want.append(txid)
        if op.get('wallet_txs'):
            for blk in real[-3:]:
                for txid in blk.txids:
                    if hub.txs[txid].wallet_related and txid not in want:
                        want.append(txid)
        if not want:
            return
        req = []
        for txid in want:
            tx = hub.txs[txid]
            h = tx.height if tx.height is not None else hub._mempool_height(tx)
            if tx.height is not None:
                h += hub.height_shift.get(txid, 0) + hub.hist_shift.get(txid, 0)
            req.append((txid, h))
            if txid not in cached_requested:
                cached_requested.append(txid)
        before = {txid for txid, _ in req if ledger._tx_cache.get(txid) is not None and
                  ledger._tx_cache.get(txid).tx is not None and ledger._tx_cache.get(txid).tx.is_verified}
        run.probes['cached_path_fetch'] += 1
        run.probes['cached_path_hit'] += len(before)
        if op.get('again') and hub.reorgs:
            run.probes['cached_path_refetched_after_reorg'] += 1
        state['mode'] = 'direct'
        got = {}
        try:
            async for txs in ledger.request_transactions(tuple(req), cached=True):
                got.update(txs)
        except (asyncio.CancelledError, SimBudget, SimIdle):
            raise
        except Exception as e:  # noqa
            # an exception inside maybe_verify_transaction is reported by its observer; anything else (e.g. the
            # cache bookkeeping tripping over a hub that served altered bytes under another id) reports nothing
            # as verified: observation only
            run.probes['cached_path_exception'] += 1
            run.ev('cached', op['n'], 'exception', type(e).__name__)
            return
        finally:
            state['mode'] = 'sync'
        run.ev('cached', op['n'], len(req), len(before), sorted((t.id[:8], t.height, bool(t.is_verified))
                                                                  for t in got.values()))
        judge_cached_result(got, f"cached fetch op {op['n']}")

    async def do_reorg(op):
        if len(hub.blocks) < 2:
            return
        rng = run.rng('reorg', op['n'])
        k = max(1, min(int(op.get('k', 1)), len(hub.blocks) - 1))
        new_len = k + max(0, int(op.get('extra', 1)))
        lowest = len(hub.blocks) - k
        cached_verified = [c.tx for c in ledger._tx_cache.cache.values() if c.tx is not None and c.tx.is_verified]
        if any(t.height == lowest for t in cached_verified):
            run.probes['reorg_lowest_block_holds_cached_verified_tx'] += 1
        had_headers = len(W.headers)
        base_h, moves = hub.reorg(rng, k, new_len)
        run.probes['reorg'] += 1
        for txid, (old_h, new_h) in sorted(moves.items()):
            if txid in hub.txs and hub.txs[txid].wallet_related:
                run.probes['reorg_tx_to_mempool' if new_h is None else
                           ('reorg_tx_same_height' if new_h == old_h else 'reorg_tx_moved')] += 1
        run.ev('reorg', op['n'], base_h, k, new_len, sorted((t[:8], m) for t, m in moves.items()))
        if op.get('notify', True) and had_headers > base_h:
            # the hub announces the tip of the new branch; the product has to rewind by itself
            run.probes['reorg_via_tip_notification'] += 1
            n_fail = len(W.failures)
            try:
                await W.deliver_header(len(hub.blocks) - 1, 0.0)
            except (asyncio.CancelledError, SimBudget, SimIdle):
                raise
            except Exception as e:  # noqa  (an observation: following a reorganisation is not what C08 states)
                run.notes.append(f'reorg not followed: {type(e).__name__}: {e}'[:200])
            if len(W.failures) > n_fail:
                run.notes.append(f'reorg: {W.failure_text()}'[:200])
            if headers_follow_hub():
                run.probes['reorg_followed'] += 1
        elif had_headers > base_h:
            run.probes['reorg_via_get_headers'] += 1

    async def do_probe(op):
        rng = run.rng('probe', op['n'])
        blocks = hub.blocks
        if not blocks:
            return
        target = None
        if op.get('mempool') and hub.mempool:
            target = hub.txs[hub.mempool[min(len(hub.mempool) - 1, int(op.get('index', 0) * len(hub.mempool)))]]
        if target is None:
            real = [b for b in blocks if b.txids]
            if not real:
                return
            blk = real[min(len(real) - 1, int(op.get('block', 0) * len(real)))]
            target = hub.txs[blk.txids[min(len(blk.txids) - 1, int(op.get('index', 0) * len(blk.txids)))]]
        mut = op.get('mut') or {'kind': 'genuine'}
        kind = apply_mut(hub, target.txid, mut)
        mut_of[target.txid] = kind
        true_height = target.height if target.height is not None else 0
        height = true_height + (int(mut.get('delta', 1)) if kind in ('height_shift', 'height_only') and
                                target.height is not None else 0)
        via = op.get('via', 'batch')
        run.ev('probe', op['n'], target.txid[:12], true_height, target.pos, kind, via)
        state['mode'] = 'direct'
        got = {}
        try:
            if via == 'batch':
                got = await ledger._single_batch([target.txid], {target.txid: height})
            elif via == 'request':
                want = [(target.txid, height)]
                if target.height is not None:
                    blk = blocks[target.height]
                    for k in (target.pos - 1, target.pos + 1):
                        if 0 <= k < len(blk.txids) and blk.txids[k] not in mut_of:
                            want.append((blk.txids[k], target.height))
                async for txs in ledger.request_transactions(tuple(want)):
                    got.update(txs)
            else:
                raw = hub.raw_for(target.txid)
                tx = Transaction(raw, height=height)
                given = hub.merkle_for(target.txid) if via == 'verify_given' else None
                await ledger.maybe_verify_transaction(tx, height, given)
                got = {tx.id: tx}
        except (asyncio.CancelledError, SimBudget, SimIdle):
            raise
        except Exception as e:  # noqa
            if not any(v['kind'] == 'C08.exception' for v in run.violations):
                run.violation('C08.exception', f'{via} of tx at height {height} (local headers {len(W.headers)}, '
                              f'mutation={kind}) raised {type(e).__name__}: {e}', exc=type(e).__name__, mut=kind)
            return
        finally:
            state['mode'] = 'sync'
        if op.get('save') and got and not run.violations:
            probe_saved.update(got)
            await W.db.save_transaction_io_batch(list(got.values()), 'not-a-wallet-address', b'\x00' * 20, '')
            check_rows(f"probe op {op['n']}")

    def do_block(op):
        rng = run.rng('block', op['n'])
        if not hub.blocks:
            hub.mine(rng, [], 0)           # genesis (height 0 is never verifiable: 0 < height)
        chosen = hub.select_for_block(rng, 1.0)
        size = int(op.get('size', 1))
        fill = max(0, size - 1 - len(chosen))
        blk = hub.mine(rng, chosen, fill)
        n = len(blk.txids)
        if n == 1:
            run.probes['single_tx_block'] += 1
        k = n
        while k > 1:
            if k % 2:
                run.probes['odd_level_block'] += 1
                break
            k //= 2
        run.ev('block', op['n'], blk.height, n, len(chosen))
        return blk

    async def deliver_headers(upto=None):
        """Hand the wallet every header it does not have yet, in order, and wait until connected.
        -> False (and a violation) if the wallet refuses a header of the honest chain."""
        upto = len(hub.blocks) if upto is None else upto
        while len(W.headers) < upto:
            before = len(W.headers)
            n_fail = len(W.failures)
            try:
                await W.deliver_header(before, 0.0)
            except (asyncio.CancelledError, SimBudget, SimIdle):
                raise
            except Exception as e:  # noqa
                if hub.reorgs:      # following a reorganisation is not what C08 states: observation only
                    run.notes.append(f'reorg not followed: {type(e).__name__}: {e}'[:200])
                    return True
                run.violation('C08.exception', f'honest header {before} (local headers {before}) was refused: '
                              f'{type(e).__name__}: {e}', exc=type(e).__name__, mut='headers')
                return False
            if len(W.headers) <= before and hub.reorgs:
                run.notes.append(f'reorg not followed: header {before} not connected')
                return True
            if len(W.headers) <= before:
                txt = W.failure_text() if len(W.failures) > n_fail else 'no exception'
                run.violation('C08.exception', f'honest header {before} was not connected to the local chain of '
                              f'{before} headers ({txt})', exc='NotConnected', mut='headers')
                return False
        return True

    async def do_forged_batch(op):
        """The hub answers ONE `blockchain.block.headers` request with k honest headers followed by forged ones
        (Hub.arm_header_lie), reports a wallet transaction of a real block at the height of a forged header that
        carries that block's Merkle root, and is honest about headers again afterwards."""
        if checkpointed['on']:
            return
        rng = run.rng('forged_batch', op['n'])
        if not hub.blocks:
            hub.mine(rng, [], 0)                               # genesis
        if len(W.headers) == 0 and not await deliver_headers(1):
            return
        start = len(W.headers)
        if start > len(hub.blocks) or \
                bytes(W.headers.io.getbuffer()[:start * 112]) != b''.join(b.header for b in hub.blocks[:start]):
            run.probes['forged_batch_skipped_wallet_not_on_hub_chain'] += 1
            run.ev('forged_batch', op['n'], 'skipped')
            return
        store['report'] = 'late' if op.get('report') == 'late' else 'now'
        # honest part: one more wallet payment, `mine` blocks whose headers the wallet has not been given
        new_tx = None
        if isinstance(op.get('tx'), dict):
            new_tx = base.build_tx(W, run, op['tx'])
            if new_tx is not None:
                mut_of[new_tx.txid] = apply_mut(hub, new_tx.txid, op['tx'].get('mut'))
        count = max(1, min(64, int(op.get('count', 4))))
        k = max(0, min(count - 1, int(op.get('k', 1))))
        trigger = op.get('trigger', 'notify_future')
        sizes = [int(x) for x in (op.get('sizes') or [1])]
        mined = 0
        while mined < min(16, max(0, int(op.get('mine', k)))) or \
                (trigger == 'notify_tip' and len(hub.blocks) - 1 <= start and mined < 16):
            chosen = hub.select_for_block(rng, 1.0)
            hub.mine(rng, chosen, max(0, sizes[mined % len(sizes)] - 1 - len(chosen)))
            mined += 1
        k_eff = min(k, len(hub.blocks) - start)
        j = min(count - 1, k_eff + max(0, int(op.get('at', 0))))
        forged_height = start + j
        # the transaction the hub will "prove" into the forged header: a wallet transaction of a real block
        cands = sorted((t for t in hub.txs.values() if t.wallet_related and t.height is not None and t.height > 0 and
                        t.height != forged_height), key=lambda t: (t.height, t.pos))
        target = None
        if cands:
            target = cands[min(len(cands) - 1, int(float(op.get('pick', 0.0)) * len(cands)))]
            if op.get('prefer_new') and new_tx is not None and any(t is new_tx for t in cands):
                target = new_tx
        roots = {}
        if op.get('other_roots') == 'real':
            real = [b for b in hub.blocks if b.txids and b.height > 0]
            for jj in range(k_eff, count):
                if real:
                    roots[jj] = real[jj % len(real)].root
        if target is not None:
            roots[j] = hub.blocks[target.height].root
        else:
            run.probes['forged_batch_without_wallet_tx'] += 1
        lie = hub.arm_header_lie(rng, start, count, k, roots, op.get('first_prev', 'random'),
                                 float(op.get('link_p', 1.0)))
        if target is not None:
            how = 'height_only' if op.get('tx_lie') == 'height_only' else 'height_shift'
            mut_of[target.txid] = apply_mut(hub, target.txid, {'kind': how, 'delta': forged_height - target.height})
            lied[target.txid] = forged_height
        run.ev('forged_batch', op['n'], start, len(hub.blocks), count, lie['k'], j, trigger,
               None if target is None else (target.txid[:12], target.height, target.pos))
        try:
            if trigger == 'notify_tip':                        # honest announcement of the true tip, above the local one
                await W.deliver_header(len(hub.blocks) - 1, 0.0)
            elif trigger == 'update':                          # catch-up as in Ledger.initial_headers_sync
                W._inc()
                try:
                    async with ledger._header_processing_lock:
                        await ledger.update_headers()
                finally:
                    W._dec()
            else:                                              # the hub announces the forged tip of its batch
                await W.deliver_header(start + count - 1, 0.0, raw=lie['data'][-112:])
        except (asyncio.CancelledError, SimBudget, SimIdle):
            raise
        except Exception as e:  # noqa  (what header sync does with a lying hub is not what C08 states: observation)
            run.probes['forged_batch_header_sync_raised'] += 1
            run.notes.append(f'forged batch: header sync raised {type(e).__name__}: {e}'[:200])
        finally:
            hub.header_lie = None                              # whether it was asked for or not: honest from here on
        if hub.header_lies_served and hub.header_lies_served[-1] is lie:
            run.probes['forged_batch_served'] += 1
            run.probes['forged_batch_k_zero' if lie['k'] == 0 else
                       ('forged_batch_k_in_first_half' if 2 * lie['k'] < count else 'forged_batch_k_in_second_half')] += 1
            run.probes['forged_batch_trigger_' + str(trigger)] += 1
            if len(hub.blocks) > start + lie['k']:
                run.probes['forged_batch_overlaps_honest_heights'] += 1
        check_store(max(0, start - 1), len(W.headers), f"after the forged batch of op {op['n']}")
        if store['report'] == 'now':
            report_store()
        run.ev('forged_batch_done', op['n'], len(W.headers), headers_follow_hub(), len(store['findings']))
        if run.violations:
            return
        if headers_follow_hub():
            run.probes['forged_batch_wallet_on_hub_chain_afterwards'] += 1
        via = op.get('direct')
        if via and target is not None:
            # ask the wallet right away, while whatever the batch left in the store is still there
            state['mode'] = 'direct'
            try:
                if via == 'batch':
                    await ledger._single_batch([target.txid], {target.txid: forged_height})
                else:
                    tx = Transaction(hub.raw_for(target.txid), height=forged_height)
                    given = hub.merkle_for(target.txid) if via == 'verify_given' else None
                    await ledger.maybe_verify_transaction(tx, forged_height, given)
            except (asyncio.CancelledError, SimBudget, SimIdle):
                raise
            except Exception as e:  # noqa
                if not any(v['kind'] == 'C08.exception' for v in run.violations):
                    run.violation('C08.exception', f'{via} of tx at forged height {forged_height} (local headers '
                                  f'{len(W.headers)}) raised {type(e).__name__}: {e}', exc=type(e).__name__,
                                  mut=mut_of.get(target.txid, 'genuine'))
            finally:
                state['mode'] = 'sync'

    async def do_forged_end(op):
        """The hub stops lying about the transactions of the forged batch; if the wallet is not on the hub's chain
        the hub announces its true tip (as it would with its next block).  Recovery is observed, not asserted."""
        for txid in sorted(lied):
            if txid in hub.txs:
                mut_of[txid] = apply_mut(hub, txid, {'kind': 'genuine'})
        n_lied = len(lied)
        lied.clear()
        hub.header_lie = None
        if checkpointed['on'] or not hub.blocks or not hub.header_lies_served:
            return
        if not headers_follow_hub():
            try:
                await W.deliver_header(len(hub.blocks) - 1, 0.0)
            except (asyncio.CancelledError, SimBudget, SimIdle):
                raise
            except Exception as e:  # noqa
                run.notes.append(f'after forged batch: true tip not connected: {type(e).__name__}: {e}'[:200])
        if headers_follow_hub():
            run.probes['forged_batch_recovered'] += 1
        else:
            run.probes['forged_batch_not_recovered'] += 1
            run.notes.append('after forged batch: the wallet did not return to the hub chain')
        run.ev('forged_end', op['n'], n_lied, len(W.headers), headers_follow_hub())

    opened = {'headers': False}

    async def ensure_headers():
        if not opened['headers']:
            opened['headers'] = True
            await W.open_headers()

    async def do_deep_chain(op):
        """A long chain that exists before the wallet: `chunks` x 1000 blocks with real transaction lists only
        at the `deep` heights; the wallet's header store is checkpointed on it and not back-filled."""
        if opened['headers'] or hub.blocks:
            return
        chunks = max(1, min(4, int(op.get('chunks', 2))))
        total = chunks * 1000
        rng = run.rng('deep', op['n'])
        hub.mine(rng, [], 0)                                   # genesis
        for d in sorted(op.get('deep', []), key=lambda d: d.get('h', 0)):
            h = int(d.get('h', 1))
            if not len(hub.blocks) <= h < total:
                continue
            hub.mine_synthetic(rng, h - len(hub.blocks))
            for t in d.get('txs', []):
                tx = base.build_tx(W, run, t)
                if tx is not None:
                    mut_of[tx.txid] = apply_mut(hub, tx.txid, t.get('mut'))
            chosen = hub.select_for_block(rng, 1.0)
            hub.mine(rng, chosen, max(0, int(d.get('size', 1)) - 1 - len(chosen)))
        hub.mine_synthetic(rng, total - len(hub.blocks))
        checkpoints = {s0: hub.chunk_checkpoint(s0) for s0 in range(0, total, 1000)}
        opened['headers'] = True
        checkpointed['on'] = True
        await W.open_headers(checkpoints)
        orig_fetch = W.headers.fetch_chunk

        async def observed_fetch(height):
            run.probes['ckpt_on_demand_fetch'] += 1
            if height % 1000:
                run.probes['ckpt_unaligned_fetch'] += 1
            return await orig_fetch(height)
        W.headers.fetch_chunk = observed_fetch
        if len(W.headers) != total or sorted(W.headers.known_missing_checkpointed_chunks) != sorted(checkpoints):
            raise RuntimeError('checkpointed header store did not open as expected')   # harness fidelity
        # part of the background back-fill (Ledger.initial_headers_sync.doit asks for chunk-aligned heights)
        for s0 in sorted((int(x) for x in op.get('prefill', [])), reverse=True):
            if s0 in checkpoints:
                await W.headers.ensure_chunk_at(s0)
        run.ev('deep_chain', chunks, len([b for b in hub.blocks if b.txids]),
               sorted(W.headers.known_missing_checkpointed_chunks))

    async def driver():
        await W.open(headers=False)
        hdr_ok = True           # once a block's header is withheld, all later ones are withheld too
        for op in ops:
            kind = op.get('op')
            if kind == 'deep_chain':
                await do_deep_chain(op)
                continue
            await ensure_headers()
            if kind == 'start':
                start_wallet()
            elif kind == 'tx':
                tx = base.build_tx(W, run, op)
                if tx is not None:
                    mut_of[tx.txid] = apply_mut(hub, tx.txid, op.get('mut'))
            elif kind == 'block':
                blk = do_block(op)
                hdr_ok = hdr_ok and bool(op.get('hdr', True))
                if hdr_ok and not await deliver_headers(blk.height + 1):
                    return
            elif kind == 'headers':
                hdr_ok = True
                if hub.reorgs and not headers_follow_hub() and len(W.headers) >= len(hub.blocks) and hub.blocks:
                    # local chain as long as the hub's but on an abandoned branch: announce the current tip
                    try:
                        await W.deliver_header(len(hub.blocks) - 1, 0.0)
                    except (asyncio.CancelledError, SimBudget, SimIdle):
                        raise
                    except Exception as e:  # noqa
                        run.notes.append(f'reorg not followed: {type(e).__name__}: {e}'[:200])
                elif not await deliver_headers():
                    return
                if hub.reorgs and headers_follow_hub():
                    run.probes['reorg_followed'] += 1
            elif kind == 'cached_fetch':
                await do_cached_fetch(op)
            elif kind == 'reorg':
                await do_reorg(op)
            elif kind == 'stage':
                start_wallet()
                base.do_stage_notifications(W, run, op, sent_statuses)
                if op.get('wait', True) and not await settle(f"stage op {op['n']}"):
                    return
            elif kind == 'probe':
                await do_probe(op)
            elif kind == 'forged_batch':
                await do_forged_batch(op)
            elif kind == 'forged_end':
                await do_forged_end(op)
            elif kind == 'pause':
                await asyncio.sleep(float(op.get('dt', 0.0)))
            if run.violations:
                return
        await ensure_headers()
        start_wallet()
        base.do_stage_notifications(W, run, {'op': 'stage', 'n': 'final', 'spread': 0.0, 'dup': 0.0, 'stale': 0.0},
                                    sent_statuses)
        await settle('final')

    try:
        run.drive(driver())
    except (SimBudget, SimIdle):
        pass
    finally:
        report_store()          # a finding whose report was deferred (`report: late`) and no settle came after it
        W.close()
    run.nontrivial = run.probes['judged'] >= 4 and run.probes['expected_verified'] >= 1 and \
        run.probes['expected_rejected'] >= 1
    outcome = run.outcome
    run.finish()
    if outcome == 'budget' and not run.violations:
        run.outcome = 'budget'
    return run.result()


def _short(served):
    if not isinstance(served, dict):
        return repr(served)[:80]
    d = dict(served)
    if 'merkle' in d:
        d['merkle'] = f"[{len(d['merkle'])} elements]"
    return repr(d)
