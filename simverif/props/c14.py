"""C14 — no double spend between concurrent transaction builds (DESIGN.md §7 C14).

Same harness as C03 (simverif/core/walletenv.py) in concurrent mode: 2..12 Transaction.create tasks over
1..2 accounts run at the same time; the only sources of interleaving are the scheduler-drawn completion
delays of the sqlite jobs and the start offsets of the tasks.  The oracle is a harness-held map
outpoint -> build.
"""
import asyncio

from simverif.core import env
from simverif.core.run import Run, SimBudget, SimIdle
from simverif.core.rng import stream
from simverif.core import walletenv as W

ID = 'C14'
LEVEL = 'exploration'
TIERS = {'quick': {'runs': 3000}, 'thorough': {'seconds': 600}}
DET_PAIRS_PER_SLOT = 3
RULE = ("one run = one wallet (1..2 accounts, one fee rate and one of the 7 strategy names or None) funded with a "
        "UTXO set that is scarce (fewer outputs than builds), tight or plentiful, of equal amounts (60 %) or mixed "
        "amounts, and 2..12 concurrent builds whose start offsets (all at once / staggered over 1 ms..0.3 s) and "
        "whose sqlite job completion delays come from the scheduler; each Transaction.create build pays 0.3..3.5 "
        "outputs' worth (so some need several inputs and some must fail), some carry pre-chosen inputs or are "
        "input-only; afterwards a build is held to the end, released after 0..0.1 s or broadcast (recorded as "
        "sync would) while others are still selecting; concurrent get_utxos() observers and late funding "
        "transactions run alongside. Layered on that base scenario by independent PRNG streams: (fund, 35 % of "
        "runs) 1..2 of the builds are real Account.fund calls - everything=True or amount=..., broadcast or preview; "
        "(net, 30 %) broadcasts go through Ledger.broadcast / broadcast_or_release to a stub server that accepts or "
        "refuses (RPCError) after 0..10 ms; (cancel, 30 %) 1..2 Transaction.create builds are cancelled with "
        "task.cancel() when they submit their k-th database job (k = 1..7; the job itself had started and still "
        "runs to its end, nothing is reordered or dropped); (prechosen, 35 %) 1..3 further Transaction.create builds in "
        "the txo_spend pattern: when such a build starts, its caller names plain UNRESERVED outputs of the funding "
        "account that are free at that instant as pre-chosen inputs (sweep, or a payment they do not cover). "
        "Non-trivial = at least two builds overlapped in time "
        "and one succeeded; distinct = distinct event-trace digest.")
COMPONENTS = {
    'real': ['lbry.wallet.ledger.Ledger.get_spendable_utxos/_utxo_reservation_lock/reserve_outputs/release_tx/'
             'broadcast/broadcast_or_release',
             'lbry.wallet.database.Database + AIOSQLite (select_txos is_reserved filter, sqlite coin chooser, '
             'reserve_outputs, save_transaction_io)', 'lbry.wallet.transaction.Transaction.create/sign',
             'lbry.wallet.coinselection.CoinSelector', 'lbry.wallet.account.Account (HD, real signing, Account.fund)',
             'lbry.wallet.wallet.Wallet', 'lbry.wallet.header.Headers(:memory:)'],
    'stub': ['network: only `broadcast` is answered (accept / RPCError refusal after a scenario-given delay); an '
             'accepted transaction is then recorded the way the sync path does',
             'thread/process pools (SimLoop inline executor; completion delays drawn by the scheduler)',
             'CoinSelector seed (drawn from the run PRNG instead of the kernel)',
             'Ledger constants network_name/checkpoints (simnet, no checkpoints)'],
}
ASSUMPTIONS = [
    'asyncio ready-queue order is FIFO (never permuted); interleavings come from executor completion times and '
    'task start offsets only',
    'sqlite commits are atomic; the single writer executor is FIFO as ThreadPoolExecutor(max_workers=1) is',
    'a build that ends with CancelledError counts as failed (its caller gave up: task.cancel(), wait_for timeout). '
    'The database job the cancelled build was awaiting had already started in the writer thread, so it still runs '
    'to its end and commits - exactly what concurrent.futures does with a running job; only its result is dropped',
    'a build that raises anything (InsufficientFundsError, a refused broadcast, or, on an unrepaired tree, the C03 '
    'TypeError) counts as failed; the failure mode itself is judged by C03',
    'pre-chosen inputs of Transaction.create builds are reserved sequentially by the harness before the concurrent '
    'phase starts; Account.fund(everything=True) reads and reserves its inputs itself, concurrently',
    'Account.fund builds are never cancelled (only Transaction.create builds are)',
    'a caller that names pre-chosen inputs does so from a listing taken at the instant it calls create() (outputs free '
    'in the model and held by no running build). If another build is handed such an output before the naming build '
    'has reserved it, the listing was stale: create() accepts any pre-chosen input by contract, so that run is not '
    'judged further (probe prechosen_stale_run); an output the naming build HAS reserved must not be handed out again. '
    'The same holds when the named output is already is_reserved at the instant the naming build reserves it (it was '
    'reserved on behalf of a selection the harness cannot see, e.g. of a build cancelled meanwhile)',
]
EXPECTED_PROBES = ['builds_overlapping', 'selection_waited_on_lock', 'build_ok', 'build_failed_insufficient',
                   'failed_while_holding', 'released_early', 'broadcast', 'reselected_after_release',
                   'observer_saw_held_absent', 'multi_input_build', 'multi_round_build', 'preselected_inputs',
                   'scarce_run', 'plentiful_run', 'equal_amounts_run', 'two_account_build',
                   'selection_during_release', 'late_fund', 'all_released_check', 'late_job',
                   'fund_everything_build', 'fund_everything_preview', 'fund_everything_broadcast',
                   'fund_amount_build', 'fund_reserved_while_other_selecting', 'net_accepted', 'net_refused',
                   'refused_then_released_by_product', 'cancel_fired', 'cancel_after_reservation',
                   'cancel_in_selection', 'cancel_not_reached', 'cancelled_while_holding',
                   'prechosen_unreserved_build', 'prechosen_reserved_by_build',
                   'prechosen_reserved_while_other_selecting', 'prechosen_stale_run']


# ---------------------------------------------------------------------------------------------------
# generation
# ---------------------------------------------------------------------------------------------------

def gen(run_seed, tier):
    r = stream('C14.gen', run_seed)
    thorough = tier == 'thorough'
    rate = r.choice([50, 50, 50, 1, 10, 100, 1000])
    n_accounts = r.choice([1, 1, 2])
    n_builds = r.randint(2, 12)
    supply = r.choice(['scarce', 'scarce', 'tight', 'plentiful', 'plentiful'])
    if supply == 'scarce':
        n_utxos = r.randint(1, max(1, n_builds - 1))
    elif supply == 'tight':
        n_utxos = n_builds + r.choice([0, 0, 1, 2])
    else:
        n_utxos = n_builds * r.choice([2, 3, 4]) + r.randrange(3)
    if thorough and r.random() < 0.05:
        n_utxos = r.choice([60, 120, 200])
    equal = r.random() < 0.6
    sf, coc = W.spend_fee(rate), W.cost_of_change(rate)
    base = r.choice([10 ** 8, 10 ** 8, 5 * 10 ** 6, sf * 20 + 12345, sf + 2 * coc + 5 * W.DUST])
    regime = r.choice(['plain', 'boundary', 'small'])
    amounts = [base if equal else W.gen_amount(r, rate, regime) for _ in range(n_utxos)]
    n_small = r.choice([0, 0, 1, 3])
    for _ in range(n_small):      # outputs that cover a bare transaction but leave no change: multi-round builds
        amounts.append(sf + W.BASE_SIZE * rate + 1 + r.randrange(0, coc + W.DUST))
    r.shuffle(amounts)
    ops = []
    i = 0
    while i < len(amounts):
        k = r.choice([1, 1, 2, 4])
        ops.append({'op': 'fund', 'acct': r.randrange(n_accounts),
                    'outs': [[1 if r.random() < 0.1 else 0, r.randrange(12), a] for a in amounts[i:i + k]],
                    'height': r.choice([1, 5, 40, 40, 0, -1])})
        i += k
    spread = r.choice([0.0, 0.0, 0.001, 0.01, 0.05, 0.3])
    typical = base if equal else max(1, sum(amounts) // max(1, len(amounts)))
    for _ in range(n_builds):
        funding = r.choice([[0], [0], [0, 1], [1]]) if n_accounts == 2 else [0]
        b = {'op': 'build', 'start': round(r.uniform(0, spread), 6), 'funding': funding,
             'change': r.choice(funding), 'sign': r.random() < 0.7,
             'then': r.choices(['hold', 'release', 'broadcast'], [3, 4, 3])[0],
             'after': r.choice([0.0, 0.0, 0.001, 0.01, 0.1]), 'bheight': r.choice([0, -1, 50])}
        shape = r.choices(['pay', 'pre_pay', 'input_only'], [7, 2, 1])[0]
        if shape == 'input_only':
            b['outputs'] = []
            b['pre'] = r.choice([None, ['smallest', 1], ['smallest', 1], [round(r.random(), 3)]])
        else:
            f = r.choice([0.3, 0.5, 0.5, 0.9, 0.999, 1.5, 2.2, 3.5])
            n_out = r.choice([1, 1, 1, 2, 3])
            b['outputs'] = [{'k': r.choice(['pay', 'pay', 'pay', 'claim', 'support']), 'ext': r.randrange(1000),
                             'name': 'abc', 'amount': ['abs', max(1, int(typical * f / n_out))]}
                            for _ in range(n_out)]
            if shape == 'pre_pay':
                b['pre'] = r.choice([['smallest', 1], [round(r.random(), 3)], [round(r.random(), 3), round(r.random(), 3)]])
        ops.append(b)
    horizon = spread + 0.15
    for _ in range(r.choice([0, 1, 2, 4])):
        ops.append({'op': 'observe', 'at': round(r.uniform(0, horizon), 6)})
    for _ in range(r.choice([0, 0, 1, 2])):
        ops.append({'op': 'fund', 'at': round(r.uniform(0, horizon), 6), 'acct': r.randrange(n_accounts),
                    'outs': [[0, r.randrange(12), base if equal else W.gen_amount(r, rate, regime)]],
                    'height': r.choice([1, 40, 0])})
    sc = {'family': 'conc', 'fee_per_byte': rate, 'fee_per_name_char': r.choice([0, 0, 200000]),
          'strategy': r.choice(W.STRATEGIES), 'n_accounts': n_accounts, 'supply': supply, 'equal': equal,
          'gaps': r.choice([[20, 6, 1], [20, 6, 1], [5, 2, 1], [3, 1, 1]]),
          'exec_delay': r.choice([[0.0, 0.0], [0.0, 0.002], [0.0, 0.002], [0.001, 0.01], [0.0, 0.05]]),
          'late_job_p': r.choice([0.0, 0.0, 0.05, 0.2]), 'ops': ops}
    # ---- features layered on the base scenario; each owns its PRNG stream, so the base stays what it was ----
    features = []
    rf = stream('C14.gen.fund', run_seed)
    room = 12 - n_builds
    if rf.random() < 0.35 and room > 0:
        features.append('fund')
        for _ in range(min(room, rf.choice([1, 1, 2]))):
            src = rf.randrange(n_accounts)
            ops.append({'op': 'build', 'kind': rf.choice(['fund_everything', 'fund_everything', 'fund_amount']),
                        'start': round(rf.uniform(0, spread), 6), 'funding': [src],
                        'change': rf.choice([src, (src + 1) % n_accounts]), 'broadcast': rf.random() < 0.5,
                        'bheight': rf.choice([0, -1, 50]),
                        'amount': ['abs', max(1, int(typical * rf.choice([0.3, 0.9, 1.5, 2.2])))],
                        'n_out': rf.choice([1, 1, 2])})
    rn = stream('C14.gen.net', run_seed)
    if rn.random() < 0.30:
        hit = False
        for op in ops:
            if op.get('op') == 'build' and (op.get('broadcast') or
                                            (op.get('kind', 'create') == 'create' and op.get('then') == 'broadcast')):
                op['refuse'] = rn.random() < 0.5
                op['net_delay'] = rn.choice([0.0, 0.0, 0.001, 0.01])
                hit = True
        if hit:
            features.append('net')
    rc = stream('C14.gen.cancel', run_seed)
    if rc.random() < 0.30:
        plain = [op for op in ops if op.get('op') == 'build' and op.get('kind', 'create') == 'create']
        for op in rc.sample(plain, min(len(plain), rc.choice([1, 1, 2]))):
            op['cancel_at'] = rc.randint(1, 7)
        if plain:
            features.append('cancel')
    rp = stream('C14.gen.prechosen', run_seed)
    room = 12 - sum(1 for op in ops if op.get('op') == 'build')
    if rp.random() < 0.35 and room > 0:
        # the txo_spend pattern: the caller names plain, unreserved outputs of the funding account at the moment it
        # calls create(); the build itself has to make them unavailable to the overlapping selections
        features.append('prechosen')
        for _ in range(min(room, rp.choice([1, 1, 2, 3]))):
            acct = rp.randrange(n_accounts)
            b = {'op': 'build', 'start': round(rp.uniform(0, spread), 6), 'funding': [acct], 'change': acct,
                 'sign': rp.random() < 0.5, 'then': rp.choices(['hold', 'release', 'broadcast'], [3, 4, 3])[0],
                 'after': rp.choice([0.0, 0.0, 0.001, 0.01]), 'bheight': rp.choice([0, -1, 50]), 'pre_unreserved': True,
                 'pre': rp.choice([[round(rp.random(), 3)], [round(rp.random(), 3)], ['smallest', 1],
                                   [round(rp.random(), 3), round(rp.random(), 3)]])}
            if rp.random() < 0.6:
                b['outputs'] = []                       # sweep
            else:
                b['outputs'] = [{'k': 'pay', 'ext': rp.randrange(1000),
                                 'amount': rp.choice([['pre', -rp.randrange(0, W.cost_of_change(rate) + W.DUST)],
                                                      ['pre', rp.choice([1, 10 ** 5])], ['abs', max(1, typical // 3)]])}]
            ops.append(b)
    if features:
        sc['family'] = 'conc+' + '+'.join(features)
    return sc


def shrink(sc):
    if sc.get('n_accounts') == 2:
        yield dict(sc, n_accounts=1)
    if sc.get('late_job_p'):
        yield dict(sc, late_job_p=0.0)
    if sc.get('fee_per_name_char'):
        yield dict(sc, fee_per_name_char=0)
    if sc.get('gaps') != [20, 6, 1]:
        yield dict(sc, gaps=[20, 6, 1])
    if sc.get('exec_delay') != [0.0, 0.002]:
        yield dict(sc, exec_delay=[0.0, 0.002])
    for i, op in enumerate(sc['ops']):
        def rep(new):
            ops = list(sc['ops'])
            ops[i] = new
            return dict(sc, ops=ops)
        if op.get('op') == 'fund' and len(op.get('outs') or []) > 1:
            for j in range(len(op['outs'])):
                yield rep(dict(op, outs=op['outs'][:j] + op['outs'][j + 1:]))
        if op.get('op') == 'build':
            if op.get('cancel_at'):
                yield rep({k: v for k, v in op.items() if k != 'cancel_at'})
                if op['cancel_at'] > 1:
                    yield rep(dict(op, cancel_at=op['cancel_at'] - 1))
            if 'refuse' in op:
                yield rep({k: v for k, v in op.items() if k not in ('refuse', 'net_delay')})
                if op.get('net_delay'):
                    yield rep(dict(op, net_delay=0.0))
            if op.get('kind') == 'fund_amount':
                yield rep(dict(op, n_out=1))
            if op.get('kind') in ('fund_everything', 'fund_amount'):
                if op.get('start'):
                    yield rep(dict(op, start=0.0))
                continue
            if op.get('pre') and not op.get('pre_unreserved'):
                yield rep(dict(op, pre=None))
            if op.get('pre_unreserved') and len(op.get('pre') or []) > 1 and op['pre'][0] != 'smallest':
                yield rep(dict(op, pre=op['pre'][:1]))
            if op.get('sign', True):
                yield rep(dict(op, sign=False))
            if op.get('then') != 'hold':
                yield rep(dict(op, then='hold'))
            if op.get('start'):
                yield rep(dict(op, start=0.0))
            if op.get('after'):
                yield rep(dict(op, after=0.0))
            outs = op.get('outputs') or []
            if len(outs) > 1:
                total = sum(o['amount'][1] for o in outs)
                yield rep(dict(op, outputs=[{'k': 'pay', 'ext': 0, 'amount': ['abs', total]}]))
            elif outs and outs[0].get('k') != 'pay':
                yield rep(dict(op, outputs=[{'k': 'pay', 'ext': 0, 'amount': outs[0]['amount']}]))


# ---------------------------------------------------------------------------------------------------
# execution
# ---------------------------------------------------------------------------------------------------

def execute(scenario, keep_trace=False):
    env.import_lbry()
    from lbry.error import InsufficientFundsError
    from lbry.wallet.rpc.jsonrpc import RPCError

    run = Run(scenario, keep_trace)
    ed = scenario.get('exec_delay') or [0.0, 0.002]
    loop = run.new_loop(max_steps=3_000_000, max_vtime=3600.0, exec_delay=(float(ed[0]), float(ed[1])))
    late_p = float(scenario.get('late_job_p') or 0.0)
    late_rng = run.rng('exec.late')

    def exec_hook(_executor, _fn, _args):
        if late_p and late_rng.random() < late_p:
            run.faults['late_job'] += 1
            run.probes['late_job'] += 1
            return late_rng.choice([0.005, 0.02, 0.1])
        return None
    loop.exec_hook = exec_hook

    sim = W.WalletSim(run, scenario, loop)
    run.probes['strategy_' + str(sim.strategy)] += 1
    run.probes[str(scenario.get('supply', 'unknown')) + '_run'] += 1
    if scenario.get('equal'):
        run.probes['equal_amounts_run'] += 1

    held = {}            # outpoint -> build id currently holding it (broadcast builds hold for ever)
    hold_seq = {}        # outpoint -> number of times it was acquired
    last_holder = {}     # outpoint -> build id that acquired it last (attribution of a leak)
    orphan = {}          # outpoint -> build id: reserved by a database job whose awaiting build was cancelled
    foreign_freed = {}   # outpoint -> kind of the build that released it while ANOTHER build held it
    was_released = set()
    releasing = [0]
    selecting = [0]
    stats = {'overlap': 0, 'ok': 0}
    victims = {}         # build id -> k: cancel when the build submits its k-th database job
    named = {}           # outpoint -> build id whose caller named it as a pre-chosen, unreserved input
    named_seq = {}       # outpoint -> its acquisition count at the naming
    domain_exit = []     # reasons why the rest of the run is outside the statement (nothing is judged any more)

    def acquire(op, bid):
        held[op] = bid
        hold_seq[op] = hold_seq.get(op, 0) + 1
        last_holder[op] = bid

    def kind_of(bid):
        hb = sim.builds.get(bid)
        return hb.kind if hb is not None else 'unknown'

    def acquired(b, ops, what):
        """Outpoints were handed to build b (selection returned / its own reservation returned)."""
        bid = b.bid if b is not None else -1
        if run.violations or domain_exit:
            return                  # the first violation is the verdict; what follows it is noise
        for op in ops:
            if op in held:
                holder = held[op]
                hb = sim.builds.get(holder)
                run.violation('C14.double_select', f'{what} of build {bid} ({kind_of(bid)}) at '
                              f't={loop.elapsed():.6f} returned {op} which build {holder} ({kind_of(holder)}, '
                              f'{hb.state if hb else "?"}) holds since its own selection; strategy {sim.strategy}; '
                              f'freed meanwhile by: {foreign_freed.get(op, "nobody")}',
                              holder='same_build' if holder == bid else (hb.state if hb else 'unknown'),
                              via=kind_of(bid), holder_via=kind_of(holder), freed_by=foreign_freed.get(op, 'nobody'),
                              prechosen='holder' if named.get(op) == holder else 'no')
                return
            if op in was_released:
                run.probes['reselected_after_release'] += 1
            acquire(op, bid)

    def on_select_return(b, call, ops):
        bid = b.bid if b is not None else -1
        if call['waited']:
            run.probes['selection_waited_on_lock'] += 1
        if releasing[0]:
            run.probes['selection_during_release'] += 1
        acquired(b, ops, f'selection call (deficit {call["amount"]})')
        run.ev('select', bid, call['amount'], len(ops), [op[:10] for op in ops][:6])
    sim.on_select_return = on_select_return

    def on_reserve_return(b, ops):
        # a caller that picks and reserves outputs by itself (Account.fund(everything=True))
        bid = b.bid if b is not None else -1
        if selecting[0] > 1:
            run.probes['fund_reserved_while_other_selecting'] += 1
        # reserving again what the build already holds (Transaction.create may reserve the pre-chosen inputs it
        # was handed) acquires nothing; a *selection* that returns an output the build holds stays a violation
        again = [op for op in ops if held.get(op) == bid]
        if again:
            run.probes['own_hold_reserved_again'] += 1
        ops = [op for op in ops if held.get(op) != bid]
        # outputs the CALLER named (pre-chosen, unreserved): if another build was handed one of them in the
        # meantime, the caller's listing was stale - create() accepts any pre-chosen input by contract, two
        # transactions now spend it, and nothing about the rest of this run is the builds' doing
        stale = [op for op in ops if named.get(op) == bid and
                 (op in held or hold_seq.get(op, 0) != named_seq.get(op, 0) or    # handed out since the naming
                  getattr(b, 'pre_already_reserved', False))]      # ... or reserved for somebody when b reserved it
        if stale and not run.violations and not domain_exit:
            domain_exit.append('stale_prechosen')
            run.probes['prechosen_stale_run'] += 1
            run.ev('domain_exit', bid, [op[:10] for op in stale])
        if any(named.get(op) == bid for op in ops) and not stale:
            run.probes['prechosen_reserved_by_build'] += 1
            if selecting[0] > 1:
                run.probes['prechosen_reserved_while_other_selecting'] += 1
        acquired(b, ops, 'own read + reserve_outputs')
        run.ev('reserve', bid, len(ops), [op[:10] for op in ops][:6])
    sim.on_reserve_return = on_reserve_return

    def on_release_call(b, ops):
        # the hold ends when the release is *requested* by the holding build (the row changes somewhere
        # inside the call); a release by anybody else ends nothing in the oracle's eyes
        if b is None:
            return
        for op in ops:
            if held.get(op) == b.bid:
                del held[op]
                was_released.add(op)
            elif op in held:
                foreign_freed[op] = b.kind
                run.probes['release_of_foreign_hold'] += 1
    sim.on_release_call = on_release_call

    def drop_holds_of(b):
        for op in [op for op, bid in held.items() if bid == b.bid]:
            del held[op]
            was_released.add(op)

    async def visible_check(tag):
        """An outpoint held throughout a get_utxos() call must not be in its result."""
        for i, acct in enumerate(sim.accounts):
            if run.violations or domain_exit:
                return True
            snap = {op: hold_seq[op] for op in held}
            got = {t.id for t in await acct.get_utxos(no_tx=True, no_channel_info=True)}
            bad = sorted(op for op in got if op in held and snap.get(op) == hold_seq[op])
            if snap:
                run.probes['observer_saw_held_absent'] += 1
            if bad:
                hb = sim.builds.get(held[bad[0]])
                run.violation('C14.held_visible', f'{tag}: get_utxos() of account {i} returned {bad[:3]} while '
                              f'build {held[bad[0]]} ({hb.state if hb else "?"}) held it during the whole call; '
                              f'freed meanwhile by: {foreign_freed.get(bad[0], "nobody")}',
                              holder=hb.state if hb else 'unknown', holder_via=kind_of(held[bad[0]]),
                              freed_by=foreign_freed.get(bad[0], 'nobody'))
                return True
            run.ev(tag, i, len(got), len(snap))
        return False

    # ---- fault: cancellation of a build when it submits its k-th database job --------------------------------
    orig_run_in_executor = loop.run_in_executor

    def run_in_executor(executor, func, *args):
        b = W.CURRENT_BUILD.get()
        if b is not None and b.spec.get('pre_unreserved') and b.pre and b.state == 'running' and \
                not getattr(b, 'first_job_seen', False):
            # observation only: the first database job of a build with caller-named inputs is the reservation of
            # those inputs; were they reserved by somebody else at the instant it executes?
            b.first_job_seen = True
            names = [u.op for u in b.pre]

            def first_job(*a):
                if sim.db_is_reserved(names):
                    b.pre_already_reserved = True
                return func(*a)
            return orig_run_in_executor(executor, first_job, *args)
        if b is None or b.bid not in victims or b.cancel_expected or b.state != 'running':
            return orig_run_in_executor(executor, func, *args)
        b.jobs += 1
        if b.jobs != victims[b.bid]:
            return orig_run_in_executor(executor, func, *args)
        # The writer thread is idle when a job is submitted (AIOSQLite serialises them), so the job has
        # started by the time the cancellation arrives: concurrent.futures cannot cancel it, it runs to
        # its end and commits; only the awaiting coroutine is unwound.
        b.cancel_expected = True
        in_selection = bool(b.calls) and b.calls[-1]['returned'] is None and b.calls[-1]['exc'] is None

        def job(*a):
            before = sim.db_reserved_unspent()
            try:
                return func(*a)
            finally:
                newly = sim.db_reserved_unspent() - before
                if newly:
                    b.cancel_during_reserve = True
                    for op in sorted(newly):
                        orphan[op] = b.bid
        inner = orig_run_in_executor(executor, job, *args)
        outer = loop.create_future()

        def relay(f):
            if outer.cancelled():
                if not f.cancelled():
                    f.exception()          # retrieved: the result of a job nobody waits for any more
                return
            if f.cancelled():
                outer.cancel()
            elif f.exception() is not None:
                outer.set_exception(f.exception())
            else:
                outer.set_result(f.result())
        inner.add_done_callback(relay)
        loop.call_soon(b.task.cancel)
        run.faults['build_cancelled'] += 1
        run.probes['cancel_fired'] += 1
        run.probes['cancel_in_selection' if in_selection else
                   'cancel_after_reservation' if b.touched else 'cancel_before_reservation'] += 1
        run.ev('cancel', b.bid, b.jobs, in_selection)
        return outer

    # ---- tasks --------------------------------------------------------------------------------------
    def failed(b):
        if b.cancelled:
            b.end = 'cancelled'
            if b.touched or b.cancel_during_reserve:
                run.probes['cancelled_while_holding'] += 1
        elif isinstance(b.exc, InsufficientFundsError):
            b.end = 'failed_insufficient'
            run.probes['build_failed_insufficient'] += 1
            run.faults['insufficient_funds'] += 1
        elif isinstance(b.exc, RPCError):
            b.end = 'broadcast_refused'
            run.probes['net_refused'] += 1
            run.faults['broadcast_refused'] += 1
        else:
            b.end = 'failed_other'
            run.probes['build_failed_other_' + type(b.exc).__name__] += 1
            run.faults['non_insufficient_failure'] += 1
        if b.touched:
            run.probes['failed_while_holding'] += 1
        drop_holds_of(b)            # a failed build holds nothing any more (a leak is checked at the end)
        sim.settle_model_after_create(b)
        run.ev('build', b.bid, b.kind, 'fail', type(b.exc).__name__, [c['amount'] for c in b.calls])

    def succeeded(b):
        if b.parsed is None:
            raise RuntimeError(f'build {b.bid} returned an unserialisable transaction: {b.parse_error!r}')
        p = b.parsed
        stats['ok'] += 1
        run.probes['build_ok'] += 1
        if len(p['ins']) >= 2:
            run.probes['multi_input_build'] += 1
        if len(b.calls) >= 2:
            run.probes['multi_round_build'] += 1
        if b.pre:
            run.probes['preselected_inputs'] += 1
        if len({sim.utxos[i['op']].acct for i in p['ins'] if i['op'] in sim.utxos}) == 2:
            run.probes['two_account_build'] += 1
        run.ev('build', b.bid, b.kind, 'ok', b.tx.id[:16], [i['op'][:10] for i in p['ins']][:8], len(p['outs']))

    async def record_broadcast(b, op):
        if selecting[0]:
            run.faults['broadcast_while_others_select'] += 1
        made = await sim.broadcast(b, int(op.get('bheight', 0)))
        b.end = 'broadcast'
        run.probes['broadcast'] += 1
        run.ev('broadcast', b.bid, b.tx.height, [(u.op[:10], u.amount) for u in made])

    async def build_task(b):
        op = b.spec
        await asyncio.sleep(max(0.0, float(op.get('start', 0.0))))
        if run.violations:
            return
        if sim.in_flight:
            run.probes['builds_overlapping'] += 1
            stats['overlap'] += 1
        if op.get('pre_unreserved'):
            # the caller's listing is taken now: free in the model and held by no running build; nothing is
            # awaited between it and the call of create()
            listed = {r['txoid'] for r in sim.sql("SELECT txoid FROM txo")}    # rows a listing can show at all
            await sim.prepare(b, exclude=set(held) | {o for o in sim.utxos if o not in listed})
            for u in b.pre:
                named[u.op] = b.bid
                named_seq[u.op] = hold_seq.get(u.op, 0)
            run.probes['prechosen_unreserved_build' if b.pre else 'prechosen_nothing_to_name'] += 1
            run.ev('named', b.bid, [u.op[:10] for u in b.pre])
        selecting[0] += 1
        try:
            await sim.create(b)
        finally:
            selecting[0] -= 1
        if b.bid in victims and not b.cancel_expected:
            run.probes['cancel_not_reached'] += 1
        if b.state == 'failed':
            return failed(b)
        succeeded(b)
        # an input the build spends without having been handed it by a selection (or as pre-chosen) would be
        # outside the map; record the hold so the disjointness check sees it
        for i in b.parsed['ins']:
            if i['op'] not in held and not domain_exit:
                acquire(i['op'], b.bid)
        sim.settle_model_after_create(b)
        how = op.get('then', 'hold')
        if how == 'hold':
            return
        await asyncio.sleep(max(0.0, float(op.get('after', 0.0))))
        if run.violations:
            return
        if how == 'release':
            if selecting[0]:
                run.probes['released_early'] += 1
                run.faults['release_while_others_select'] += 1
            releasing[0] += 1
            try:
                await sim.release(b)
            finally:
                releasing[0] -= 1
            b.end = 'released'
            run.ev('released', b.bid)
        elif 'refuse' in op:
            # the daemon's way: Ledger.broadcast_or_release over the (stub) network
            accepted = await sim.broadcast_or_release(b)
            if accepted:
                run.probes['net_accepted'] += 1
                await record_broadcast(b, op)
            else:
                b.end = 'broadcast_refused_released'
                run.probes['net_refused'] += 1
                run.probes['refused_then_released_by_product'] += 1
                run.faults['broadcast_refused'] += 1
                run.ev('refused', b.bid)
        else:
            await record_broadcast(b, op)

    async def fund_task(b):
        """The build is a real Account.fund call: it selects (everything=True: reads and reserves by itself),
        builds, and broadcasts or releases (preview) inside the product."""
        op = b.spec
        await asyncio.sleep(max(0.0, float(op.get('start', 0.0))))
        if run.violations:
            return
        if sim.in_flight:
            run.probes['builds_overlapping'] += 1
            stats['overlap'] += 1
        run.probes[b.kind + '_build'] += 1
        selecting[0] += 1
        try:
            await sim.account_fund(b)
        finally:
            selecting[0] -= 1
        if b.state == 'failed':
            return failed(b)
        succeeded(b)
        if b.state == 'released':           # preview: Account.fund released the transaction itself
            b.end = 'released'
            run.probes[b.kind + '_preview'] += 1
            run.ev('released', b.bid)
            return
        run.probes[b.kind + '_broadcast'] += 1
        run.probes['net_accepted'] += 1
        for i in b.parsed['ins']:
            if i['op'] not in held:
                acquire(i['op'], b.bid)
        sim.settle_model_after_create(b)
        await record_broadcast(b, op)

    async def observe_task(op, n):
        await asyncio.sleep(max(0.0, float(op.get('at', 0.0))))
        if not run.violations:
            await visible_check(f'observe#{n}')

    async def late_fund_task(op, n):
        await asyncio.sleep(max(0.0, float(op.get('at', 0.0))))
        made = await sim.fund(op)
        run.probes['late_fund'] += 1
        run.faults['concurrent_fund'] += 1
        run.ev('late_fund', n, [(u.op[:10], u.amount) for u in made])

    def leak_site(ops):
        """Which build the leaked outpoints go back to, and how that build ended."""
        prio = {'cancelled': 0, 'broadcast_refused': 1, 'failed_other': 2, 'failed_insufficient': 3}
        best = None
        for op in sorted(ops):
            for bid in (orphan.get(op), last_holder.get(op)):
                hb = sim.builds.get(bid)
                if hb is None:
                    continue
                key = (prio.get(hb.end, 9), hb.bid)
                if best is None or key < best[0]:
                    best = (key, hb)
        if best is None:
            return {'cause': 'unknown', 'via': 'unknown', 'cancel_during_reserve': False}
        hb = best[1]
        mine = [op for op in ops if orphan.get(op) == hb.bid or last_holder.get(op) == hb.bid]
        only_orphans = bool(mine) and all(orphan.get(op) == hb.bid and last_holder.get(op) != hb.bid for op in mine)
        return {'cause': hb.end or hb.state, 'via': hb.kind,
                'cancel_during_reserve': bool(hb.cancelled and only_orphans)}

    async def driver():
        await sim.open()
        ops = scenario['ops']
        for n, op in enumerate(ops):
            if op.get('op') == 'fund' and 'at' not in op:
                made = await sim.fund(op)
                run.ev('fund', n, [(u.op[:10], u.amount, u.acct, u.height) for u in made])
        builds = []
        for n, op in enumerate(ops):
            if op.get('op') == 'build' and len(builds) < 12:
                b = W.Build(n, op)
                if b.kind in ('fund_everything', 'fund_amount'):
                    sim.prepare_fund(b)
                elif op.get('pre_unreserved'):
                    b.kind = 'create'
                    sim.builds[b.bid] = b          # its inputs are named when it starts
                else:
                    b.kind = 'create'
                    await sim.prepare(b)
                    for u in b.pre:
                        acquire(u.op, b.bid)
                    if op.get('cancel_at'):
                        victims[b.bid] = max(1, int(op['cancel_at']))
                builds.append(b)
        if victims or any(b.spec.get('pre_unreserved') for b in builds):
            loop.run_in_executor = run_in_executor      # instance attribute: this run only
        tasks = [asyncio.ensure_future(fund_task(b) if b.kind != 'create' else build_task(b)) for b in builds]
        for n, op in enumerate(ops):
            if op.get('op') == 'observe':
                tasks.append(asyncio.ensure_future(observe_task(op, n)))
            elif op.get('op') == 'fund' and 'at' in op:
                tasks.append(asyncio.ensure_future(late_fund_task(op, n)))
        if tasks:
            done = await asyncio.gather(*tasks, return_exceptions=True)
            for d in done:
                if isinstance(d, BaseException):
                    raise d            # harness error, never a verdict
        if run.violations:
            return
        if domain_exit:
            run.ev('not_judged', domain_exit[0])
            await sim.close()
            return
        # ---- end of the concurrent phase: successful unreleased builds are pairwise disjoint --------------
        owner = {}
        for b in builds:
            if b.state in ('held', 'broadcast'):
                for i in b.parsed['ins']:
                    if i['op'] in owner:
                        return run.violation('C14.double_select', f'builds {owner[i["op"]]} and {b.bid} both spend '
                                             f'{i["op"]} (found at the end)', holder='final_disjointness',
                                             via=b.kind, holder_via=kind_of(owner[i['op']]),
                                             freed_by=foreign_freed.get(i['op'], 'nobody'),
                                             prechosen='holder' if named.get(i['op']) == owner[i['op']] else 'no')
                    owner[i['op']] = b.bid
        if await visible_check('final-held'):
            return
        # ---- release everything still held, then every non-broadcast output must be available again --------
        for b in builds:
            if b.state == 'held':
                await sim.release(b)
                b.end = 'released'
                run.ev('final_release', b.bid)
        run.probes['all_released_check'] += 1
        got = {}
        for i, acct in enumerate(sim.accounts):
            got[i] = {t.id for t in await acct.get_utxos(no_tx=True, no_channel_info=True)}
        expected = [u for u in sim.unspent()]
        missing = sorted(u.op for u in expected if u.op not in got[u.acct])
        leaked = sorted(sim.db_reserved_unspent())
        if missing or leaked:
            states = sorted((b.bid, b.kind, b.end or b.state) for b in builds)
            return run.violation('C14.leaked_reservation', f'after every build was released, failed or broadcast '
                                 f'{len(missing)} unspent outputs are not returned by get_utxos() {missing[:3]} and '
                                 f'{len(leaked)} unspent rows have is_reserved=1 {leaked[:3]}; builds: {states}',
                                 **leak_site(sorted(set(missing) | set(leaked))))
        spent_visible = sorted(op for i in got for op in got[i] if op in sim.utxos and sim.utxos[op].spent)
        if spent_visible:
            return run.violation('C14.held_visible', f'outputs spent by a broadcast build are returned by get_utxos(): '
                                 f'{spent_visible[:3]}', holder='broadcast', holder_via='unknown', freed_by='nobody')
        run.ev('final', sorted((i, len(v)) for i, v in got.items()), len(expected))
        await sim.close()

    try:
        run.drive(driver())
    except (SimBudget, SimIdle):
        pass
    run.nontrivial = stats['overlap'] >= 1 and stats['ok'] >= 1
    run.finish()
    return run.result()
