"""C14 — no double spend between concurrent transaction builds (DESIGN.md §7 C14).

Same harness as C03 (simverif/core/walletenv.py) in concurrent mode: 2..12 Transaction.create tasks over
1..2 accounts run at the same time; the only sources of interleaving are the scheduler-drawn completion
delays of the sqlite jobs and the start offsets of the tasks.  The oracle is a harness-held map
outpoint -> build.
"""
import asyncio

from simverif.core import env
from simverif.core.run import Run, SimBudget, SimIdle
from simverif.core.rng import stream
from simverif.core import walletenv as W

ID = 'C14'
LEVEL = 'exploration'
TIERS = {'quick': {'runs': 3000}, 'thorough': {'seconds': 600}}
DET_PAIRS_PER_SLOT = 3
RULE = ("one run = one wallet (1..2 accounts, one fee rate and one of the 7 strategy names or None) funded with a "
        "UTXO set that is scarce (fewer outputs than builds), tight or plentiful, of equal amounts (60 %) or mixed "
        "amounts, and 2..12 concurrent Transaction.create tasks whose start offsets (all at once / staggered over "
        "1 ms..0.3 s) and whose sqlite job completion delays come from the scheduler; each build pays 0.3..3.5 "
        "outputs' worth (so some need several inputs and some must fail), some carry pre-chosen inputs or are "
        "input-only; afterwards a build is held to the end, released after 0..0.1 s or 'broadcast' (recorded as "
        "sync would) while others are still selecting; concurrent get_utxos() observers and late funding "
        "transactions run alongside. Non-trivial = at least two builds overlapped in time and one succeeded; "
        "distinct = distinct event-trace digest.")
COMPONENTS = {
    'real': ['lbry.wallet.ledger.Ledger.get_spendable_utxos/_utxo_reservation_lock/reserve_outputs/release_tx',
             'lbry.wallet.database.Database + AIOSQLite (select_txos is_reserved filter, sqlite coin chooser, '
             'reserve_outputs, save_transaction_io)', 'lbry.wallet.transaction.Transaction.create/sign',
             'lbry.wallet.coinselection.CoinSelector', 'lbry.wallet.account.Account (HD, real signing)',
             'lbry.wallet.wallet.Wallet', 'lbry.wallet.header.Headers(:memory:)'],
    'stub': ['network (never connected; broadcast is modelled by recording the transaction as the sync path does)',
             'thread/process pools (SimLoop inline executor; completion delays drawn by the scheduler)',
             'CoinSelector seed (drawn from the run PRNG instead of the kernel)',
             'Ledger constants network_name/checkpoints (simnet, no checkpoints)'],
}
ASSUMPTIONS = [
    'asyncio ready-queue order is FIFO (never permuted); interleavings come from executor completion times and '
    'task start offsets only',
    'sqlite commits are atomic; the single writer executor is FIFO as ThreadPoolExecutor(max_workers=1) is',
    'cancellation of a build is not generated (CancelledError bypasses the release; outside the statement)',
    'a build that raises anything (InsufficientFundsError or, on an unrepaired tree, the C03 TypeError) counts as '
    'failed; the failure mode itself is judged by C03',
    'pre-chosen inputs are reserved sequentially by the harness before the concurrent phase starts',
]
EXPECTED_PROBES = ['builds_overlapping', 'selection_waited_on_lock', 'build_ok', 'build_failed_insufficient',
                   'failed_while_holding', 'released_early', 'broadcast', 'reselected_after_release',
                   'observer_saw_held_absent', 'multi_input_build', 'multi_round_build', 'preselected_inputs',
                   'scarce_run', 'plentiful_run', 'equal_amounts_run', 'two_account_build',
                   'selection_during_release', 'late_fund', 'all_released_check', 'late_job']


# ---------------------------------------------------------------------------------------------------
# generation
# ---------------------------------------------------------------------------------------------------

def gen(run_seed, tier):
    r = stream('C14.gen', run_seed)
    thorough = tier == 'thorough'
    rate = r.choice([50, 50, 50, 1, 10, 100, 1000])
    n_accounts = r.choice([1, 1, 2])
    n_builds = r.randint(2, 12)
    supply = r.choice(['scarce', 'scarce', 'tight', 'plentiful', 'plentiful'])
    if supply == 'scarce':
        n_utxos = r.randint(1, max(1, n_builds - 1))
    elif supply == 'tight':
        n_utxos = n_builds + r.choice([0, 0, 1, 2])
    else:
        n_utxos = n_builds * r.choice([2, 3, 4]) + r.randrange(3)
    if thorough and r.random() < 0.05:
        n_utxos = r.choice([60, 120, 200])
    equal = r.random() < 0.6
    sf, coc = W.spend_fee(rate), W.cost_of_change(rate)
    base = r.choice([10 ** 8, 10 ** 8, 5 * 10 ** 6, sf * 20 + 12345, sf + 2 * coc + 5 * W.DUST])
    regime = r.choice(['plain', 'boundary', 'small'])
    amounts = [base if equal else W.gen_amount(r, rate, regime) for _ in range(n_utxos)]
    n_small = r.choice([0, 0, 1, 3])
    for _ in range(n_small):      # outputs that cover a bare transaction but leave no change: multi-round builds
        amounts.append(sf + W.BASE_SIZE * rate + 1 + r.randrange(0, coc + W.DUST))
    r.shuffle(amounts)
    ops = []
    i = 0
    while i < len(amounts):
        k = r.choice([1, 1, 2, 4])
        ops.append({'op': 'fund', 'acct': r.randrange(n_accounts),
                    'outs': [[1 if r.random() < 0.1 else 0, r.randrange(12), a] for a in amounts[i:i + k]],
                    'height': r.choice([1, 5, 40, 40, 0, -1])})
        i += k
    spread = r.choice([0.0, 0.0, 0.001, 0.01, 0.05, 0.3])
    typical = base if equal else max(1, sum(amounts) // max(1, len(amounts)))
    for _ in range(n_builds):
        funding = r.choice([[0], [0], [0, 1], [1]]) if n_accounts == 2 else [0]
        b = {'op': 'build', 'start': round(r.uniform(0, spread), 6), 'funding': funding,
             'change': r.choice(funding), 'sign': r.random() < 0.7,
             'then': r.choices(['hold', 'release', 'broadcast'], [3, 4, 3])[0],
             'after': r.choice([0.0, 0.0, 0.001, 0.01, 0.1]), 'bheight': r.choice([0, -1, 50])}
        shape = r.choices(['pay', 'pre_pay', 'input_only'], [7, 2, 1])[0]
        if shape == 'input_only':
            b['outputs'] = []
            b['pre'] = r.choice([None, ['smallest', 1], ['smallest', 1], [round(r.random(), 3)]])
        else:
            f = r.choice([0.3, 0.5, 0.5, 0.9, 0.999, 1.5, 2.2, 3.5])
            n_out = r.choice([1, 1, 1, 2, 3])
            b['outputs'] = [{'k': r.choice(['pay', 'pay', 'pay', 'claim', 'support']), 'ext': r.randrange(1000),
                             'name': 'abc', 'amount': ['abs', max(1, int(typical * f / n_out))]}
                            for _ in range(n_out)]
            if shape == 'pre_pay':
                b['pre'] = r.choice([['smallest', 1], [round(r.random(), 3)], [round(r.random(), 3), round(r.random(), 3)]])
        ops.append(b)
    horizon = spread + 0.15
    for _ in range(r.choice([0, 1, 2, 4])):
        ops.append({'op': 'observe', 'at': round(r.uniform(0, horizon), 6)})
    for _ in range(r.choice([0, 0, 1, 2])):
        ops.append({'op': 'fund', 'at': round(r.uniform(0, horizon), 6), 'acct': r.randrange(n_accounts),
                    'outs': [[0, r.randrange(12), base if equal else W.gen_amount(r, rate, regime)]],
                    'height': r.choice([1, 40, 0])})
    return {'family': 'conc', 'fee_per_byte': rate, 'fee_per_name_char': r.choice([0, 0, 200000]),
            'strategy': r.choice(W.STRATEGIES), 'n_accounts': n_accounts, 'supply': supply, 'equal': equal,
            'gaps': r.choice([[20, 6, 1], [20, 6, 1], [5, 2, 1], [3, 1, 1]]),
            'exec_delay': r.choice([[0.0, 0.0], [0.0, 0.002], [0.0, 0.002], [0.001, 0.01], [0.0, 0.05]]),
            'late_job_p': r.choice([0.0, 0.0, 0.05, 0.2]), 'ops': ops}


def shrink(sc):
    if sc.get('n_accounts') == 2:
        yield dict(sc, n_accounts=1)
    if sc.get('late_job_p'):
        yield dict(sc, late_job_p=0.0)
    if sc.get('fee_per_name_char'):
        yield dict(sc, fee_per_name_char=0)
    if sc.get('gaps') != [20, 6, 1]:
        yield dict(sc, gaps=[20, 6, 1])
    if sc.get('exec_delay') != [0.0, 0.002]:
        yield dict(sc, exec_delay=[0.0, 0.002])
    for i, op in enumerate(sc['ops']):
        def rep(new):
            ops = list(sc['ops'])
            ops[i] = new
            return dict(sc, ops=ops)
        if op.get('op') == 'fund' and len(op.get('outs') or []) > 1:
            for j in range(len(op['outs'])):
                yield rep(dict(op, outs=op['outs'][:j] + op['outs'][j + 1:]))
        if op.get('op') == 'build':
            if op.get('pre'):
                yield rep(dict(op, pre=None))
            if op.get('sign', True):
                yield rep(dict(op, sign=False))
            if op.get('then') != 'hold':
                yield rep(dict(op, then='hold'))
            if op.get('start'):
                yield rep(dict(op, start=0.0))
            if op.get('after'):
                yield rep(dict(op, after=0.0))
            outs = op.get('outputs') or []
            if len(outs) > 1:
                total = sum(o['amount'][1] for o in outs)
                yield rep(dict(op, outputs=[{'k': 'pay', 'ext': 0, 'amount': ['abs', total]}]))
            elif outs and outs[0].get('k') != 'pay':
                yield rep(dict(op, outputs=[{'k': 'pay', 'ext': 0, 'amount': outs[0]['amount']}]))


# ---------------------------------------------------------------------------------------------------
# execution
# ---------------------------------------------------------------------------------------------------

def execute(scenario, keep_trace=False):
    env.import_lbry()
    from lbry.error import InsufficientFundsError

    run = Run(scenario, keep_trace)
    ed = scenario.get('exec_delay') or [0.0, 0.002]
    loop = run.new_loop(max_steps=3_000_000, max_vtime=3600.0, exec_delay=(float(ed[0]), float(ed[1])))
    late_p = float(scenario.get('late_job_p') or 0.0)
    late_rng = run.rng('exec.late')

    def exec_hook(_executor, _fn, _args):
        if late_p and late_rng.random() < late_p:
            run.faults['late_job'] += 1
            run.probes['late_job'] += 1
            return late_rng.choice([0.005, 0.02, 0.1])
        return None
    loop.exec_hook = exec_hook

    sim = W.WalletSim(run, scenario, loop)
    run.probes['strategy_' + str(sim.strategy)] += 1
    run.probes[str(scenario.get('supply', 'unknown')) + '_run'] += 1
    if scenario.get('equal'):
        run.probes['equal_amounts_run'] += 1

    held = {}            # outpoint -> build id currently holding it (broadcast builds hold for ever)
    hold_seq = {}        # outpoint -> number of times it was acquired
    was_released = set()
    releasing = [0]
    selecting = [0]
    stats = {'overlap': 0, 'ok': 0}

    def acquire(op, bid):
        held[op] = bid
        hold_seq[op] = hold_seq.get(op, 0) + 1

    def on_select_return(b, call, ops):
        bid = b.bid if b is not None else -1
        if call['waited']:
            run.probes['selection_waited_on_lock'] += 1
        if releasing[0]:
            run.probes['selection_during_release'] += 1
        for op in ops:
            if op in held:
                holder = held[op]
                hb = sim.builds.get(holder)
                run.violation('C14.double_select', f'selection call of build {bid} (deficit {call["amount"]}) at '
                              f't={loop.elapsed():.6f} returned {op} which build {holder} '
                              f'({hb.state if hb else "?"}) holds since its own selection; strategy {sim.strategy}',
                              holder='same_build' if holder == bid else (hb.state if hb else 'unknown'))
                continue
            if op in was_released:
                run.probes['reselected_after_release'] += 1
            acquire(op, bid)
        run.ev('select', bid, call['amount'], len(ops), [op[:10] for op in ops][:6])
    sim.on_select_return = on_select_return

    def on_release_call(b, ops):
        # the hold ends when the release is *requested* by the holding build (the row changes somewhere
        # inside the call); a release by anybody else ends nothing in the oracle's eyes
        if b is None:
            return
        for op in ops:
            if held.get(op) == b.bid:
                del held[op]
                was_released.add(op)
    sim.on_release_call = on_release_call

    def drop_holds_of(b):
        for op in [op for op, bid in held.items() if bid == b.bid]:
            del held[op]
            was_released.add(op)

    async def visible_check(tag):
        """An outpoint held throughout a get_utxos() call must not be in its result."""
        for i, acct in enumerate(sim.accounts):
            snap = {op: hold_seq[op] for op in held}
            got = {t.id for t in await acct.get_utxos(no_tx=True, no_channel_info=True)}
            bad = sorted(op for op in got if op in held and snap.get(op) == hold_seq[op])
            if snap:
                run.probes['observer_saw_held_absent'] += 1
            if bad:
                hb = sim.builds.get(held[bad[0]])
                run.violation('C14.held_visible', f'{tag}: get_utxos() of account {i} returned {bad[:3]} while '
                              f'build {held[bad[0]]} ({hb.state if hb else "?"}) held it during the whole call',
                              holder=hb.state if hb else 'unknown')
                return True
            run.ev(tag, i, len(got), len(snap))
        return False

    # ---- tasks --------------------------------------------------------------------------------------
    async def build_task(b):
        op = b.spec
        await asyncio.sleep(max(0.0, float(op.get('start', 0.0))))
        if run.violations:
            return
        if sim.in_flight:
            run.probes['builds_overlapping'] += 1
            stats['overlap'] += 1
        selecting[0] += 1
        try:
            await sim.create(b)
        finally:
            selecting[0] -= 1
        if b.state == 'failed':
            if isinstance(b.exc, InsufficientFundsError):
                run.probes['build_failed_insufficient'] += 1
                run.faults['insufficient_funds'] += 1
            else:
                run.probes['build_failed_other_' + type(b.exc).__name__] += 1
                run.faults['non_insufficient_failure'] += 1
            if b.touched:
                run.probes['failed_while_holding'] += 1
            drop_holds_of(b)            # a failed build holds nothing any more (leak is checked at the end)
            sim.settle_model_after_create(b)
            run.ev('build', b.bid, 'fail', type(b.exc).__name__, [c['amount'] for c in b.calls])
            return
        if b.parsed is None:
            raise RuntimeError(f'build {b.bid} returned an unserialisable transaction: {b.parse_error!r}')
        p = b.parsed
        stats['ok'] += 1
        run.probes['build_ok'] += 1
        if len(p['ins']) >= 2:
            run.probes['multi_input_build'] += 1
        if len(b.calls) >= 2:
            run.probes['multi_round_build'] += 1
        if b.pre:
            run.probes['preselected_inputs'] += 1
        if len({sim.utxos[i['op']].acct for i in p['ins'] if i['op'] in sim.utxos}) == 2:
            run.probes['two_account_build'] += 1
        run.ev('build', b.bid, 'ok', b.tx.id[:16], [i['op'][:10] for i in p['ins']][:8], len(p['outs']))
        # an input the build spends without having been handed it by a selection (or as pre-chosen) would be
        # outside the map; record the hold so the disjointness check sees it
        for i in p['ins']:
            if i['op'] not in held:
                acquire(i['op'], b.bid)
        sim.settle_model_after_create(b)
        how = op.get('then', 'hold')
        if how == 'hold':
            return
        await asyncio.sleep(max(0.0, float(op.get('after', 0.0))))
        if run.violations:
            return
        if how == 'release':
            if selecting[0]:
                run.probes['released_early'] += 1
                run.faults['release_while_others_select'] += 1
            releasing[0] += 1
            try:
                await sim.release(b)
            finally:
                releasing[0] -= 1
            run.ev('released', b.bid)
        else:
            if selecting[0]:
                run.faults['broadcast_while_others_select'] += 1
            made = await sim.broadcast(b, int(op.get('bheight', 0)))
            run.probes['broadcast'] += 1
            run.ev('broadcast', b.bid, b.tx.height, [(u.op[:10], u.amount) for u in made])

    async def observe_task(op, n):
        await asyncio.sleep(max(0.0, float(op.get('at', 0.0))))
        if not run.violations:
            await visible_check(f'observe#{n}')

    async def late_fund_task(op, n):
        await asyncio.sleep(max(0.0, float(op.get('at', 0.0))))
        made = await sim.fund(op)
        run.probes['late_fund'] += 1
        run.faults['concurrent_fund'] += 1
        run.ev('late_fund', n, [(u.op[:10], u.amount) for u in made])

    async def driver():
        await sim.open()
        ops = scenario['ops']
        for n, op in enumerate(ops):
            if op.get('op') == 'fund' and 'at' not in op:
                made = await sim.fund(op)
                run.ev('fund', n, [(u.op[:10], u.amount, u.acct, u.height) for u in made])
        builds = []
        for n, op in enumerate(ops):
            if op.get('op') == 'build' and len(builds) < 12:
                b = W.Build(n, op)
                await sim.prepare(b)
                for u in b.pre:
                    acquire(u.op, b.bid)
                builds.append(b)
        tasks = [asyncio.ensure_future(build_task(b)) for b in builds]
        for n, op in enumerate(ops):
            if op.get('op') == 'observe':
                tasks.append(asyncio.ensure_future(observe_task(op, n)))
            elif op.get('op') == 'fund' and 'at' in op:
                tasks.append(asyncio.ensure_future(late_fund_task(op, n)))
        if tasks:
            done = await asyncio.gather(*tasks, return_exceptions=True)
            for d in done:
                if isinstance(d, BaseException):
                    raise d            # harness error, never a verdict
        if run.violations:
            return
        # ---- end of the concurrent phase: successful unreleased builds are pairwise disjoint --------------
        owner = {}
        for b in builds:
            if b.state in ('held', 'broadcast'):
                for i in b.parsed['ins']:
                    if i['op'] in owner:
                        return run.violation('C14.double_select', f'builds {owner[i["op"]]} and {b.bid} both spend '
                                             f'{i["op"]} (found at the end)', holder='final_disjointness')
                    owner[i['op']] = b.bid
        if await visible_check('final-held'):
            return
        # ---- release everything still held, then every non-broadcast output must be available again --------
        for b in builds:
            if b.state == 'held':
                await sim.release(b)
                run.ev('final_release', b.bid)
        run.probes['all_released_check'] += 1
        got = {}
        for i, acct in enumerate(sim.accounts):
            got[i] = {t.id for t in await acct.get_utxos(no_tx=True, no_channel_info=True)}
        expected = [u for u in sim.unspent()]
        missing = sorted(u.op for u in expected if u.op not in got[u.acct])
        leaked = sorted(sim.db_reserved_unspent())
        if missing or leaked:
            states = sorted((b.bid, b.state) for b in builds)
            return run.violation('C14.leaked_reservation', f'after every build was released, failed or broadcast '
                                 f'{len(missing)} unspent outputs are not returned by get_utxos() {missing[:3]} and '
                                 f'{len(leaked)} unspent rows have is_reserved=1 {leaked[:3]}; builds: {states}')
        spent_visible = sorted(op for i in got for op in got[i] if op in sim.utxos and sim.utxos[op].spent)
        if spent_visible:
            return run.violation('C14.held_visible', f'outputs spent by a broadcast build are returned by get_utxos(): '
                                 f'{spent_visible[:3]}', holder='broadcast')
        run.ev('final', sorted((i, len(v)) for i, v in got.items()), len(expected))
        await sim.close()

    try:
        run.drive(driver())
    except (SimBudget, SimIdle):
        pass
    run.nontrivial = stats['overlap'] >= 1 and stats['ok'] >= 1
    run.finish()
    return run.result()
