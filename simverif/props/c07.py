"""C07 — header chain validity and crash-safe reopen (DESIGN.md §7 C07).

SUT: the real `lbry.wallet.header.Headers` (connect / validate_chunk / validate_header /
get_next_block_target / ArithUint256 / _write / open / repair / close / fetch_chunk / has_header /
get_all_missing_headers), sub-classed only to set the per-network class constants.
Stub: the header server (a harness object answering `chunk_getter`), the event loop (SimLoop).
Reference: `simverif.core.lbrychain` — an independent miner and validator (own hashes, exact integers).
"""
import asyncio
import base64
import gc
import hashlib
import os
import random
import shutil
import tempfile
import zlib

from simverif.core import env
from simverif.core import lbrychain as lc
from simverif.core.run import Run, SimBudget, SimIdle
from simverif.core.rng import stream

ID = 'C07'
LEVEL = 'exploration'
TIERS = {'quick': {'runs': 2000}, 'thorough': {'seconds': 600}}
DET_PAIRS_PER_SLOT = 3
RULE = ("one run = one seeded history on a real Headers object over a real header file: the chain starts as "
        "a prefix of an independently mined 1100-header base chain (pre-written file, or fed through connect, "
        "or an empty file with a configured checkpoint), then 3..12 operations: batches mined on the fly on the "
        "current tip or at a lower height (forks shorter/equal/longer), each optionally with one header altered "
        "in one bit of any field or mined to break exactly one rule (wrong bits in 10 variants with enough work, "
        "right bits with insufficient work, wrong parent), arbitrarily split into several connect calls; batches "
        "beyond the tip; re-sent stored headers; checkpoint chunks served honest/altered/truncated/extended "
        "through ensure_chunk_at/get_raw_header; close + fault (cut at a byte offset incl. a family enumerating "
        "every offset of the last three headers, whole-header overwrite of tip/non-tip headers with zero/random "
        "bytes, bit flips in non-tip headers) + reopen; families anyheight (no checkpoints, 1..1100 headers, the same damage plus a garbage tail after an aligned cut at ANY height incl. below 999 and genesis) and shortfork (the chain becomes shorter by a fork at a lower height, close, reopen, with the old tail below / across / above height 999; then extension or another shorter fork and a second reopen) and firstabove (1 or 2 checkpoints, tip on or next to the first height above the check-pointed chunks, that header overwritten / flipped / start of a garbage tail, lower chunk present or still a placeholder), belowcp (batches that connect INSIDE the check-pointed range: rule-valid forks also from genesis, re-sent real headers, real headers into a placeholder, a header mined against the all-zero placeholder; chunk downloaded or placeholder, chunk_getter set or not; then fetches, headers above, restart), tipdamage (partial damage of the tip: bit flip in any field, last 1..111 bytes zeroed, one field replaced; 0/1/2 checkpoints) and band (pre-mined header whose PoW hash lies between decode(bits) and the un-rounded retarget value, as extension or fork, alone or with a valid child). Non-trivial = at least one invalid "
        "batch was offered or one fault fired or one fork connected; distinct = distinct event-trace digest.")
COMPONENTS = {
    'real': ['lbry.wallet.header.Headers (connect, validate_chunk, validate_header, get_next_block_target, '
             '_write, open, repair, close, fetch_chunk, ensure_chunk_at, has_header, get_all_missing_headers)',
             'lbry.wallet.util.ArithUint256', 'lbry.crypto.hash', 'real header file in a temp directory'],
    'stub': ['header server answering chunk_getter (harness object, scripted honest/altered/truncated chunks)',
             'event loop (SimLoop, virtual time; executor jobs of open/close run inline)',
             'class constants of the Headers subclass: max_target=2**248-1, own genesis_hash, '
             'checkpoints {} or {0: hash of the first 1000 base headers}'],
}
ASSUMPTIONS = [
    'mining uses max_target 2**248-1 (about 256 hashes per header) instead of main-net 2**240; all validation '
    'code is the same, only the class constant differs',
    'ripemd160/sha256/sha512 primitives come from hashlib (OpenSSL) for both the product and the reference; '
    'the composition (PoW hash, block hash, compact bits, retarget) is re-implemented independently',
    'a header meets its target iff pow_hash <= decode(bits) (lbrycrd CheckProofOfWork); the window between '
    'decode(bits) and the un-rounded retarget value (2^-16 of the valid hashes, 2^24 hashes per header) cannot be hit '
    'by sampling, so three such headers were mined off-line on fixed heights of the base chain (lbrychain.'
    'BAND_HEADERS_HEX, verified against the chain when loaded) and are offered by the family band (bad=pow:band); '
    'headers mined on the fly stay out of the window on both sides',
    'PoW comparison `>` vs `>=` differs only for pow_hash == target exactly, which needs a hash preimage: not testable',
    'faults are applied to the file between close() and the next open() (Headers only writes the file in close())',
    'validity is asserted up to the end of the most recently connected batch',
    'restart clauses: "what was stored" is the in-memory chain at close(); bytes of an older, longer chain that '
    'close() leaves in the file behind it are NOT excused (loaded chain longer than the stored one = not a prefix; '
    'a valid tip dropped because it does not link to that tail = dropped too much); site stale_tail=True',
    'damage model: any damage to the tip counts (whole-header overwrite, one flipped bit in any field, zeroed tail '
    'of the file, one field replaced: family tipdamage, site tip_partial_damage) except a change after which the '
    'header still satisfies every rule (no validator can tell) and, with checkpoints, while a header right below the '
    'tip is the all-zero placeholder of a chunk not downloaded yet; no damage inside check-pointed chunks',
    'below max(checkpoints)+1000 headers are only accepted as whole chunks that hash to their checkpoint: a batch that '
    'connects there (fork valid by the chain rules, re-sent real headers, real headers into a placeholder, header '
    'mined against a placeholder) must store nothing and cut nothing (family belowcp, kind C07.checkpoint '
    'what=connected_inside_checkpointed_range); raising InvalidHeader/IndexError for such a batch is accepted. The '
    'older families still mine their own forks above the checkpoints only; file cuts inside the check-pointed range '
    'are not generated',
    'damage positions: a store WITHOUT checkpoints has no check-pointed chunk, so every height qualifies (families '
    'anyheight/shortfork: any height incl. genesis, files shorter than 1000 headers; site below_999_no_checkpoints); '
    'the older families keep their positions above 999 so that their scenarios stay what they were',
    'with checkpoints damage is generated at and above max(checkpoints)+1000: the first height above the check-pointed '
    'chunks is above the last check-pointed chunk (family firstabove, site first_above_checkpoint=True; the older '
    'families keep their positions strictly above it); only while the header right below it is an all-zero placeholder '
    'of a not yet downloaded chunk nothing can link it and it is not damaged',
    'the chain is judged modulo all-zero placeholders of check-pointed chunks that were not downloaded yet; while such a '
    'placeholder exists an unaligned cut makes open() run repair() from height 0, which meets the placeholder instead of '
    'the genesis header and truncated the whole file: genuine defect, repaired in /repo (known_findings.json '
    'C07-unaligned-cut-over-placeholder, site unaligned_cut_over_placeholder=True); unaligned cuts over placeholders are generated',
]
EXPECTED_PROBES = [
    'connect_call', 'valid_ext_stored', 'fork_stored', 'fork_shorter_stale_tail', 'invalid_offered',
    'invalid_after_valid_prefix', 'rule_link', 'rule_bits', 'rule_pow', 'rule_genesis', 'split_piece',
    'beyond_tip_raised', 'resend', 'feed_through_connect', 'connect_height_1', 'connect_height_2',
    'reopen', 'reopen_clean_identical', 'reopen_truncated', 'repair_from_zero', 'cut_enum_offset',
    'cut_in_tip', 'cut_in_tip_1', 'cut_in_tip_2', 'cut_aligned', 'chunk_honest_stored', 'chunk_bad_rejected',
    'chunk_uncheckpointed_ignored', 'zero_filled_open', 'full_walk', 'mined_clamp_low', 'mined_clamp_high',
    'mined_neg_delta', 'mined_capped', 'mined_trunc_vs_floor', 'tip_on_repair_batch_edge', 'base_prefix_short',
    'chunk_stored_below_top', 'reject_after_midfile_write', 'extend_after_midfile_write', 'empty_batch',
    'sparse_start', 'closed_shorter_than_file', 'closed_shorter_below_999', 'closed_shorter_above_999',
    'store_shorter_than_1000', 'damage_below_999', 'damage_first_above_checkpoint',
    'damaged_tip_is_first_above_checkpoint', 'connect_inside_checkpointed_downloaded',
    'connect_inside_checkpointed_placeholder', 'deep_fork', 'deep_genesis_fork', 'deep_resend', 'deep_feed0',
    'deep_placeholder_bits', 'band_as_extension', 'band_as_fork',
] + ['cut_enum_slice_%02d' % i for i in range(21)]   # every byte offset of the last three headers (336 = 21 x 16)

HS = lc.HEADER_SIZE
N1 = 1100            # chain length used by the families without a second checkpoint
FIELDS = {'version': (0, 32), 'prev': (4, 256), 'merkle': (36, 256), 'claim': (68, 256),
          'time': (100, 32), 'bits': (104, 32), 'nonce': (108, 32)}
BITS_VARIANTS = ['floor_div', 'no_clamp', 'no_cap', 'parent', 'max', 'mant_plus', 'mant_minus', 'sign_bit',
                 'time_shift', 'grand_parent_swap']
SERVE_KINDS = ['honest', 'altered', 'truncated', 'trunc_bytes', 'extended', 'alt_valid', 'zeros', 'empty']
ENABLE_STALE_FAMILY = True
# Observation kept out of the oracle's domain (see ASSUMPTIONS): with a not yet downloaded check-pointed chunk
# (all-zero placeholder) in the file, a cut that leaves the size unaligned makes open() run repair() from
# height 0, which finds the placeholder instead of the genesis header and truncates the WHOLE file. Set to
# True to let the check report it (C07.reopen_not_prefix, fault=cut).
UNALIGNED_CUT_WITH_PLACEHOLDER = True


# ---------------------------------------------------------------------------------------------------
# generation (pure function of the run seed)
# ---------------------------------------------------------------------------------------------------

def _deltas(r, n):
    mode = r.choice(['mix', 'mix', 'low', 'high', 'mid', 'rand'])
    pool = {'mix': lc.ALL_DELTAS, 'low': lc.DELTAS_LOW, 'high': lc.DELTAS_HIGH, 'mid': lc.DELTAS_MID,
            'rand': None}[mode]
    return [r.choice(pool) if pool else r.randrange(-300, 1200) for _ in range(n)]


def _bad(r, n):
    idx = r.randrange(n) if r.random() < 0.7 else r.choice([0, n - 1])
    kind = r.choices(['field', 'bits', 'pow', 'parent'], [40, 30, 15, 15])[0]
    b = {'idx': idx, 'kind': kind}
    if kind == 'field':
        b['field'] = r.choice(list(FIELDS))
        b['bit'] = r.randrange(FIELDS[b['field']][1])
    elif kind == 'bits':
        b['variant'] = r.choice(BITS_VARIANTS)
        b['shift'] = r.choice([-2000, -200, -64, -9, -8, -7, 7, 8, 9, 64, 200, 2000])
    elif kind == 'pow':
        b['variant'] = r.choice(['above', 'above', 'blockhash_ok'])
    else:
        b['how'] = r.choice(['random', 'grand', 'zero', 'self_bitflip', 'display_order'])
    return b


def _split(r, n):
    if n < 2 or r.random() < 0.55:
        return []
    k = r.randrange(1, min(n, 4))
    return sorted(r.sample(range(1, n), k))


def _batch(r, big, fork=None, bad=None, nmax=None):
    nmax = nmax or (24 if big else 9)
    at = 0
    if fork:
        at = r.choice([1, 1, 2, 3, 5, 8, 13, 30, 60]) if fork is True else fork
    n = r.randrange(1, nmax + 1)
    if at and r.random() < 0.5:
        n = max(1, min(nmax, at + r.choice([-3, -1, 0, 1, 2])))
    op = {'op': 'batch', 'at': at, 'n': n, 'deltas': _deltas(r, n), 'seed': r.getrandbits(48),
          'bad': _bad(r, n) if bad else None, 'split': _split(r, n)}
    return op


def _fault(r, cp):
    kind = r.choices(['cut_back', 'cut_frac', 'overwrite_tip', 'overwrite_mid', 'bitflip', 'multi'],
                     [22, 8, 24, 20, 20, 6])[0]

    def pos(allow_tip):
        how = r.choice(['back', 'back', 'low', 'frac'])
        if how == 'back':
            return ['back', r.choice([1, 1, 2, 3, 5, 17, 35, 36, 37, 72]) if not allow_tip else 0]
        if how == 'low':
            return ['low', r.choice([0, 0, 1, 2, 35, 36])]
        return ['frac', round(r.random(), 4)]
    if kind == 'cut_back':
        return [{'kind': 'cut', 'back': r.randrange(1, 337)}]
    if kind == 'cut_frac':
        return [{'kind': 'cut', 'frac': round(r.random() ** 0.5, 6)}]
    if kind == 'overwrite_tip':
        return [{'kind': 'overwrite', 'pos': ['back', 0], 'fill': r.choice(['zero', 'random']), 'seed': r.getrandbits(32)}]
    if kind == 'overwrite_mid':
        return [{'kind': 'overwrite', 'pos': pos(False), 'fill': r.choice(['zero', 'random']), 'seed': r.getrandbits(32)}]
    if kind == 'bitflip':
        return [{'kind': 'bitflip', 'pos': pos(False), 'bit': r.randrange(HS * 8)}]
    out = []
    for _ in range(r.randrange(2, 4)):
        k = r.choice(['overwrite', 'bitflip'])
        if k == 'overwrite':
            out.append({'kind': 'overwrite', 'pos': pos(r.random() < 0.3), 'fill': r.choice(['zero', 'random']),
                        'seed': r.getrandbits(32)})
        else:
            out.append({'kind': 'bitflip', 'pos': pos(False), 'bit': r.randrange(HS * 8)})
    if r.random() < 0.3:
        out.append({'kind': 'cut', 'back': r.randrange(1, 337)})
    return out


def _fetch(r, where, serve=None):
    return {'op': 'fetch', 'h': where, 'serve': serve or r.choice(SERVE_KINDS), 'seed': r.getrandbits(32),
            'via': r.choice(['ensure', 'ensure', 'get', 'get_dict'])}


def _nothing_stored(r, big):
    """One connect call that must store nothing: first header broken / beyond the tip / empty / altered re-send."""
    k = r.choice(['reject_first', 'reject_first', 'beyond', 'empty', 'resend_altered'])
    if k == 'reject_first':
        op = _batch(r, big, bad=True, nmax=4)
        op['bad']['idx'] = 0
        op['split'] = []
        return op
    if k == 'beyond':
        return {'op': 'beyond', 'gap': r.choice([1, 1, 2, 1000]), 'n': r.randrange(1, 3), 'deltas': _deltas(r, 2),
                'seed': r.getrandbits(48)}
    if k == 'empty':
        return {'op': 'empty', 'where': r.choice(['tip', 'tip', 'lower', 'beyond', 'zero'])}
    n = r.randrange(1, 4)
    f = r.choice(list(FIELDS))
    return {'op': 'resend', 'to_tip': True, 'frac': 0.0, 'zero': False, 'n': n, 'split': [],
            'alter': {'idx': 0, 'field': f, 'bit': r.randrange(FIELDS[f][1])}}


def _pos_probe(r, big, top):
    """History shape: something moves the position of the shared file object (an on-demand fetch of a
    check-pointed chunk below the top of the stored data, reads through get/get_raw_header at chunk-aligned
    and unaligned heights), then a connect that stores nothing and/or one that stores a valid extension,
    then (often) a restart."""
    out = []
    if r.random() < 0.3:
        out.append(_batch(r, big, nmax=3))
    for _ in range(r.choice([1, 1, 2])):
        h = r.choice([0, 1, 5, 499, 500, 999, 1000, 1001, 1500, 1999, r.randrange(top), r.randrange(top)])
        if h >= top:
            h = h % top
        out.append(_fetch(r, ['abs', h], 'honest' if r.random() < 0.85 else None))
    order = r.choice(['reject', 'reject', 'reject_ext', 'ext', 'ext_reject', 'reject_reject'])
    for what in order.split('_'):
        out.append(_nothing_stored(r, big) if what == 'reject' else _batch(r, big, nmax=3))
    if r.random() < 0.6:
        out.append({'op': 'reopen', 'faults': []})
        if r.random() < 0.4:
            out.append(_nothing_stored(r, big))
    return out


RESTART_FAMILIES_FRACTION = 0.2     # share of runs taken by the `anyheight` / `shortfork` families (own rng stream)


def _fault_any(r):
    """Damage at ANY height of a store without checkpoints (no checkpointed chunk => every position is
    "above the last checkpointed chunk"), files shorter than 1000 headers included."""
    def pos(allow_tip):
        how = r.choice(['anyfrac', 'anyfrac', 'abs', 'back'])
        if how == 'anyfrac':
            return ['anyfrac', round(r.random(), 4)]
        if how == 'abs':
            return ['abs', r.choice([0, 1, 2, 35, 36, 37, 71, 72, 500, 997, 998, 999, 1000, 1001])]
        return ['back', r.choice([0, 0, 1] if allow_tip else [1, 1, 2, 3, 36, 37])]
    kind = r.choices(['overwrite', 'overwrite_tip', 'bitflip', 'garbage_tail', 'cut_hdr', 'cut_back', 'multi'],
                     [26, 14, 22, 14, 8, 8, 8])[0]
    if kind == 'overwrite':
        return [{'kind': 'overwrite', 'any': True, 'pos': pos(True), 'fill': r.choice(['zero', 'random']),
                 'seed': r.getrandbits(32)}]
    if kind == 'overwrite_tip':
        return [{'kind': 'overwrite', 'any': True, 'pos': ['back', 0], 'fill': r.choice(['zero', 'random']),
                 'seed': r.getrandbits(32)}]
    if kind == 'bitflip':
        return [{'kind': 'bitflip', 'any': True, 'pos': pos(False), 'bit': r.randrange(HS * 8)}]
    if kind == 'garbage_tail':      # file cut at a header boundary, garbage (or zero) headers after it
        return [{'kind': 'garbage_tail', 'pos': pos(True), 'm': r.choice([1, 1, 2, 5, 40]),
                 'fill': r.choice(['zero', 'random', 'random']), 'seed': r.getrandbits(32)}]
    if kind == 'cut_hdr':
        return [{'kind': 'cut', 'hdr_back': r.choice([1, 1, 2, 3, 36, 500])}]
    if kind == 'cut_back':
        return [{'kind': 'cut', 'back': r.randrange(1, 337)}]
    out = []
    for _ in range(r.randrange(2, 4)):
        if r.random() < 0.5:
            out.append({'kind': 'overwrite', 'any': True, 'pos': pos(True), 'fill': r.choice(['zero', 'random']),
                        'seed': r.getrandbits(32)})
        else:
            out.append({'kind': 'bitflip', 'any': True, 'pos': pos(False), 'bit': r.randrange(HS * 8)})
    if r.random() < 0.3:
        out.append({'kind': 'cut', 'back': r.randrange(1, 337)})
    return out


def _shorter_fork(r, big, depth=None):
    d = depth or r.choice([2, 3, 5, 8, 13, 20, 30])
    f = _batch(r, big, fork=d)
    f['n'] = r.randrange(1, d)
    f['deltas'] = _deltas(r, f['n'])
    f['split'] = _split(r, f['n'])
    return f


def _gen_restart(r, big):
    """Families of the restart clauses with nothing excused: `anyheight` = stores without checkpoints (also
    shorter than 1000 headers) damaged at any height; `shortfork` = the chain becomes SHORTER (fork at a lower
    height, new tip below the old one), close, reopen - the old tail lies below, across or above height 999."""
    fam = r.choice(['anyheight', 'anyheight', 'shortfork', 'shortfork'])
    sc = {'family': fam, 'cp': 0, 'init': 'file', 'base_len': N1, 'full_walk': r.random() < 0.1,
          'server_delay': 0.0, 'ops': []}
    ops = sc['ops']
    if fam == 'anyheight':
        sc['base_len'] = r.choice([1, 2, 3, 5, 36, 37, 38, 73, 200, 500, 998, 999, 1000, 1001, 1036, 1100, 1100])
        for _ in range(r.randrange(1, 4)):
            for _ in range(r.choice([0, 0, 1, 2])):
                k = r.choices(['ext', 'ext_bad', 'fork', 'feed'], [50, 15, 20, 15])[0]
                if k == 'feed':
                    ops.append({'op': 'feed', 'n': r.choice([1, 2, 5, 40]), 'split': []})
                else:
                    ops.append(_batch(r, big, fork=(k == 'fork') and r.choice([1, 2, 3]), bad=(k == 'ext_bad'),
                                      nmax=r.choice([2, 5])))
            ops.append({'op': 'reopen', 'faults': _fault_any(r)})
        if r.random() < 0.4:
            ops.append(_batch(r, big, nmax=3))
    else:
        if r.random() < 0.2:
            sc['cp'] = 1
            sc['base_len'] = r.choice([1050, 1100])
        else:
            sc['base_len'] = r.choice([30, 200, 600, 998, 1000, 1005, 1010, 1030, 1100, 1100])
        if r.random() < 0.3:
            ops.append(_batch(r, big, nmax=3))
        ops.append(_shorter_fork(r, big))
        if r.random() < 0.25:
            ops.append(_nothing_stored(r, big))
        ops.append({'op': 'reopen', 'faults': [] if r.random() < 0.8 else (_fault(r, True) if sc['cp'] else _fault_any(r))})
        tail = r.choice(['none', 'ext', 'ext', 'fork', 'reject'])
        if tail == 'ext':
            ops.append(_batch(r, big, nmax=3))
        elif tail == 'fork':
            ops.append(_shorter_fork(r, big, r.choice([2, 3, 5])))
        elif tail == 'reject':
            ops.append(_nothing_stored(r, big))
        if tail != 'none':
            ops.append({'op': 'reopen', 'faults': []})
    return sc


FIRST_ABOVE_FRACTION = 0.06         # share of runs taken by the `firstabove` family (own rng stream)


def _gen_first_above(r, big):
    """Stores WITH checkpoints whose damage sits on the first height above the check-pointed chunks (header 1000
    with {0: ...}, 2000 with two): it is above the last check-pointed chunk, so the restart clauses cover it.
    The tip is on or next to that height; a still missing (all-zero placeholder) chunk below is tolerated."""
    cp = r.choice([1, 1, 2])
    top = 1000 * cp
    sc = {'family': 'firstabove', 'cp': cp, 'init': 'file', 'base_len': top + r.choice([1, 1, 1, 2, 3, 37, 100]),
          'full_walk': r.random() < 0.1, 'server_delay': 0.0, 'ops': []}
    v = r.random()
    if v < 0.15:
        sc['init'] = 'sparse'             # the chunk right below the damaged height is present, a lower one
        if cp == 1:                       # (cp 2) or the only one (cp 1) is still a placeholder
            sc['base_len'] = r.choice([1001, 1001, 1002, 1050])
    ops = sc['ops']
    if r.random() < 0.25:
        ops.append(_batch(r, big, nmax=2))
    first = ['low', -1]                   # resolves to max(checkpoints) + 1000
    k = r.choices(['ow_first', 'flip_first', 'ow_tip', 'garbage_first', 'clean'], [50, 15, 15, 12, 8])[0]
    if k == 'ow_first':
        faults = [{'kind': 'overwrite', 'any': True, 'pos': first, 'fill': r.choice(['zero', 'random']),
                   'seed': r.getrandbits(32)}]
    elif k == 'flip_first':
        faults = [{'kind': 'bitflip', 'any': True, 'pos': first, 'bit': r.randrange(HS * 8)}]
    elif k == 'ow_tip':
        faults = [{'kind': 'overwrite', 'any': True, 'pos': ['back', 0], 'fill': r.choice(['zero', 'random']),
                   'seed': r.getrandbits(32)}]
    elif k == 'garbage_first':
        faults = [{'kind': 'garbage_tail', 'pos': first, 'm': r.choice([1, 1, 2, 5]),
                   'fill': r.choice(['zero', 'random']), 'seed': r.getrandbits(32)}]
    else:
        faults = []
    ops.append({'op': 'reopen', 'faults': faults})
    if r.random() < 0.5:
        ops.append({'op': 'feed', 'n': r.choice([1, 2, 5]), 'split': []})
        if r.random() < 0.5:
            ops.append(_batch(r, big, nmax=2))
        ops.append({'op': 'reopen', 'faults': [] if r.random() < 0.6 else [
            {'kind': 'overwrite', 'any': True, 'pos': ['back', 0], 'fill': 'random', 'seed': r.getrandbits(32)}]})
    return sc


BELOW_CP_FRACTION = 0.07            # share of runs taken by the `belowcp` family (own rng stream)
TIP_DAMAGE_FRACTION = 0.07          # share of runs taken by the `tipdamage` family (own rng stream)


def _deep_op(r, big, top, shape=None):
    """One connect that starts INSIDE the check-pointed range (below max(checkpoints)+1000)."""
    shape = shape or r.choice(['fork', 'fork', 'genesis_fork', 'resend', 'resend', 'placeholder_bits', 'feed0'])
    h = r.choice([1, 2, 5, 6, 500, 999, 1000, 1001, 1002, 1500, 1999, r.randrange(1, top), r.randrange(1, top)])
    h = 1 + (h - 1) % (top - 1)
    n = r.randrange(1, 5)
    op = {'op': 'deep', 'shape': shape, 'start': h, 'n': n, 'deltas': _deltas(r, n), 'seed': r.getrandbits(48),
          'split': _split(r, n) if r.random() < 0.3 else []}
    if shape == 'resend' and r.random() < 0.3:
        op['n'] = r.choice([1, 3, 10, 1000, 1005])       # also whole chunks and batches running over the top
    if shape == 'placeholder_bits':
        op['start'] = 1000 * r.randrange(1, top // 1000 + 1) + 1 if top > 1000 else 1001
    return op


def _gen_below_cp(r, big):
    """Batches that connect inside the check-pointed range: forks valid by the chain rules (also from genesis),
    re-sent real headers with their real height, real headers into a placeholder, a header mined against the
    all-zero placeholder as its grand-parent - with the chunk downloaded or still a placeholder, chunk_getter
    set or not yet set; then what a wallet does next (on-demand fetch of another chunk, headers above, restart)."""
    cp = r.choice([1, 2, 2])
    top = 1000 * cp
    sc = {'family': 'belowcp', 'cp': cp, 'init': 'file', 'base_len': top + r.choice([0, 1, 10, 100]),
          'getter': r.random() < 0.6, 'full_walk': r.random() < 0.1, 'server_delay': r.choice([0.0, 0.0, 0.01]),
          'ops': []}
    ops = sc['ops']
    v = r.random()
    if v < 0.35 and cp == 2:
        sc['init'] = 'sparse'
        sc['base_len'] = r.choice([2000, 2001, 2010, 2100])
    elif v < 0.5:
        sc['init'] = 'none'
        sc['base_len'] = 0
        sc['getter'] = True
        if r.random() < 0.7:
            ops.append({'op': 'feed', 'n': r.choice([1, 10, 100]), 'split': []})
    if r.random() < 0.2:
        ops.append(_batch(r, big, nmax=2))
    shape = None
    if sc['init'] == 'sparse' and not sc['getter'] and r.random() < 0.5:
        shape = 'placeholder_bits'
    ops.append(_deep_op(r, big, top, shape))
    for _ in range(r.randrange(0, 4)):
        k = r.choice(['fetch', 'fetch', 'feed', 'ext', 'deep', 'reopen', 'reject'])
        if k == 'fetch':
            ops.append(_fetch(r, ['abs', r.choice([0, 5, 999, 1000, 1500, 1999, r.randrange(top)]) % top], 'honest'))
        elif k == 'feed':
            ops.append({'op': 'feed', 'n': r.choice([1, 3, 36]), 'split': []})
        elif k == 'ext':
            ops.append(_batch(r, big, nmax=3))
        elif k == 'deep':
            ops.append(_deep_op(r, big, top))
        elif k == 'reopen':
            ops.append({'op': 'reopen', 'faults': []})
        else:
            ops.append(_nothing_stored(r, big))
    return sc


def _tip_fault(r):
    how = r.choice(['flip', 'flip', 'flip', 'zero_tail', 'zero_tail', 'field'])
    ft = {'kind': 'tip_damage', 'how': how}
    if how == 'flip':
        f = r.choice(['version', 'merkle', 'claim', 'time', 'bits', 'nonce', 'nonce', 'prev'])
        ft['bit'] = FIELDS[f][0] * 8 + r.randrange(FIELDS[f][1])
    elif how == 'zero_tail':
        ft['bytes'] = r.choice([1, 2, 4, 5, 8, 12, 13, 40, 44, 76, 77, 111])
    else:
        ft['field'] = r.choice(['bits_max', 'bits_parent', 'nonce_plus', 'time_plus', 'version_flip', 'merkle_byte'])
        ft['seed'] = r.getrandbits(32)
    return ft


def _gen_tip_damage(r, big):
    """Restart after damage to the TIP that is not a whole-header overwrite: one flipped bit in any field, the last
    1..111 bytes of the file zeroed (unflushed tail), one field replaced - stores with 0, 1 or 2 checkpoints."""
    cp = r.choice([0, 0, 1, 2])
    top = 1000 * cp
    sc = {'family': 'tipdamage', 'cp': cp, 'init': 'file', 'full_walk': False, 'server_delay': 0.0, 'ops': [],
          'base_len': (r.choice([2, 3, 5, 36, 37, 200, 998, 999, 1000, 1001, 1036, 1100]) if cp == 0 else
                       top + r.choice([1, 2, 3, 10, 37, 100]))}
    ops = sc['ops']
    for _ in range(r.randrange(1, 3)):
        if r.random() < 0.4:
            ops.append(_batch(r, big, nmax=3))
        faults = [_tip_fault(r)]
        if r.random() < 0.15:
            faults.append({'kind': 'bitflip', 'any': True, 'pos': ['back', r.choice([1, 2, 3])], 'bit': r.randrange(HS * 8)})
        ops.append({'op': 'reopen', 'faults': faults})
        if r.random() < 0.5:
            ops.append({'op': 'feed', 'n': r.choice([1, 2, 5]), 'split': []})
    if r.random() < 0.4:
        ops.append(_batch(r, big, nmax=2))
        ops.append({'op': 'reopen', 'faults': []})
    return sc


BAND_FRACTION = 0.04                # share of runs taken by the `band` family (own rng stream)


def _gen_band(r, big):
    """A header valid except for ONE rule - its proof of work measured against the target its bits encode: the
    hash lies between decode(bits) and the un-rounded retarget value (pre-mined, lbrychain.BAND_HEADERS_HEX).
    Offered as the extension of the tip or as a fork at a lower height, alone or followed by a valid child."""
    cp = r.choice([0, 0, 1, 2])
    sc = {'family': 'band', 'cp': cp, 'init': 'file', 'full_walk': False, 'server_delay': 0.0, 'ops': [],
          'base_len': {0: r.choice([12, 13, 40, 500, 1050, 1050, 1051, 1100]), 1: r.choice([1050, 1050, 1051, 1100]),
                       2: r.choice([2003, 2003, 2004, 2100])}[cp]}
    ops = sc['ops']
    if r.random() < 0.25:
        ops.append(_batch(r, big, nmax=2))
    ops.append({'op': 'band', 'child': r.random() < 0.4, 'seed': r.getrandbits(48), 'split': r.random() < 0.3})
    k = r.choice(['none', 'feed', 'ext', 'reopen', 'reopen'])
    if k == 'feed':
        ops.append({'op': 'feed', 'n': r.choice([1, 3]), 'split': []})
    elif k == 'ext':
        ops.append(_batch(r, big, nmax=2))
    elif k == 'reopen':
        ops.append({'op': 'reopen', 'faults': []})
        if r.random() < 0.5:
            ops.append({'op': 'band', 'child': False, 'seed': r.getrandbits(48), 'split': False})
    return sc


def gen(run_seed, tier):
    big = tier != 'quick'
    r6 = stream('C07.gen.band', run_seed)
    if r6.random() < BAND_FRACTION:
        return _gen_band(r6, big)
    r4 = stream('C07.gen.belowcp', run_seed)       # own streams: everything older stays as it was
    if r4.random() < BELOW_CP_FRACTION:
        return _gen_below_cp(r4, big)
    r5 = stream('C07.gen.tipdamage', run_seed)
    if r5.random() < TIP_DAMAGE_FRACTION:
        return _gen_tip_damage(r5, big)
    r3 = stream('C07.gen.firstabove', run_seed)    # own stream again: everything else stays as it was
    if r3.random() < FIRST_ABOVE_FRACTION:
        return _gen_first_above(r3, big)
    r2 = stream('C07.gen.restart', run_seed)       # own stream: the scenarios of the other families stay as they were
    if r2.random() < RESTART_FAMILIES_FRACTION:
        return _gen_restart(r2, big)
    r = stream('C07.gen', run_seed)
    fams = ['connect', 'reopen', 'cut_enum', 'checkpoint', 'stale']
    w = [38, 30, 8, 17, 7 if ENABLE_STALE_FAMILY else 0]
    fam = r.choices(fams, w)[0]
    sc = {'family': fam, 'cp': False, 'init': 'file', 'base_len': N1,
          'full_walk': r.random() < 0.12, 'server_delay': r.choice([0.0, 0.01, 0.3]), 'ops': []}
    ops = sc['ops']

    def feed_ops(total, first=0):
        left = total - first
        while left > 0:
            n = min(left, r.choice([1, 2, 3, 10, 36, 100, 400, 1000, 2001]))
            ops.append({'op': 'feed', 'n': n, 'split': []})
            left -= n

    if fam == 'connect':
        if r.random() < 0.22:
            sc['init'] = 'none'
            sc['base_len'] = 0
            if r.random() < 0.5:     # a wrong genesis / early header offered to the empty chain first
                f = r.choice(list(FIELDS))
                ops.append({'op': 'feed', 'n': r.choice([1, 1, 2, 5]), 'split': [],
                            'alter': {'idx': r.choice([0, 0, 0, 1, 2]), 'field': f, 'bit': r.randrange(FIELDS[f][1])}})
            feed_ops(r.choice([1, 2, 3, 40, 300, 1100, 1100]))
        else:
            sc['base_len'] = r.choice([1100] * 6 + [1, 2, 3, 5, 37, 500, 999, 1000, 1001, 1036, 1099])
        for _ in range(r.randrange(3, 13 if big else 10)):
            k = r.choices(['ext', 'ext_bad', 'fork', 'fork_bad', 'beyond', 'resend', 'reopen', 'fetch', 'feed', 'empty'],
                          [26, 34, 10, 7, 6, 6, 4, 4, 3, 2])[0]
            if k in ('ext', 'ext_bad', 'fork', 'fork_bad'):
                ops.append(_batch(r, big, fork=k.startswith('fork'), bad=k.endswith('bad')))
            elif k == 'beyond':
                ops.append({'op': 'beyond', 'gap': r.choice([1, 1, 2, 5, 1000]), 'n': r.randrange(1, 4),
                            'deltas': _deltas(r, 3), 'seed': r.getrandbits(48)})
            elif k == 'resend':
                n = r.randrange(1, 8)
                ops.append({'op': 'resend', 'to_tip': r.random() < 0.7, 'frac': round(r.random(), 4),
                            'zero': r.random() < 0.15, 'n': n,
                            'alter': ({'idx': r.randrange(n), 'field': r.choice(list(FIELDS)), 'bit': r.randrange(32)}
                                      if r.random() < 0.5 else None), 'split': _split(r, n)})
            elif k == 'reopen':
                ops.append({'op': 'reopen', 'faults': []})
            elif k == 'empty':
                ops.append({'op': 'empty', 'where': r.choice(['tip', 'lower', 'beyond', 'zero'])})
            elif k == 'fetch':
                ops.append(_fetch(r, ['beyond', r.choice([0, 1, 50, 1000, 5000])],
                                  r.choice(['zeros', 'altered', 'honest', 'alt_valid'])))
            else:
                ops.append({'op': 'feed', 'n': r.choice([1, 3, 10]), 'split': []})
    elif fam == 'reopen':
        sc['cp'] = r.random() < 0.25
        if sc['cp']:
            sc['base_len'] = r.choice([1100, 1100, 1037, 1038, 1073, 1002, 1003, 1004])
        else:
            sc['base_len'] = r.choice([1100, 1100, 1100, 1036, 1037, 1072, 1001, 1002, 1003])
        for _ in range(r.randrange(1, 4)):
            for _ in range(r.choice([0, 1, 1, 2])):
                k = r.choices(['ext', 'ext_bad', 'fork', 'feed'], [50, 15, 25, 10])[0]
                if k == 'feed':
                    ops.append({'op': 'feed', 'n': r.choice([1, 2, 5, 40]), 'split': []})
                else:
                    ops.append(_batch(r, big, fork=(k == 'fork'), bad=(k == 'ext_bad'),
                                      nmax=r.choice([3, 9, 24])))
            ops.append({'op': 'reopen', 'faults': _fault(r, sc['cp'])})
        if r.random() < 0.5:
            ops.append(_batch(r, big))
    elif fam == 'cut_enum':
        sc['base_len'] = r.choice([1100, 1100, 1040, 1003])
        sc['slice'] = r.randrange(21)
        if r.random() < 0.3:
            ops.append(_batch(r, big, nmax=4))
        for b in range(16 * sc['slice'] + 1, 16 * sc['slice'] + 17):
            ops.append({'op': 'reopen', 'faults': [{'kind': 'cut', 'back': b}], 'enum': True})
            ops.append({'op': 'feed', 'n': 4, 'split': []})
    elif fam == 'checkpoint':
        cp = sc['cp'] = r.choice([1, 2, 2])
        top = 1000 * cp
        init = r.choices(['none', 'sparse', 'file'], [40, 30 if cp == 2 else 0, 30])[0]
        if init == 'none':
            sc['init'] = 'none'
            sc['base_len'] = 0
            for _ in range(r.randrange(0, 3)):
                ops.append(_fetch(r, ['abs', r.randrange(top)]))
            if r.random() < 0.5:
                ops.append(_fetch(r, ['abs', r.randrange(top)], 'honest'))
            feed_ops(top + r.choice([1, 40, 100]), first=top)
        elif init == 'sparse':
            # the top chunk was fetched and headers connected above it; chunk 0 is still a placeholder
            sc['init'] = 'sparse'
            sc['base_len'] = r.choice([2000, 2001, 2037, 2100, 2100])
        else:
            sc['base_len'] = top + r.choice([0, 1, 37, 100])
        if r.random() < 0.7:
            ops.extend(_pos_probe(r, big, top))
        for _ in range(r.randrange(1, 6)):
            k = r.choices(['ext', 'ext_bad', 'fork', 'fetch_beyond', 'fetch_in', 'reopen_clean', 'reopen_fault',
                           'feed', 'beyond', 'pos_probe', 'empty'], [18, 22, 8, 8, 10, 6, 10, 6, 5, 12, 3])[0]
            if k in ('ext', 'ext_bad', 'fork'):
                ops.append(_batch(r, big, fork=(k == 'fork') and r.choice([1, 2, 3, 5]), bad=(k == 'ext_bad')))
            elif k == 'fetch_beyond':
                ops.append(_fetch(r, ['beyond', r.choice([0, 1, 50, 1000])]))
            elif k == 'fetch_in':
                ops.append(_fetch(r, ['abs', r.randrange(top)]))
            elif k == 'reopen_clean':
                ops.append({'op': 'reopen', 'faults': []})
            elif k == 'reopen_fault':
                ops.append({'op': 'reopen', 'faults': _fault(r, True)})
            elif k == 'beyond':
                ops.append({'op': 'beyond', 'gap': r.choice([1, 2, 1000]), 'n': 2, 'deltas': _deltas(r, 2),
                            'seed': r.getrandbits(48), 'serve': r.choice(['honest', 'zeros'])})
            elif k == 'pos_probe':
                ops.extend(_pos_probe(r, big, top))
            elif k == 'empty':
                ops.append({'op': 'empty', 'where': r.choice(['tip', 'lower', 'beyond', 'zero'])})
            else:
                ops.append({'op': 'feed', 'n': r.choice([1, 3, 36, 100]), 'split': []})
    else:  # stale: a shorter fork, then headers that link to the stale tail of the old branch
        d = r.choice([2, 3, 5, 8, 13, 30])
        f = _batch(r, big, fork=d)
        f['n'] = r.randrange(1, d)
        f['deltas'] = _deltas(r, f['n'])
        f['split'] = _split(r, f['n'])
        ops.append(f)
        if r.random() < 0.3:
            ops.append(_batch(r, big, nmax=1))
        ops.append({'op': 'stale_attach', 'n': r.randrange(1, 4), 'deltas': _deltas(r, 3), 'seed': r.getrandbits(48),
                    'where': r.choice(['end', 'end', 'inside'])})
        if r.random() < 0.4:
            ops.append({'op': 'reopen', 'faults': []})
    return sc


def shrink(sc):
    if sc.get('full_walk'):
        yield dict(sc, full_walk=False)
    if sc.get('server_delay'):
        yield dict(sc, server_delay=0.0)
    for i, op in enumerate(sc['ops']):
        def repl(**kw):
            ops = list(sc['ops'])
            ops[i] = dict(op, **kw)
            return dict(sc, ops=ops)
        if op.get('split'):
            yield repl(split=[])
        if op.get('op') == 'batch':
            bad = op.get('bad')
            if bad and bad['idx'] + 1 < op['n']:
                yield repl(n=bad['idx'] + 1)
            if bad and bad['idx'] > 0:
                yield repl(n=op['n'] - bad['idx'], bad=dict(bad, idx=0), deltas=op['deltas'][bad['idx']:])
            if not bad and op['n'] > 1:
                yield repl(n=op['n'] // 2)
        if op.get('op') == 'reopen' and len(op.get('faults', [])) > 1:
            for j in range(len(op['faults'])):
                yield repl(faults=op['faults'][:j] + op['faults'][j + 1:])
        if op.get('op') == 'feed' and op.get('n', 0) > 1:
            yield repl(n=1)


# ---------------------------------------------------------------------------------------------------
# execution
# ---------------------------------------------------------------------------------------------------

def execute(scenario, keep_trace=False):
    global _frozen
    env.import_lbry()
    from lbry.wallet.header import Headers
    base, chain = lc.load_base_chain()          # before the run starts: may mine (wall time) on first use
    if not _frozen:
        # the per-run gc.collect() of the runner walks the whole imported product (25 ms); park what
        # exists now in the permanent generation (dedicated worker process, no effect on behaviour)
        _frozen = True
        gc.collect()
        gc.freeze()
    run = Run(scenario, keep_trace)
    run.ev('base', lc.base_info.get('digest'))
    tmp = tempfile.mkdtemp(prefix='c07-')
    try:
        _Exec(run, scenario, Headers, base, chain, tmp).go()
    finally:
        shutil.rmtree(tmp, ignore_errors=True)
    run.nontrivial = bool(run.probes['invalid_offered'] or run.probes['fork_stored'] or sum(run.faults.values()))
    run.finish()
    return run.result()


_frozen = False


def _short(b):
    return hashlib.sha256(b).hexdigest()[:10]


class _Server:
    """The header server behind `chunk_getter`: serves 1000-header chunks of the base chain, honest or
    scripted-bad (one-shot `next`), after a virtual delay.  Everything served is logged."""

    def __init__(self, ex):
        self.ex = ex
        self.log = []
        self.next = None

    def make(self, start, kind, seed):
        base = self.ex.base
        r = random.Random(seed)
        honest = base[start * HS:(start + 1000) * HS]
        if kind == 'honest':
            return honest
        if kind == 'altered':
            if not honest:
                return bytes(HS)
            b = bytearray(honest)
            i = r.randrange(len(b) * 8)
            b[i // 8] ^= 1 << (i % 8)
            return bytes(b)
        if kind == 'truncated':
            n = len(honest) // HS
            return honest[:(n - r.randrange(1, n + 1)) * HS] if n else b''
        if kind == 'trunc_bytes':
            return honest[:max(0, len(honest) - r.randrange(1, HS))]
        if kind == 'extended':
            return honest + (base[(start + 1000) * HS:(start + 1001) * HS] or r.randbytes(HS))
        if kind == 'alt_valid':
            n = len(honest) // HS
            if n < 3:
                return r.randbytes(HS)
            p = lc.parse(honest[(n - 1) * HS:])
            hdr, _ = lc.mine_valid(p['version'], p['prev'], r.randbytes(32), p['claim'], p['time'], p['bits'],
                                   r.getrandbits(32))
            return honest[:(n - 1) * HS] + hdr
        if kind == 'zeros':
            return bytes(1000 * HS)
        return b''

    async def get(self, start):
        if self.ex.sc.get('server_delay'):
            await asyncio.sleep(self.ex.sc['server_delay'])
        kind, seed = self.next or ('honest', 0)
        self.next = None
        data = self.make(start, kind, seed)
        self.log.append((start, kind, data))
        c = zlib.compressobj(6, zlib.DEFLATED, -15)
        return {'base64': base64.b64encode(c.compress(data) + c.flush()).decode()}


class _Exec:
    def __init__(self, run, sc, Headers, base, chain, tmp):
        self.run, self.sc, self.base, self.chain = run, sc, base, chain
        self.path = os.path.join(tmp, 'headers')
        ncp = int(sc.get('cp') or 0)          # number of check-pointed 1000-header chunks (0, 1 or 2)
        self.cps = {c * 1000: lc.chunk_digest(base[c * 1000 * HS:(c + 1) * 1000 * HS]) for c in range(min(ncp, 2))}
        self.top = 1000 * len(self.cps)         # first height above the check-pointed chunks
        self.rs = max(list(self.cps) or [-1]) + 1000      # first header repair looks at on an aligned file
        cps = self.cps

        class SimHeaders(Headers):
            max_target = lc.MAX_TARGET
            genesis_hash = lc.display_hash(chain.genesis).encode()
            target_timespan = lc.TIMESPAN
            checkpoints = cps
            validate_difficulty = True
        self.H = SimHeaders
        self.server = _Server(self)
        self.h = None
        self.image = b''        # last observed io image
        self.logical = 0        # how far the stored bytes validate (>= end of the most recently connected batch)
        self.getter_on = bool(sc.get('cp')) and bool(sc.get('getter', True))
        self.stop = False
        self.midfile = False     # the last writer left the file position below the end of the stored data

    # ---- helpers ---------------------------------------------------------------------------------
    def filled(self, buf):
        """`buf` with every all-zero placeholder of a not yet downloaded check-pointed chunk replaced by the
        chunk it stands for: the chain is judged modulo these holes (a wallet keeps them until the chunk is
        fetched on demand); anything else found in such a region is judged as it is."""
        for s0 in self.cps:
            a, b = s0 * HS, (s0 + 1000) * HS
            if len(buf) >= b and buf[a:b] != self.base[a:b] and buf[a:b] == bytes(b - a):
                buf = buf[:a] + self.base[a:b] + buf[b:]
        return buf

    def fi(self, buf, hi=None):
        """first invalid height of buf[0:hi] (base-chain prefix is trusted: validated once per process)."""
        buf = self.filled(buf)
        hi = len(buf) // HS if hi is None else min(hi, len(buf) // HS)
        w = min(lc.common_prefix_headers(buf, self.base), hi)
        return self.chain.first_invalid(buf, w, hi)

    def _uop_site(self):
        return {'unaligned_cut_over_placeholder': True} if getattr(self, 'unaligned_over_placeholder', False) else {}

    def viol(self, kind, detail, **site):
        self.stop = True
        return self.run.violation(kind, detail, **site)

    def mined_stats(self, parent, grand, bits):
        if grand is None:
            return
        pr = self.run.probes
        actual = lc.time_bits(parent)[0] - lc.time_bits(grand)[0]
        mod = lc.TIMESPAN + lc._trunc_div(actual - lc.TIMESPAN, 8)
        if actual < 0:
            pr['mined_neg_delta'] += 1
        if mod < lc.MIN_SPAN:
            pr['mined_clamp_low'] += 1
        elif mod > lc.MAX_SPAN:
            pr['mined_clamp_high'] += 1
        elif actual < lc.TIMESPAN and (actual - lc.TIMESPAN) % 8:
            pr['mined_trunc_vs_floor'] += 1
        if lc.decode_compact(lc.time_bits(parent)[1]) * lc.clamped_timespan(actual) // lc.TIMESPAN > lc.MAX_TARGET:
            pr['mined_capped'] += 1

    def build_batch(self, image, start, n, deltas, seed, bad):
        """Mine n headers on top of image[start-1] (and image[start-2]); `bad` breaks header bad['idx']."""
        r = random.Random(seed)
        parent = image[(start - 1) * HS:start * HS]
        grand = image[(start - 2) * HS:(start - 1) * HS] if start >= 2 else None
        out = []
        label = 'none'
        broken = False
        for i in range(n):
            pt, pb = lc.time_bits(parent)
            gt = lc.time_bits(grand)[0] if grand is not None else None
            bits = lc.next_bits(pb, pt, gt)
            full = lc.next_target(pb, pt, gt)
            delta = lc.guard_delta(bits, deltas[i % len(deltas)] if deltas else 150)
            t = lc.clamp_time(pt + delta)
            version = r.choice([1, 1, 2, 0x20000000, r.getrandbits(32)])
            merkle, claim = r.randbytes(32), r.randbytes(32)
            prev = lc.sha256d(parent)
            nonce0 = r.getrandbits(32)
            target = lc.decode_compact(bits)
            cheap = target * 64 >= lc.MAX_TARGET
            if broken and not cheap:          # after the bad header nothing is validated: do not burn hashes
                hdr = lc.serialize(version, prev, merkle, claim, t, bits, nonce0)
            elif bad and i == bad.get('idx'):
                kind = bad['kind']
                broken = True
                if kind == 'bits':
                    v = bad.get('variant', 'mant_minus')
                    if v == 'time_shift':
                        wb = lc.next_bits(pb, pt + bad.get('shift', 64), gt)
                    elif v == 'grand_parent_swap' and gt is not None:
                        wb = lc.next_bits(pb, gt, pt)
                    else:
                        wb = lc.wrong_bits_variant(v, pb, pt, gt)
                    for alt in ('mant_minus', 'mant_plus'):
                        if wb == bits:
                            v = alt
                            wb = lc.wrong_bits_variant(alt, pb, pt, gt)
                    label = 'bits:' + v
                    lim = min(target, lc.decode_compact(wb))
                    if lim * 4096 < lc.MAX_TARGET:
                        lim = target      # absurdly hard wrong bits: keep work for the right target only
                    hdr, _ = lc.mine(lc.serialize(version, prev, merkle, claim, t, wb, 0)[:108], nonce0,
                                     lambda p: p <= lim)
                elif kind == 'pow':
                    v = bad.get('variant', 'above')
                    label = 'pow:' + v
                    floor = full + (full >> 20) + 1        # clear of the product's un-rounded target as well
                    pre = lc.serialize(version, prev, merkle, claim, t, bits, 0)[:108]
                    if v == 'blockhash_ok':
                        nn = nonce0
                        while True:
                            cand = pre + nn.to_bytes(4, 'little')
                            bh = lc.sha256d(cand)
                            if int.from_bytes(bh, 'little') <= target and lc.pow_int_from_block_hash(bh) > floor:
                                hdr = cand
                                break
                            nn = (nn + 1) & 0xffffffff
                    else:
                        hdr, _ = lc.mine(pre, nonce0, lambda p: p > floor)
                elif kind == 'parent':
                    how = bad.get('how', 'random')
                    label = 'parent:' + how
                    if how == 'grand' and grand is not None:
                        prev2 = lc.sha256d(grand)
                    elif how == 'zero':
                        prev2 = bytes(32)
                    elif how == 'self_bitflip':
                        prev2 = bytes([prev[0] ^ 1]) + prev[1:]
                    elif how == 'display_order':
                        prev2 = prev[::-1]
                    else:
                        prev2 = r.randbytes(32)
                    hdr, _ = lc.mine_valid(version, prev2, merkle, claim, t, bits, nonce0)
                else:
                    f = bad.get('field', 'nonce')
                    off, width = FIELDS.get(f, FIELDS['nonce'])
                    label = 'field:' + f
                    hdr, _ = lc.mine_valid(version, prev, merkle, claim, t, bits, nonce0)
                    bit = bad.get('bit', 0) % width
                    b = bytearray(hdr)
                    b[off + bit // 8] ^= 1 << (bit % 8)
                    hdr = bytes(b)
                self.run.faults['bad_' + kind] += 1
            else:
                hdr, _ = lc.mine_valid(version, prev, merkle, claim, t, bits, nonce0)
                if not broken:
                    self.mined_stats(parent, grand, bits)
            out.append(hdr)
            grand, parent = parent, hdr
        return out, label

    def apply_fetches(self, before):
        """Image the product must hold after the chunks served during the last call: a chunk is stored
        iff its start is check-pointed and its hash equals the checkpoint."""
        eb, accepted, rejected = before, [], []
        for s, kind, data in self.server.log:
            if s in self.cps and lc.chunk_digest(data) == self.cps[s]:
                eb = eb[:s * HS] + data + eb[s * HS + len(data):]
                accepted.append((s, kind))
                self.run.probes['chunk_honest_stored'] += 1
            else:
                rejected.append((s, kind, data))
                if s in self.cps:
                    self.run.probes['chunk_bad_rejected'] += 1
                    self.run.faults['checkpoint_bad'] += 1
                else:
                    self.run.probes['chunk_uncheckpointed_ignored'] += 1
                    self.run.faults['chunk_uncheckpointed'] += 1
        return eb, accepted, rejected

    def bad_chunk_stored(self, eb, after, rejected):
        for s, kind, data in rejected:
            if data and after[s * HS:s * HS + len(data)] == data and eb[s * HS:s * HS + len(data)] != data:
                return kind
        return None

    # ---- one connect call and its oracle -------------------------------------------------------------
    async def do_connect(self, start, batch, label):
        h, run = self.h, self.run
        before = h.io.getvalue()
        plen = len(h)
        del self.server.log[:]
        exc, ret = None, None
        try:
            ret = await h.connect(start, batch)
        except Exception as e:  # noqa
            exc = e
        after = h.io.getvalue()
        run.probes['connect_call'] += 1
        eb, accepted, rejected = self.apply_fetches(before)
        logical = self.logical
        if accepted:
            plen = max(plen, len(eb) // HS)
            logical = self.fi(eb)[0]
        n = len(batch) // HS
        # -- independent classification of the batch in the context of what was stored ------------------
        k, rule = 0, None
        if start > plen:
            rule = 'beyond'
        elif self.cps and start < self.top:
            # below max(checkpoints)+1000 headers are only accepted as whole chunks that hash to their checkpoint;
            # a batch that connects there (however valid by the chain rules) is not a valid extension
            rule = 'checkpointed'
        else:
            parent = eb[(start - 1) * HS:start * HS] if start >= 1 else None
            grand = eb[(start - 2) * HS:(start - 1) * HS] if start >= 2 else None
            for i in range(n):
                cur = batch[i * HS:(i + 1) * HS]
                rule = self.chain.check(start + i, cur, parent, grand)
                if rule is not None:
                    break
                k += 1
                grand, parent = parent, cur
            if n == 0:
                rule = 'empty'
            if start > logical:
                # parent is a stale header of an old branch (beyond the end of the most recently
                # connected batch): the batch does not extend the chain
                k, rule = 0, 'stale'
        fully = rule is None and n > 0
        was_midfile = self.midfile
        r = ret if exc is None else 0
        site = {'rule': rule or 'valid', 'bad': label}
        run.ev('connect', start, n, ret if exc is None else type(exc).__name__, rule, k, _short(after))
        if rule is not None:
            if rule != 'beyond':
                run.probes['invalid_offered'] += 1
                if k:
                    run.probes['invalid_after_valid_prefix'] += 1
            run.probes['rule_' + rule] += 1
        # -- exceptions -----------------------------------------------------------------------------------
        if exc is not None:
            mismatch = any(s in self.cps for s, _k, _d in rejected) and 'Checkpoint mismatch' in str(exc)
            if rule == 'beyond' and isinstance(exc, IndexError):
                run.probes['beyond_tip_raised'] += 1
            elif rule == 'checkpointed' and type(exc).__name__ in ('InvalidHeader', 'IndexError'):
                run.probes['checkpointed_range_refused_raising'] += 1
            elif mismatch:
                run.probes['connect_refused_bad_chunk'] += 1
            else:
                return self.viol('C07.exception', f'connect(start={start}, {n} headers, {label}) raised '
                                 f'{type(exc).__name__}: {exc}', where='connect', exc=type(exc).__name__, **site)
        if not isinstance(r, int) or isinstance(r, bool):
            return self.viol('C07.return_value', f'connect returned {r!r}', **site)
        # -- a bad chunk must never be stored ---------------------------------------------------------------
        bk = self.bad_chunk_stored(eb, after, rejected)
        if bk:
            return self.viol('C07.checkpoint', f'chunk served as {bk} during connect was stored although its hash '
                             f'is not the configured checkpoint', serve=bk, what='stored_mismatching')
        # -- stored whole / nothing beyond the first invalid header ----------------------------------------
        if rule == 'checkpointed':
            c0 = (start // 1000) * 1000
            state = 'placeholder' if eb[c0 * HS:(c0 + 1000) * HS] == bytes(1000 * HS) else 'downloaded'
            run.probes['connect_inside_checkpointed_' + state] += 1
            if after != eb:
                d = lc.common_prefix_headers(after, eb)
                return self.viol('C07.checkpoint', f'connect({start}, {n} headers, {label}) starts inside the check-'
                                 f'pointed range (below {self.top}; chunk {c0} {state}) and returned {ret!r}: stored '
                                 f'bytes changed from height {d} on, {len(eb) // HS} headers before the call, '
                                 f'{len(after) // HS} after it - headers of a check-pointed chunk are only accepted '
                                 f'as a whole chunk that hashes to the checkpoint', what='connected_inside_checkpointed_range',
                                 shape=label, chunk=state, cut_above=len(after) < len(eb))
        if after[:start * HS] != eb[:start * HS]:
            d = lc.common_prefix_headers(after, eb)
            return self.viol('C07.valid_headers_dropped', f'connect({start}, {n} headers, {label}; first broken rule '
                             f'{rule}, returned {ret!r}) changed the chain BELOW the batch: {len(eb) // HS} headers '
                             f'were stored before the call, {len(after) // HS} after it, first difference at height '
                             f'{d}' + (' (the previous writer, an accepted on-demand chunk, had left the file '
                                       'position in the middle of the file)' if was_midfile else ''),
                             when='call', midfile=was_midfile, **site)
        if fully:
            if after[start * HS:(start + n) * HS] != batch:
                return self.viol('C07.valid_batch_not_stored', f'fully valid batch of {n} at {start} (tip {plen}, '
                                 f'{label}) returned {ret!r} and is not in the stored bytes', **site)
            if r != n:
                return self.viol('C07.return_value', f'fully valid batch of {n} at {start} returned {ret!r}', **site)
        else:
            cutoff = (start + k) * HS
            changed = after[cutoff:] != eb[cutoff:]
            if rule == 'stale' and (changed or r > 0):
                return self.viol('C07.stale_parent_accepted', f'the valid chain ends at height {logical} (a shorter '
                                 f'fork replaced the old branch, whose stale headers remain up to {plen}); a batch '
                                 f'of {n} at {start} linking to the stale header {start - 1} returned {ret!r} and '
                                 f'was stored: the chain up to {start + n} no longer links at {logical}',
                                 where='end' if start == plen else 'inside')
            if changed:
                d = lc.common_prefix_headers(after[cutoff:], eb[cutoff:]) + start + k
                return self.viol('C07.stored_beyond_invalid', f'batch of {n} at {start}: header #{k} (height '
                                 f'{start + k}) breaks rule {rule} ({label}) but stored bytes changed at height {d} '
                                 f'(returned {ret!r}, len {plen} -> {len(h)})', **site)
            if r > k or r < 0:
                return self.viol('C07.return_value', f'batch of {n} at {start} whose header #{k} breaks rule '
                                 f'{rule} ({label}) returned {ret!r}', **site)
        end = start + r if r > 0 else 0
        if end > len(after) // HS or len(h) != len(after) // HS:
            return self.viol('C07.return_value', f'connect({start}, {n}) returned {ret!r}, len()={len(h)} but '
                             f'{len(after) // HS} headers are stored', **site)
        # -- the chain up to the end of the most recently connected batch validates -------------------------
        # (`extent` = how far the stored bytes validate at all: the model's chain for later operations)
        extent = logical
        if eb != after or end > logical:
            w = max(0, min(logical, lc.common_prefix_headers(eb, after), start if r > 0 else logical) - 3)
            cpb = lc.common_prefix_headers(self.filled(after), self.base)
            if cpb > w:
                w = cpb                     # base-chain prefix: validated once per process
            extent, bad_rule = self.chain.first_invalid(self.filled(after), w, len(after) // HS)
            if extent < end:
                return self.viol('C07.stored_invalid', f'after connect({start}, {n} headers, {label}) -> {ret!r} '
                                 f'the stored header at height {extent} breaks rule {bad_rule} (batch end {end})',
                                 **dict(site, stored_rule=bad_rule))
        new_logical = extent
        # -- bookkeeping / reach probes ----------------------------------------------------------------
        if fully:
            if start == plen:
                run.probes['valid_ext_stored'] += 1
            else:
                run.probes['fork_stored'] += 1
                if start + n < plen:
                    run.probes['fork_shorter_stale_tail'] += 1
            for hh in (1, 2):
                if start <= hh < start + n:
                    run.probes[f'connect_height_{hh}'] += 1
        if was_midfile:
            run.probes['extend_after_midfile_write' if r > 0 else 'reject_after_midfile_write'] += 1
        if n == 0:
            run.probes['empty_batch'] += 1
        self.midfile = False if r > 0 else (self.midfile or self.note_midfile(accepted, after))
        self.image, self.logical = after, new_logical
        return None

    def note_midfile(self, accepted, after):
        """an accepted chunk written below the top of the stored data leaves the file position mid-file"""
        mid = any(s0 + 1000 < len(after) // HS for s0, _k in accepted)
        if mid:
            self.run.probes['chunk_stored_below_top'] += 1
        return mid

    async def connect_pieces(self, start, hdrs, split, label):
        cuts = sorted({c for c in (split or []) if isinstance(c, int) and 0 < c < len(hdrs)})
        bounds = [0] + cuts + [len(hdrs)]
        if len(bounds) > 2:
            self.run.faults['split_batch'] += 1
        for a, b in zip(bounds, bounds[1:]):
            if len(bounds) > 2:
                self.run.probes['split_piece'] += 1
            await self.do_connect(start + a, b''.join(hdrs[a:b]), label)
            if self.stop:
                return

    # ---- operations -----------------------------------------------------------------------------------
    async def op_batch(self, op):
        if self.logical < 1:
            self.run.probes['op_skipped'] += 1
            return
        at = max(0, min(int(op.get('at', 0)), self.logical - 1))
        if self.cps:
            # a check-pointed chunk is immutable by design (no reorganisation below a checkpoint):
            # own headers are only mined above it
            if self.logical < self.top:
                self.run.probes['op_skipped'] += 1
                return
            at = min(at, self.logical - self.top)
        start = self.logical - at
        n = max(1, int(op.get('n', 1)))
        hdrs, label = self.build_batch(self.filled(self.image), start, n, op.get('deltas') or [150], op.get('seed', 0),
                                       op.get('bad'))
        if at:
            self.run.faults['fork'] += 1
        await self.connect_pieces(start, hdrs, op.get('split'), label)

    async def op_beyond(self, op):
        plen = len(self.h)
        n = max(1, int(op.get('n', 1)))
        if self.logical >= 1:
            hdrs, _ = self.build_batch(self.filled(self.image), self.logical, n, op.get('deltas') or [150],
                                       op.get('seed', 0), None)
        else:
            hdrs = [self.base[i * HS:(i + 1) * HS] for i in range(n)]
        self.run.faults['beyond_tip'] += 1
        if op.get('serve') and self.getter_on:
            self.server.next = (op['serve'], op.get('seed', 0))
        await self.do_connect(plen + max(1, int(op.get('gap', 1))), b''.join(hdrs), 'beyond')

    async def op_resend(self, op):
        if self.logical < 1:
            self.run.probes['op_skipped'] += 1
            return
        n = max(1, min(int(op.get('n', 1)), self.logical))
        s = self.logical - n if op.get('to_tip') else int(op.get('frac', 0.0) * (self.logical - n + 1))
        if op.get('zero'):
            s = 0
        s = max(0, min(s, self.logical - n))
        hdrs = [self.image[(s + i) * HS:(s + i + 1) * HS] for i in range(n)]
        label = 'resend'
        alter = op.get('alter')
        if alter:
            i = alter.get('idx', 0) % n
            off, width = FIELDS.get(alter.get('field'), FIELDS['nonce'])
            bit = alter.get('bit', 0) % width
            b = bytearray(hdrs[i])
            b[off + bit // 8] ^= 1 << (bit % 8)
            hdrs[i] = bytes(b)
            label = 'resend_field:' + str(alter.get('field'))
            self.run.faults['bad_field'] += 1
        self.run.probes['resend'] += 1
        await self.connect_pieces(s, hdrs, op.get('split'), label)

    async def op_feed(self, op):
        lg = self.logical
        if lg >= lc.BASE_LEN or self.filled(self.image)[:lg * HS] != self.base[:lg * HS]:
            self.run.probes['op_skipped'] += 1
            return
        n = max(1, min(int(op.get('n', 1)), lc.BASE_LEN - lg))
        batch, label = self.base[lg * HS:(lg + n) * HS], 'feed'
        alter = op.get('alter')
        if alter:
            i = alter.get('idx', 0) % n
            off, width = FIELDS.get(alter.get('field'), FIELDS['nonce'])
            bit = alter.get('bit', 0) % width
            b = bytearray(batch)
            b[i * HS + off + bit // 8] ^= 1 << (bit % 8)
            batch, label = bytes(b), 'feed_field:' + str(alter.get('field'))
            self.run.faults['bad_field'] += 1
        self.run.probes['feed_through_connect'] += 1
        await self.do_connect(lg, batch, label)

    async def op_deep(self, op):
        """A batch that starts inside the check-pointed range (see _deep_op)."""
        if not self.cps:
            self.run.probes['op_skipped'] += 1
            return
        shape = op.get('shape', 'fork')
        top = self.top
        start = max(1, min(int(op.get('start', 1)), top - 1))
        n = max(1, int(op.get('n', 1)))
        ctx = self.filled(self.image)
        if len(ctx) < top * HS:
            self.run.probes['op_skipped'] += 1
            return
        deltas, seed = op.get('deltas') or [150], op.get('seed', 0)
        if shape == 'genesis_fork':
            start = 0
            hdrs = [self.base[:HS]] + self.build_batch(ctx, 1, n, deltas, seed, None)[0]
        elif shape == 'feed0':
            start = 0
            hdrs = [self.base[i * HS:(i + 1) * HS] for i in range(n)]
        elif shape == 'resend':
            n = min(n, lc.BASE_LEN - start)
            hdrs = [self.base[(start + i) * HS:(start + i + 1) * HS] for i in range(n)]
        elif shape == 'placeholder_bits':
            # valid against what is STORED when the chunk below is an all-zero placeholder: parent = the real
            # header k*1000, "grand-parent" = 112 zero bytes (time 0) -> the retarget asks for the easiest step
            start = max(1001, min(start, top - 999)) if top > 1000 else 1
            start = (start // 1000) * 1000 + 1
            rr = random.Random(seed)
            parent = ctx[(start - 1) * HS:start * HS]
            pt, pb = lc.time_bits(parent)
            bits = lc.next_bits(pb, pt, 0)
            hdr, _ = lc.mine_valid(1, lc.sha256d(parent), rr.randbytes(32), rr.randbytes(32), lc.clamp_time(pt + 150),
                                   bits, rr.getrandbits(32))
            hdrs = [hdr]
        else:
            hdrs = self.build_batch(ctx, start, n, deltas, seed, None)[0]
        self.run.faults['connect_below_checkpoint'] += 1
        self.run.probes['deep_' + shape] += 1
        await self.connect_pieces(start, hdrs, op.get('split'), 'below_cp:' + shape)

    async def op_band(self, op):
        """pre-mined header whose PoW hash lies between decode(bits) and the un-rounded retarget value"""
        ctx = self.filled(self.image)
        cands = [h for h in sorted(lc.band_headers(), reverse=True)
                 if self.top <= h <= self.logical and ctx[:h * HS] == self.base[:h * HS]]
        if not cands:
            self.run.probes['op_skipped'] += 1
            return
        h = cands[0]
        hdrs = [lc.band_headers()[h]]
        if op.get('child'):
            hdrs += self.build_batch(ctx[:(h - 1) * HS] + self.base[(h - 1) * HS:h * HS] + hdrs[0], h + 1, 1, [150],
                                     op.get('seed', 0), None)[0]
        self.run.faults['bad_pow_band'] += 1
        self.run.probes['band_as_extension' if h == len(self.h) else 'band_as_fork'] += 1
        await self.connect_pieces(h, hdrs, [1] if op.get('split') and len(hdrs) > 1 else [], 'pow:band')

    async def op_empty(self, op):
        plen = len(self.h)
        where = op.get('where', 'tip')
        start = {'tip': plen, 'lower': max(0, self.logical - 3), 'beyond': plen + 5, 'zero': 0}.get(where, plen)
        await self.do_connect(start, b'', 'empty:' + str(where))

    async def op_stale_attach(self, op):
        plen = len(self.h)
        if plen <= self.logical or plen < 2:
            self.run.probes['op_skipped'] += 1
            return
        start = plen if op.get('where') != 'inside' else self.logical + max(1, (plen - self.logical) // 2)
        hdrs, _ = self.build_batch(self.image, start, max(1, int(op.get('n', 1))), op.get('deltas') or [150],
                                   op.get('seed', 0), None)
        self.run.faults['stale_attach'] += 1
        await self.do_connect(start, b''.join(hdrs), 'stale_parent')

    async def op_fetch(self, op):
        h, run = self.h, self.run
        if not self.getter_on:
            self.getter_on = True
            h.chunk_getter = self.server.get
        spec = op.get('h') or ['in', 0.5]
        height = {'in': lambda: int(spec[1] * 1000), 'abs': lambda: int(spec[1])}.get(
            spec[0], lambda: len(h) + int(spec[1]))()
        serve = op.get('serve', 'honest')
        self.server.next = (serve, op.get('seed', 0))
        before = h.io.getvalue()
        del self.server.log[:]
        exc = None
        try:
            if op.get('via') == 'get':
                await h.get_raw_header(height)
            elif op.get('via') == 'get_dict':
                await h.get(height)
            else:
                await h.ensure_chunk_at(height)
        except Exception as e:  # noqa
            exc = e
        self.server.next = None
        after = h.io.getvalue()
        eb, accepted, rejected = self.apply_fetches(before)
        run.ev('fetch', height, serve, [x[:2] for x in self.server.log], type(exc).__name__ if exc else '',
               _short(after))
        if after != eb:
            bk = self.bad_chunk_stored(eb, after, rejected)
            if bk or not accepted:
                return self.viol('C07.checkpoint', f'fetch at height {height}: chunk served as {bk or serve} changed '
                                 f'the stored bytes although its hash is not a configured checkpoint',
                                 serve=bk or serve, what='stored_mismatching')
            return self.viol('C07.checkpoint', f'fetch at height {height}: chunk served as {accepted[0][1]} hashes '
                             f'to the checkpoint but was not stored', serve=accepted[0][1], what='matching_not_stored')
        if len(h) != len(after) // HS:
            return self.viol('C07.return_value', f'after fetch len()={len(h)} but {len(after) // HS} headers stored',
                             rule='fetch', bad=serve)
        self.image = after
        if accepted:
            self.logical = self.fi(after)[0]
            self.midfile = self.note_midfile(accepted, after) or self.midfile
        return None

    # ---- faults between close() and open() --------------------------------------------------------------
    def apply_faults(self, op, pre, prev_file):
        run = self.run
        try:
            with open(self.path, 'rb') as f:
                F = f.read()
        except OSError:
            F = b''
        R = pre                         # what was STORED: the in-memory chain that close() was asked to persist
        Rh = len(R) // HS
        stale_tail = len(F) > len(pre)  # close() left bytes of an older, longer chain behind the stored one
        if len(prev_file) > len(pre):
            run.probes['closed_shorter_than_file'] += 1
            run.probes['closed_shorter_' + ('below_999' if Rh < 999 else 'above_999')] += 1
        if Rh < 1000:
            run.probes['store_shorter_than_1000'] += 1
        tip, rs = Rh - 1, self.rs
        Fp = bytearray(F)
        D = []
        kinds = []
        flips = []
        cut_at = None
        tip_partial = False

        def resolve(pos, allow_tip, anywhere=False):
            how, v = (pos or ['back', 1])[:2]
            if how == 'back':
                p = tip - int(v)
            elif how == 'low':
                p = rs + 1 + int(v)
            elif how == 'abs':
                p = int(v)
            elif how == 'anyfrac':
                p = int(float(v) * Rh)
            else:
                p = rs + 1 + int(float(v) * max(0, tip - rs))
            # without checkpoints there is no check-pointed chunk: every height is "above the last one"
            floor = -1 if anywhere and not self.cps else rs
            if anywhere and self.cps and R[(rs - 1) * HS:rs * HS] not in (b'', bytes(HS)):
                # the first height above the check-pointed chunks is above the last check-pointed chunk; only
                # while the header below it is a not yet downloaded placeholder nothing can link it
                floor = rs - 1
            if floor < p <= tip and (allow_tip or p < tip) and (p + 1) * HS <= len(Fp):
                if p < 999 and not self.cps:
                    run.probes['damage_below_999'] += 1
                return p
            return None
        for ft in op.get('faults') or []:
            kind = ft.get('kind')
            if kind == 'overwrite':
                p = resolve(ft.get('pos'), True, bool(ft.get('any')))
                if p is None:
                    run.probes['fault_skipped'] += 1
                    continue
                fill = bytes(HS) if ft.get('fill') == 'zero' else random.Random(ft.get('seed', 0)).randbytes(HS)
                Fp[p * HS:(p + 1) * HS] = fill
                D.append(p)
                name = 'overwrite_tip' if p == tip else 'overwrite_mid'
                run.faults[name] += 1
                kinds.append(name)
            elif kind == 'bitflip':
                p = resolve(ft.get('pos'), False, bool(ft.get('any')))
                if p is None:
                    run.probes['fault_skipped'] += 1
                    continue
                bit = int(ft.get('bit', 0)) % (HS * 8)
                Fp[p * HS + bit // 8] ^= 1 << (bit % 8)
                flips.append((p, p * HS + bit // 8, 1 << (bit % 8)))
                D.append(p)
                run.faults['bitflip'] += 1
                kinds.append('bitflip_prev' if 32 <= bit < 288 else 'bitflip')
            elif kind == 'tip_damage':
                # any damage to the tip that is not a whole-header overwrite
                p = resolve(['back', 0], True, True)
                if p is None or p != len(Fp) // HS - 1:
                    run.probes['fault_skipped'] += 1
                    continue
                old = bytes(Fp[p * HS:(p + 1) * HS])
                b = bytearray(old)
                how = ft.get('how', 'flip')
                if how == 'flip':
                    bit = int(ft.get('bit', 0)) % (HS * 8)
                    b[bit // 8] ^= 1 << (bit % 8)
                elif how == 'zero_tail':
                    nb = max(1, min(int(ft.get('bytes', 4)), HS - 1))
                    b[HS - nb:] = bytes(nb)
                else:
                    rr = random.Random(ft.get('seed', 0))
                    f = ft.get('field')
                    if f == 'bits_max':
                        b[104:108] = lc.encode_compact(lc.MAX_TARGET).to_bytes(4, 'little')
                    elif f == 'bits_parent' and p >= 1:
                        b[104:108] = bytes(Fp[(p - 1) * HS + 104:(p - 1) * HS + 108])
                    elif f == 'nonce_plus':
                        b[108:112] = ((int.from_bytes(b[108:112], 'little') + 1) & 0xffffffff).to_bytes(4, 'little')
                    elif f == 'time_plus':
                        b[100:104] = ((int.from_bytes(b[100:104], 'little') + 1) & 0xffffffff).to_bytes(4, 'little')
                    elif f == 'version_flip':
                        b[0] ^= 1
                    else:
                        b[36 + rr.randrange(32)] ^= 1 << rr.randrange(8)
                b = bytes(b)
                par = bytes(Fp[(p - 1) * HS:p * HS]) if p >= 1 else None
                gra = bytes(Fp[(p - 2) * HS:(p - 1) * HS]) if p >= 2 else None
                if b == old or self.chain.check(p, b, par, gra) is None or bytes(HS) in (par, gra):
                    # nothing changed, or the changed header still satisfies every rule: no validator can tell
                    # (nor while a header right below the tip is the placeholder of a chunk not downloaded yet)
                    run.probes['tip_damage_still_valid'] += 1
                    continue
                Fp[p * HS:(p + 1) * HS] = b
                D.append(p)
                tip_partial = True
                run.faults['tip_' + how] += 1
                kinds.append('tip_' + how)
            elif kind == 'garbage_tail':
                p = resolve(ft.get('pos'), True, True)
                if p is None or len(op.get('faults')) != 1:
                    run.probes['fault_skipped'] += 1
                    continue
                m = max(1, int(ft.get('m', 1)))
                fill = bytes(m * HS) if ft.get('fill') == 'zero' else random.Random(ft.get('seed', 0)).randbytes(m * HS)
                Fp = bytearray(bytes(Fp[:p * HS]) + fill)
                D.append(p)
                run.faults['garbage_tail'] += 1
                kinds.append('garbage_tail')
            elif kind == 'cut':
                lo = self.top * HS
                if 'hdr_back' in ft:
                    c = (len(F) // HS - int(ft['hdr_back'])) * HS
                elif 'back' in ft:
                    c = len(F) - int(ft['back'])
                else:
                    c = lo + int(float(ft.get('frac', 0.5)) * max(0, len(F) - lo))
                if lo <= c < len(F):
                    cut_at = c if cut_at is None else min(cut_at, c)
                else:
                    run.probes['fault_skipped'] += 1
        if cut_at is not None and cut_at % HS and not UNALIGNED_CUT_WITH_PLACEHOLDER and self.filled(F) != F:
            cut_at -= cut_at % HS
            run.probes['cut_aligned_because_placeholder'] += 1
        # the specific input class of the known finding: an unaligned cut while a check-pointed chunk is still an
        # all-zero placeholder (open() then runs repair() from height 0)
        self.unaligned_over_placeholder = bool(cut_at is not None and cut_at % HS and self.filled(F) != F)
        if self.unaligned_over_placeholder:
            run.probes['unaligned_cut_over_placeholder'] += 1
        if cut_at is not None:
            new_tip = cut_at // HS - 1
            for p, byte, mask in flips:
                if p > new_tip:             # cut away anyway
                    Fp[byte] ^= mask
                    if p in D:
                        D.remove(p)
                    run.probes['fault_skipped'] += 1
                elif p == new_tip:
                    # the cut turns a partially changed header into the tip: any damage to the tip counts, unless
                    # the changed header still satisfies every rule (then no validator can tell)
                    cur = bytes(Fp[p * HS:(p + 1) * HS])
                    par = bytes(Fp[(p - 1) * HS:p * HS]) if p >= 1 else None
                    gra = bytes(Fp[(p - 2) * HS:(p - 1) * HS]) if p >= 2 else None
                    if self.chain.check(p, cur, par, gra) is None or bytes(HS) in (par, gra):
                        Fp[byte] ^= mask
                        if p in D:
                            D.remove(p)
                        run.probes['tip_damage_still_valid'] += 1
                    else:
                        tip_partial = True
                        run.probes['cut_made_flipped_header_the_tip'] += 1
            del Fp[cut_at:]
            run.faults['cut'] += 1
            kinds.append('cut')
            where = tip - cut_at // HS
            if cut_at % HS == 0:
                run.probes['cut_aligned'] += 1
            if 0 <= where <= 2:
                run.probes[['cut_in_tip', 'cut_in_tip_1', 'cut_in_tip_2'][where]] += 1
            if op.get('enum'):
                run.probes['cut_enum_offset'] += 1
                run.probes['cut_enum_slice_%02d' % ((len(F) - cut_at - 1) // 16)] += 1   # 21 slices x 16 offsets
        Fp = bytes(Fp)
        if kinds or Fp != F:
            with open(self.path, 'wb') as f:
                f.write(Fp)
        run.ev('faults', [(k,) for k in kinds], cut_at, sorted(D), len(F), len(Fp))
        return {'R': R, 'Fp': Fp, 'D': D, 'kinds': kinds or ['none'], 'stale_tail': stale_tail,
                'tip_partial': tip_partial}

    def after_open(self, ctx):
        """Restart clauses: loaded bytes are a prefix of what was stored, validate, and at most the
        headers from one before the first damaged header onwards were dropped."""
        h, run = self.h, self.run
        io = h.io.getvalue()
        L2 = len(h)
        R, Fp, D = ctx['R'], ctx['Fp'], ctx['D']
        fault = '+'.join(sorted(set(ctx['kinds'])))
        Rh, Wc = len(R) // HS, len(Fp) // HS
        first_seen = 0 if len(Fp) % HS else self.rs
        edge = Wc - 1 > first_seen and (Wc - 1 - first_seen) % 36 == 0   # tip starts a 36-header repair batch
        run.probes['reopen'] += 1
        if L2 * HS > len(io) or L2 < 0:
            return self.viol('C07.reopen_not_prefix', f'len()={L2} but only {len(io)} bytes are loaded', fault=fault,
                             tip_edge=edge)
        loaded = io[:L2 * HS]
        self.midfile = False
        if self.cps and not Fp and L2 == self.top and loaded == bytes(self.top * HS):
            run.probes['zero_filled_open'] += 1       # empty file + checkpoint: placeholder for the chunk
            self.image, self.logical = io, self.fi(io)[0]
            run.ev('open', L2, 'zero-filled')
            return None
        aligned = len(Fp) % HS == 0
        if not aligned:
            run.probes['repair_from_zero'] += 1
        if edge:
            run.probes['tip_on_repair_batch_edge'] += 1
        fi_R = self.fi(R)[0]
        run.ev('open', L2, Rh, Wc, fi_R, _short(loaded))
        # which input class: a tail of an older, longer chain that close() left in the file behind the stored
        # chain / the first thing wrong with the file lies below height 999 of a store without checkpoints
        stale_tail = bool(ctx.get('stale_tail'))
        wrong = list(D) + ([Rh] if stale_tail else [])
        cls = {'stale_tail': stale_tail,
               'below_999_no_checkpoints': bool(not self.cps and wrong and min(wrong) <= 999),
               'first_above_checkpoint': bool(self.cps and D and min(D) == self.rs),
               'tip_partial_damage': bool(ctx.get('tip_partial'))}
        if cls['first_above_checkpoint']:
            run.probes['damage_first_above_checkpoint'] += 1
            if Rh - 1 == self.rs:
                run.probes['damaged_tip_is_first_above_checkpoint'] += 1
        if stale_tail:
            run.probes['stale_tail_in_file'] += 1
        if loaded != R[:L2 * HS] or L2 > Rh:
            d = lc.common_prefix_headers(loaded, R)
            return self.viol('C07.reopen_not_prefix', f'after {fault} the loaded chain ({L2} headers) is not a prefix '
                             f'of the {Rh} headers stored at close(): first difference at height {d} (the file had '
                             f'{Wc} whole headers' + (f', {Wc - Rh} of them the tail of an older chain that close() '
                                                      f'left behind the stored one' if stale_tail and Wc > Rh else '')
                             + f'; damaged {sorted(D)})', fault=fault, tip_edge=edge, **cls, **self._uop_site())
        cands = list(D) + ([fi_R] if fi_R < Rh else [])
        first_bad = min(cands) if cands else None
        need = min(Rh, Wc if first_bad is None or first_bad >= Wc else first_bad - 1)
        if L2 < need:
            return self.viol('C07.reopen_dropped_too_much', f'after {fault} {L2} headers were loaded; {Rh} headers '
                             f'were stored at close(), the file had {Wc} whole headers, first damaged height '
                             f'{first_bad}: at least {need} must survive', fault=fault, tip_edge=edge, **cls,
                             **self._uop_site())
        fi_L = min(fi_R, L2)
        rule = self.chain.first_invalid(R, fi_L, fi_L + 1)[1] if fi_L < L2 else None
        if fi_L < L2 and not (aligned and self.cps and fi_R <= self.rs):
            return self.viol('C07.reopen_invalid', f'after {fault} the loaded chain has {L2} headers but the one at '
                             f'height {fi_L} breaks rule {rule} (damaged {sorted(D)}, file had {Wc} whole headers)',
                             fault=fault, tip_edge=edge, **cls)
        if L2 == Rh and Fp == R:
            run.probes['reopen_clean_identical'] += 1
        if L2 < Wc:
            run.probes['reopen_truncated'] += 1
        if L2 < N1 and L2 == fi_L:
            run.probes['base_prefix_short'] += 1
        self.image, self.logical = io, fi_L
        return None

    # ---- incarnations -----------------------------------------------------------------------------------
    async def incarnation(self, ops, ctx):
        run = self.run
        h = self.h = self.H(self.path)
        if self.getter_on:
            h.chunk_getter = self.server.get
        try:
            await h.open()
        except Exception as e:  # noqa
            return self.viol('C07.exception', f'open() raised {type(e).__name__}: {e}', where='open',
                             exc=type(e).__name__, fault='+'.join(sorted(set(ctx['kinds']))))
        self.after_open(ctx)
        handlers = {'batch': self.op_batch, 'beyond': self.op_beyond, 'resend': self.op_resend,
                    'feed': self.op_feed, 'fetch': self.op_fetch, 'stale_attach': self.op_stale_attach,
                    'empty': self.op_empty, 'deep': self.op_deep, 'band': self.op_band}
        for op in ops:
            if self.stop:
                return
            fn = handlers.get(op.get('op'))
            if fn is not None:
                await fn(op)
        if self.stop:
            return
        try:
            await h.close()
        except Exception as e:  # noqa
            return self.viol('C07.exception', f'close() raised {type(e).__name__}: {e}', where='close',
                             exc=type(e).__name__)

    def go(self):
        run, sc = self.run, self.sc
        initial = b''
        if sc.get('init', 'file') in ('file', 'sparse'):
            n = max(0, min(int(sc.get('base_len', N1)), lc.BASE_LEN))
            initial = self.base[:n * HS]
            if sc.get('init') == 'sparse' and len(self.cps) == 1 and n >= 1000:
                initial = bytes(1000 * HS) + initial[1000 * HS:]      # the only check-pointed chunk is a placeholder
                self.run.probes['sparse_start'] += 1
            if sc.get('init') == 'sparse' and len(self.cps) == 2 and n >= 2000:
                initial = bytes(1000 * HS) + initial[1000 * HS:]      # chunk 0 not downloaded yet
                self.run.probes['sparse_start'] += 1
            with open(self.path, 'wb') as f:
                f.write(initial)
        segs, reopens = [[]], []
        for op in sc.get('ops') or []:
            if op.get('op') == 'reopen':
                reopens.append(op)
                segs.append([])
            else:
                segs[-1].append(op)
        ctx = {'R': initial, 'Fp': initial, 'D': [], 'kinds': ['initial'], 'stale_tail': False}
        for i, seg in enumerate(segs):
            if i:
                # clean close(): nothing is suspended on the old loop, so the (expensive) collection
                # that Run.kill_loop performs after a crash is not needed; new_loop() accounts it
                run.loop.abandon()
            run.new_loop(max_steps=300_000, max_vtime=100_000.0)
            try:
                run.drive(self.incarnation(seg, ctx))
            except (SimBudget, SimIdle):
                return
            if self.stop or run.violations:
                return
            if i < len(reopens):
                ctx = self.apply_faults(reopens[i], self.image, ctx['Fp'])
        if sc.get('full_walk') and not run.violations:
            run.probes['full_walk'] += 1
            bad_h, rule = self.chain.first_invalid(self.filled(self.image), 0, self.logical)
            if bad_h < self.logical:
                self.viol('C07.stored_invalid', f'final walk from genesis: header {bad_h} breaks rule {rule} '
                          f'(chain end {self.logical})', rule='full_walk', bad='none', stored_rule=rule)
