"""C18 — blob bookkeeping matches the disk after any restart (DESIGN.md §7 C18).

SUT: real BlobManager (`setup`, `blob_completed`, `delete_blob(s)`, `ensure_completed_blobs_status`),
SQLiteStorage over a sqlite *file* in a temp dir (`sync_missing_blobs`, `add_blobs`,
`delete_blobs_from_db`, `store_stream`, `delete_stream`), BlobFile / HashBlobWriter,
StreamDescriptor.create_stream.  Blobs "downloaded" arrive through real writers driven by the harness.

A process incarnation = one SimLoop + fresh SQLiteStorage/BlobManager over the same directory and
sqlite file.  A death is `loop.crash()` placed at an executor-job boundary (every file-system effect
and every sqlite transaction of the product is one executor job), optionally after tearing the file
that was just written.  After every completed `setup()` the harness compares what the manager reports
with its own listing of the directory and its own read of the `blob` table.
"""
import asyncio
import os

from simverif.core import env
from simverif.core import blobenv as be
from simverif.core.run import Run, SimBudget, SimIdle, SimCrash
from simverif.core.rng import stream

ID = 'C18'
LEVEL = 'exploration'
TIERS = {'quick': {'runs': 3000}, 'thorough': {'seconds': 600}}
DET_PAIRS_PER_SLOT = 3
RULE = ("one run = one seeded history over one blob directory + sqlite file: blob downloads through writers "
        "(awaited to the database row, to the file only, or not at all), small stream publishes "
        "(create_stream + store_stream + file row), deletions through the API (delete_blob, delete_blobs with and "
        "without delete_from_db, stream deletion), get_blob registrations, blob files removed behind the daemon's "
        "back, stray files dropped in (valid 96-hex names of known/unknown hashes, any size incl. 0 and >500 at "
        "once; invalid names), process deaths (right after the k-th file-write job = before its add_blobs job, "
        "optionally leaving the file torn; right before the row-deletion job = after the files were removed; "
        "after/before the k-th executor job of any operation incl. open()/setup()), clean or killed restarts, "
        "each optionally followed by an immediate second restart; a removed file may leave a dangling symlink or a "
        "directory under its name; in half of the runs clean restarts are in-process and share the DHT data store's "
        "completed set the way BlobComponent does. After every completed setup() R1-R3 are "
        "checked, R4 after an immediate second restart. Non-trivial = at least one death or behind-the-back "
        "change was followed by a checked restart; distinct = distinct event-trace digest.")
COMPONENTS = {
    'real': ['lbry.blob.blob_manager.BlobManager', 'lbry.extras.daemon.storage.SQLiteStorage',
             'lbry.wallet.database.AIOSQLite (sqlite3 file database, WAL)', 'lbry.blob.blob_file.BlobFile',
             'lbry.blob.writer.HashBlobWriter', 'lbry.stream.descriptor.StreamDescriptor.create_stream',
             'lbry.conf.Config', 'blob directory (real files on tmpfs, real os.scandir/open/remove)'],
    'stub': ['network (blob bytes are handed to the writers by the harness)',
             'thread/process pools (every executor job runs inline at a scheduler-drawn virtual instant)',
             'process death (loop.crash at an executor-job boundary; torn file = truncation of the file just written)'],
}
ASSUMPTIONS = [
    'committed sqlite transactions are durable and atomic; a death never lands inside a transaction (one executor job)',
    'a blob-file write is one executor job; a death inside it is modelled by truncating the file it wrote',
    'the dead incarnation\'s sqlite connection is closed without committing anything further',
    'file names generated behind the back are either 96 lowercase hex digits or clearly invalid (no comma / newline '
    'names, which the product\'s pattern ^[a-f,0-9]+$ would also accept); no directories with blob names',
    'nothing is asserted about the steady state between restarts (statement: "whenever the blob manager starts")',
]
EXPECTED_PROBES = ['setup_checked', 'r4_checked', 'completed_strict_subset', 'downgraded_to_pending', 'marked_finished',
                   'pending_row_with_file', 'finished_row_without_file', 'file_without_row', 'zero_length_file',
                   'torn_file_seen_at_start', 'delete_not_in_memory', 'delete_in_memory', 'delete_keep_row',
                   'delete_stream', 'download_written', 'publish_done', 'death_with_inflight_work', 'restart_clean',
                   'restart_kill', 'invalid_name_ignored', 'many_unrecorded_files', 'crash_then_second_restart',
                   'non_file_entry_left', 'unstatable_entry_left', 'data_store_survived_clean_restart']

MIB = be.MIB


# ---------------------------------------------------------------------------------------------------
# generation
# ---------------------------------------------------------------------------------------------------

def _crash_spec(r, op_kind):
    if op_kind in ('download', 'publish'):
        c = r.random()
        if c < 0.55:
            spec = {'at': 'after', 'type': 'file', 'k': 1 if op_kind == 'download' else r.choice([1, 1, 2, 3])}
            if r.random() < 0.4:
                spec['torn'] = round(r.choice([0.0, r.random(), r.random(), 0.999]), 4)
        elif c < 0.75:
            spec = {'at': 'before', 'type': 'db', 'k': r.choice([1, 1, 2, 3, 4])}
        else:
            spec = {'at': r.choice(['after', 'before']), 'type': 'any', 'k': r.randint(1, 8)}
    elif op_kind in ('delete', 'delete_stream'):
        c = r.random()
        if c < 0.6:
            spec = {'at': 'before', 'type': 'rowdel', 'k': 1}
        elif c < 0.8:
            spec = {'at': 'after', 'type': 'rowdel', 'k': 1}
        else:
            spec = {'at': r.choice(['after', 'before']), 'type': 'any', 'k': r.randint(1, 3)}
    else:   # restart: die inside open()/setup()
        spec = {'at': r.choice(['after', 'after', 'before']), 'type': 'any', 'k': r.choice([1, 2, 3, 3, 4, 4, 5, 6])}
    spec['double'] = r.random() < 0.6
    return spec


def gen(run_seed, tier):
    r = stream('C18.gen', run_seed)
    faultfree = r.random() < 0.15
    n_ops = r.choice([6, 10, 16, 24]) if tier == 'quick' else r.choice([10, 24, 40, 80])
    n_blobs = r.choice([3, 6, 10])
    sizes = [r.choice([1, 15, 16, 17, 100, 1000, 4096, 65536, 65537]) for _ in range(n_blobs)]
    if r.random() < 0.1:
        sizes[r.randrange(n_blobs)] = r.choice([2 * MIB, 2 * MIB - 1, MIB])
    p_crash = 0.0 if faultfree else r.choice([0.1, 0.25, 0.5])
    w = {'download': 8, 'publish': 3, 'delete': 5, 'delete_stream': 1, 'get': 2, 'restart': 5,
         'rm_file': 0 if faultfree else r.choice([1, 4]), 'stray': 0 if faultfree else r.choice([1, 4]),
         'stray_many': 0 if faultfree else 0.12}
    kinds, weights = zip(*[(k, v) for k, v in w.items() if v])
    ops = []
    n_streams = 0
    for _ in range(n_ops):
        kind = r.choices(kinds, weights)[0]
        op = {'op': kind}
        if kind == 'download':
            op.update(b=r.randrange(n_blobs), chunks=r.choice([1, 1, 2, 5]),
                      wait=r.choice(['settle', 'settle', 'verified', 'none']))
        elif kind == 'publish':
            op.update(s=n_streams, size=r.choice([1, 100, 5000, 5000, 70000, 2 * MIB - 1, 2 * MIB + 10, 4 * MIB + 5]
                                                 if r.random() < 0.25 else [1, 100, 5000, 70000]),
                      file=r.random() < 0.9, wait=r.choice(['settle', 'settle', 'none']))
            n_streams += 1
        elif kind == 'delete':
            op.update(picks=[round(r.random(), 4) for _ in range(r.choice([1, 1, 2, 3]))],
                      api=r.choice(['blobs', 'blobs', 'blobs', 'blob']), from_db=r.random() < 0.6,
                      among=r.choice(['files', 'files', 'rows', 'any']))
        elif kind == 'delete_stream':
            op.update(s=r.randrange(max(1, n_streams)))
        elif kind == 'get':
            op.update(pick=round(r.random(), 4), with_length=r.random() < 0.5, among=r.choice(['files', 'rows', 'any']))
        elif kind == 'rm_file':
            op.update(pick=round(r.random(), 4))
        elif kind == 'stray':
            name = r.choice(['valid_known', 'valid_known', 'valid_rand', 'valid_rand', 'short', 'long', 'upper',
                             'nonhex', 'tmp'])
            op.update(name=name, b=r.randrange(n_blobs), tag=r.getrandbits(32),
                      size=r.choice([0, 0, 1, 7, 100, 4096]), exact=r.random() < 0.3)
        elif kind == 'stray_many':
            op.update(n=r.choice([499, 500, 501, 502, 640]), tag=r.getrandbits(32), size=r.choice([0, 1]))
        elif kind == 'restart':
            op.update(mode='clean' if faultfree or r.random() < 0.4 else 'kill', double=r.random() < 0.6,
                      second_mode='clean' if faultfree else r.choice(['kill', 'clean']))
        if kind in ('download', 'publish', 'delete', 'delete_stream', 'restart') and r.random() < p_crash:
            op['crash'] = _crash_spec(r, kind)
        ops.append(op)
    ops.append({'op': 'restart', 'mode': 'clean' if faultfree else r.choice(['kill', 'clean']), 'double': True,
                'second_mode': 'clean' if faultfree else 'kill'})
    # the daemon's BlobComponent hands every BlobManager the DHT node's data store, whose `completed_blobs` set
    # outlives an in-process stop/start of the component (own stream: earlier histories are unchanged)
    shared = stream('C18.gen.shared_store', run_seed).random() < 0.5
    # a blob file that disappears can leave an entry of another type under its name (a symlink into a volume that is
    # gone, a directory): "its file" is not in the blob directory then (own stream)
    r5 = stream('C18.gen.nonfile', run_seed)
    for op in ops:
        if op['op'] == 'rm_file' and r5.random() < 0.3:
            op['leave'] = r5.choice(['dangling_symlink', 'dangling_symlink', 'directory', 'loop_symlink', 'notdir_symlink'])
    return {'family': 'faultfree' if faultfree else 'faults', 'sizes': sizes, 'ops': ops, 'shared_store': shared}


def shrink(sc):
    for i, op in enumerate(sc['ops']):
        def repl(**kw):
            ops = list(sc['ops'])
            new = dict(op, **kw)
            for k, v in kw.items():
                if v is None:
                    new.pop(k, None)
            ops[i] = new
            return dict(sc, ops=ops)
        if 'crash' in op:
            yield repl(crash=None)
            c = op['crash']
            if 'torn' in c:
                yield repl(crash={k: v for k, v in c.items() if k != 'torn'})
            if c.get('double'):
                yield repl(crash=dict(c, double=False))
            if c.get('k', 1) > 1:
                yield repl(crash=dict(c, k=c['k'] - 1))
        if op['op'] == 'restart':
            if op.get('double'):
                yield repl(double=False)
            if op.get('mode') == 'kill':
                yield repl(mode='clean')
        if op['op'] in ('download', 'publish') and op.get('wait') != 'settle':
            yield repl(wait='settle')
        if op['op'] == 'download' and op.get('chunks', 1) != 1:
            yield repl(chunks=1)
        if op['op'] == 'publish' and op.get('size', 1) > 100:
            yield repl(size=100)
        if op['op'] == 'delete' and len(op.get('picks', [])) > 1:
            yield repl(picks=op['picks'][:1])
        if op['op'] == 'stray_many' and op.get('n', 0) > 501:
            yield repl(n=501)
        if op['op'] == 'stray' and op.get('size'):
            yield repl(size=0)
    sizes = sc.get('sizes', [])
    for j, s in enumerate(sizes):
        if s > 16:
            yield dict(sc, sizes=sizes[:j] + [16] + sizes[j + 1:])


# ---------------------------------------------------------------------------------------------------
# execution
# ---------------------------------------------------------------------------------------------------

def _job_type(func):
    name = getattr(func, '__qualname__', '') or ''
    if name.endswith('_write_blob'):
        return 'file'
    if 'run_transaction_with_foreign_keys_disabled' in name:
        return 'rowdel'
    if 'AIOSQLite.run.' in name:
        return 'db'
    if name.endswith('get_files_in_blob_dir'):
        return 'scan'
    return 'other'


def _written_path(func):
    """Path of the blob file a `_write_blob` job wrote (closure of BlobFile._write_blob)."""
    code = getattr(func, '__code__', None)
    if code is None or not func.__closure__:
        return None
    for name, cell in zip(code.co_freevars, func.__closure__):
        if name == 'self':
            try:
                return cell.cell_contents.file_path
            except (ValueError, AttributeError):
                return None
    return None


def _fingerprint(path):
    out = []
    with os.scandir(path) as it:
        for e in it:
            out.append((e.name, e.stat(follow_symlinks=False).st_size))
    return sorted(out)


class _StreamRef:
    """What the user remembers of a published stream (enough for storage.delete_stream)."""

    def __init__(self, descriptor):
        self.stream_hash = descriptor.stream_hash
        self.sd_hash = descriptor.sd_hash
        self.blobs = list(descriptor.blobs)


def execute(scenario, keep_trace=False):
    env.import_lbry()
    from lbry.blob.blob_manager import BlobManager
    be.freeze_heap_once()

    run = Run(scenario, keep_trace)
    dirs = be.Dirs('sv-c18-')
    sizes = scenario.get('sizes') or [16]
    ops = scenario['ops']
    streams = {}                 # s -> _StreamRef (harness memory, survives restarts)
    st = {
        'next': 0,               # index of the next op
        'pending_fault': False,  # a death / behind-the-back change not yet followed by a checked restart
        'clean_slate': False,    # previous incarnation completed setup() and nothing happened since
        'second': None,          # mode of an immediate second restart still to do
        'boot_crash': None,      # crash spec for the next boot
        'checked_after_fault': 0,
        'crashes': 0,
        'stop': False,
    }

    def short(h):
        return h[:10]

    def blob_data(b):
        b = b % len(sizes)
        return be.det_bytes(('c18', b), max(1, sizes[b]))

    try:
        conf = be.make_config(dirs)

        while not st['stop'] and not run.violations:
            loop = run.new_loop(max_steps=400_000, max_vtime=100_000.0)
            inc = {'storage': None, 'bm': None, 'phase': 'boot'}
            armed = {'spec': None, 'count': 0, 'where': None, 'fired': False}

            # ---- death placement --------------------------------------------------------------------
            def arm(spec, where):
                armed.update(spec=spec, count=0, where=where, fired=False)

            def disarm():
                armed.update(spec=None, where=None)

            def matches(spec, jt):
                return spec['type'] == 'any' or spec['type'] == jt or (spec['type'] == 'db' and jt == 'rowdel')

            def fire(jt, func, when):
                spec, where = armed['spec'], armed['where']
                armed['fired'] = True
                armed['spec'] = None
                if when == 'after' and jt == 'file' and 'torn' in spec:
                    path = _written_path(func)
                    if path and os.path.isfile(path):
                        size = os.path.getsize(path)
                        keep = min(size - 1, int(spec['torn'] * size)) if size else 0
                        if 0 <= keep < size:
                            os.truncate(path, keep)
                            run.faults['torn_file'] += 1
                            st.setdefault('torn_names', set()).add(os.path.basename(path))
                            run.ev('torn', short(os.path.basename(path)), keep, size)
                if where == 'boot':
                    run.faults['crash_in_setup'] += 1
                elif when == 'after' and jt == 'file':
                    run.faults['crash_after_file_write'] += 1
                elif when == 'before' and jt == 'rowdel':
                    run.faults['crash_before_row_delete'] += 1
                elif when == 'before' and jt == 'db':
                    run.faults['crash_before_db_write'] += 1
                else:
                    run.faults['crash_other'] += 1
                run.ev('death', where, when, jt, spec.get('k'))
                st['second'] = 'kill' if spec.get('double') else None
                loop.crash(f'{where}:{when}:{jt}')

            def exec_hook(executor, func, args):
                spec = armed['spec']
                if spec is not None and spec['at'] == 'before' and not loop.crash_requested:
                    jt = _job_type(func)
                    if matches(spec, jt):
                        armed['count'] += 1
                        if armed['count'] >= spec.get('k', 1):
                            fire(jt, func, 'before')
                return None

            def after_job(_loop, func, args):
                spec = armed['spec']
                if spec is not None and spec['at'] == 'after' and not loop.crash_requested:
                    jt = _job_type(func)
                    if matches(spec, jt):
                        armed['count'] += 1
                        if armed['count'] >= spec.get('k', 1):
                            fire(jt, func, 'after')
            loop.exec_hook = exec_hook
            loop.after_exec_job = after_job

            # ---- the oracle, right after setup() returned --------------------------------------------
            def check_start(bm, before_status, second_restart):
                files = be.valid_blob_files(dirs.blobs)
                all_names = set(be.list_dir(dirs.blobs))
                fileset = set(files)
                status = be.blob_status_map(dirs.db_path)
                completed = set(bm.completed_blob_hashes)
                run.probes['setup_checked'] += 1
                run.ev('start', 'files', [short(h) for h in files], 'completed', sorted(short(h) for h in completed),
                       'finished', sorted(short(h) for h, s in status.items() if s == 'finished'),
                       'pending', sorted(short(h) for h, s in status.items() if s != 'finished'))
                downgraded = [h for h, s in before_status.items() if s == 'finished' and status.get(h) == 'pending']
                marked = [h for h, s in status.items() if s == 'finished' and before_status.get(h) != 'finished']
                if downgraded:
                    run.probes['downgraded_to_pending'] += 1
                if marked:
                    run.probes['marked_finished'] += 1
                if any(s == 'pending' and h in fileset for h, s in before_status.items()):
                    run.probes['pending_row_with_file'] += 1
                if any(s == 'finished' and h not in fileset for h, s in before_status.items()):
                    run.probes['finished_row_without_file'] += 1
                if any(h not in before_status for h in files):
                    run.probes['file_without_row'] += 1
                if len([h for h in files if h not in before_status]) > 500:
                    run.probes['many_unrecorded_files'] += 1
                if any(os.path.getsize(os.path.join(dirs.blobs, h)) == 0 for h in files):
                    run.probes['zero_length_file'] += 1
                if st.get('torn_names') and st['torn_names'] & fileset:
                    run.probes['torn_file_seen_at_start'] += 1
                    st['torn_names'] = set()
                if any(not be.VALID_NAME.match(n) for n in all_names):
                    run.probes['invalid_name_ignored'] += 1
                if completed < fileset:
                    run.probes['completed_strict_subset'] += 1
                # R1
                bad = sorted(completed - fileset)
                if bad:
                    return run.violation('C18.completed_without_file',
                                         f'after setup() completed_blob_hashes holds {len(bad)} hash(es) without a blob file: '
                                         f'{[short(h) for h in bad[:5]]} (name present in dir: '
                                         f'{[h in all_names for h in bad[:5]]})')
                # R2
                bad = [h for h in files if status.get(h) != 'finished']
                if bad:
                    return run.violation('C18.file_not_finished',
                                         f'after setup() {len(bad)} blob file(s) present are not recorded as finished: '
                                         f'{[(short(h), status.get(h)) for h in bad[:5]]}')
                # R3
                bad = sorted(h for h, s in status.items() if s == 'finished' and h not in all_names)
                if bad:
                    return run.violation('C18.finished_without_file',
                                         f'after setup() {len(bad)} row(s) are finished although the file is gone: '
                                         f'{[short(h) for h in bad[:5]]}')
                # R4
                if second_restart:
                    run.probes['r4_checked'] += 1
                    if completed != fileset:
                        return run.violation(
                            'C18.second_restart_differs',
                            f'second restart with nothing changed: completed_blob_hashes has {len(completed)} entries, '
                            f'{len(fileset)} blob files present; missing {[short(h) for h in sorted(fileset - completed)[:5]]} '
                            f'extra {[short(h) for h in sorted(completed - fileset)[:5]]}')
                return None

            # ---- candidates for picks -----------------------------------------------------------------
            def candidates(bm, among):
                files = set(be.valid_blob_files(dirs.blobs))
                if among == 'files':
                    c = files
                elif among == 'rows':
                    c = set(be.blob_status_map(dirs.db_path))
                else:
                    c = files | set(be.blob_status_map(dirs.db_path)) | set(bm.completed_blob_hashes)
                return sorted(c)

            def pick(cands, frac):
                return cands[min(len(cands) - 1, int(frac * len(cands)))] if cands else None

            async def quiesce():
                cur = asyncio.current_task()
                while True:
                    others = [t for t in asyncio.all_tasks() if t is not cur and not t.done()]
                    if others:
                        await asyncio.gather(*others, return_exceptions=True)
                    elif loop._ready:
                        # callbacks not yet run (a writer's finished-callback creates the write task): a graceful
                        # stop lets them run, only a kill cuts them off
                        await asyncio.sleep(0)
                    else:
                        return

            def inflight():
                cur = asyncio.current_task()
                return any(t is not cur and not t.done() for t in asyncio.all_tasks())

            # ---- one incarnation ------------------------------------------------------------------------
            async def incarnation():
                second_restart = st['clean_slate']     # previous incarnation: setup() completed, then nothing
                st['clean_slate'] = False
                before_status = be.blob_status_map(dirs.db_path)
                if st['boot_crash'] is not None:
                    arm(st['boot_crash'], 'boot')
                    st['boot_crash'] = None
                try:
                    storage = inc['storage'] = await be.open_storage(loop, conf, dirs)
                    if scenario.get('shared_store'):
                        if st.get('data_store') is None:
                            from lbry.dht.protocol.data_store import DictDataStore
                            from lbry.dht.peer import PeerManager
                            from lbry.dht.peer import make_kademlia_peer
                            st['data_store'] = DictDataStore(loop, PeerManager(loop))
                            # a DHT node that has been up for a while holds announcements of other peers; an EMPTY
                            # store is falsy and BlobManager then keeps a private set
                            st['data_store'].add_peer_to_blob(
                                make_kademlia_peer(b'\x11' * 48, '44.3.2.1', udp_port=4444, tcp_port=3333), b'\x22' * 48)
                            run.probes['data_store_new_process'] += 1
                        else:
                            run.probes['data_store_survived_clean_restart'] += 1
                        bm = inc['bm'] = BlobManager(loop, dirs.blobs, storage, conf, st['data_store'])
                    else:
                        bm = inc['bm'] = BlobManager(loop, dirs.blobs, storage, conf)
                    await bm.setup()
                except (asyncio.CancelledError, SimBudget, SimIdle, SimCrash):
                    raise
                except Exception as e:  # noqa
                    if loop.dead:
                        raise
                    run.ev('setup-exception', type(e).__name__)
                    run.violation('C18.exception', f'open()/setup() raised {type(e).__name__}: {e}',
                                  where='setup', exc=type(e).__name__)
                    return 'stop'
                disarm()
                inc['phase'] = 'run'
                if check_start(bm, before_status, second_restart):
                    return 'stop'
                if st['pending_fault']:
                    st['pending_fault'] = False
                    st['checked_after_fault'] += 1
                st['clean_slate'] = True
                tracker = be.CompletionTracker(bm)
                if st['second'] is not None:
                    mode, st['second'] = st['second'], None
                    if st.get('after_crash'):
                        run.probes['crash_then_second_restart'] += 1
                    st['after_crash'] = False
                    return await end(bm, storage, mode, 'second')
                st['after_crash'] = False

                while st['next'] < len(ops):
                    if loop.dead:
                        raise SimCrash('post-mortem')
                    n = st['next']
                    op = ops[n]
                    st['next'] += 1
                    kind = op.get('op')
                    crash = op.get('crash')
                    if kind == 'restart':
                        if crash is not None:
                            st['boot_crash'] = crash
                        st['second'] = op.get('second_mode', 'kill') if op.get('double') else None
                        return await end(bm, storage, op.get('mode', 'kill'), 'restart')
                    st['clean_slate'] = False
                    if crash is not None and kind in ('download', 'publish', 'delete', 'delete_stream'):
                        arm(crash, kind)
                    try:
                        await do_op(n, op, kind, bm, storage, tracker)
                    except (asyncio.CancelledError, SimBudget, SimIdle, SimCrash):
                        raise
                    except Exception as e:  # noqa
                        if loop.dead:
                            # the process is gone: this is the unwinding of the dead incarnation (a product
                            # `finally` touching the closed loop turns GeneratorExit into RuntimeError);
                            # nothing may execute post mortem
                            raise
                        run.ev('op-exception', n, kind, type(e).__name__)
                        run.probes['op_exception_' + type(e).__name__] += 1
                        run.notes.append(f'op {n} {kind}: {type(e).__name__}: {e}'[:200])
                    disarm()
                st['stop'] = True
                return await end(bm, storage, 'clean', 'end')

            async def end(bm, storage, mode, why):
                run.ev('end', why, mode)
                if mode == 'clean':
                    run.probes['restart_clean'] += 1
                    await quiesce()
                    bm.stop()
                    await storage.close()
                    inc['storage'] = None
                else:
                    st['data_store'] = None        # a new process has a new DHT node
                    run.probes['restart_kill'] += 1
                    if inflight():
                        run.probes['death_with_inflight_work'] += 1
                        run.faults['kill_with_inflight_work'] += 1
                        st['pending_fault'] = True
                        st['clean_slate'] = False
                    else:
                        run.faults['kill_idle'] += 1
                return 'next'

            async def do_op(n, op, kind, bm, storage, tracker):
                if kind == 'download':
                    data = blob_data(op.get('b', 0))
                    blob, outcome = await be.download_blob(bm, data, chunks=op.get('chunks', 1), wait=False)
                    if outcome == 'written':
                        run.probes['download_written'] += 1
                        wait = 'settle' if armed['spec'] is not None else op.get('wait')
                        if wait in ('settle', 'verified'):
                            try:
                                await asyncio.wait_for(blob.verified.wait(), 60)
                            except asyncio.TimeoutError:
                                outcome = 'unverified'
                        if wait == 'settle':
                            await asyncio.sleep(0)
                            await tracker.settle()
                    run.ev('download', n, short(blob.blob_hash), outcome, op.get('wait'))
                elif kind == 'publish':
                    path = os.path.join(dirs.downloads, f'pub{op.get("s", 0)}.bin')
                    with open(path, 'wb') as f:
                        f.write(be.det_bytes(('c18pub', op.get('s', 0)), max(1, op.get('size', 1))))
                    desc = await be.publish_stream(loop, bm, storage, path, with_file=op.get('file', True))
                    streams[op.get('s', 0)] = _StreamRef(desc)
                    if op.get('wait') == 'settle' or armed['spec'] is not None:
                        await tracker.settle()
                    run.probes['publish_done'] += 1
                    run.ev('publish', n, short(desc.sd_hash), len(desc.blobs) - 1)
                elif kind == 'delete':
                    cands = candidates(bm, op.get('among', 'any'))
                    targets = []
                    for frac in op.get('picks', [0.0]):
                        h = pick(cands, frac)
                        if h is not None and h not in targets:
                            targets.append(h)
                    if not targets:
                        return
                    for h in targets:
                        run.probes['delete_in_memory' if h in bm.blobs else 'delete_not_in_memory'] += 1
                    if op.get('api') == 'blob':
                        for h in targets:
                            bm.delete_blob(h)
                        run.probes['delete_keep_row'] += 1
                    else:
                        if not op.get('from_db', True):
                            run.probes['delete_keep_row'] += 1
                        await bm.delete_blobs(targets, delete_from_db=op.get('from_db', True))
                    run.ev('delete', n, op.get('api'), op.get('from_db', True), [short(h) for h in targets])
                elif kind == 'delete_stream':
                    ref = streams.get(op.get('s', 0))
                    if ref is None:
                        return
                    hashes = [b.blob_hash for b in ref.blobs[:-1]] + [ref.sd_hash]
                    run.probes['delete_stream'] += 1
                    await bm.delete_blobs(hashes, delete_from_db=False)
                    await storage.delete_stream(ref)
                    streams.pop(op.get('s', 0), None)
                    run.ev('delete_stream', n, short(ref.sd_hash), len(hashes))
                elif kind == 'get':
                    h = pick(candidates(bm, op.get('among', 'any')), op.get('pick', 0.0))
                    if h is None:
                        return
                    length = None
                    if op.get('with_length'):
                        for b in range(len(sizes)):
                            if be.blob_hash_of(blob_data(b)) == h:
                                length = len(blob_data(b))
                    blob = bm.get_blob(h, length)
                    run.ev('get', n, short(h), length, blob.get_is_verified())
                elif kind == 'rm_file':
                    h = pick(be.valid_blob_files(dirs.blobs), op.get('pick', 0.0))
                    if h is None:
                        return
                    os.remove(os.path.join(dirs.blobs, h))
                    run.faults['file_removed_behind_back'] += 1
                    if op.get('leave') == 'dangling_symlink':
                        os.symlink(os.path.join(dirs.blobs, '..', 'unmounted-volume', h), os.path.join(dirs.blobs, h))
                        run.faults['file_replaced_by_dangling_symlink'] += 1
                        run.probes['non_file_entry_left'] += 1
                    elif op.get('leave') == 'directory':
                        os.mkdir(os.path.join(dirs.blobs, h))
                        run.faults['file_replaced_by_directory'] += 1
                        run.probes['non_file_entry_left'] += 1
                    elif op.get('leave') == 'loop_symlink':
                        # an entry whose stat() fails with something other than ENOENT: a symlink to itself (ELOOP)
                        os.symlink(h, os.path.join(dirs.blobs, h))
                        run.faults['file_replaced_by_unstatable_entry'] += 1
                        run.probes['non_file_entry_left'] += 1
                        run.probes['unstatable_entry_left'] += 1
                    elif op.get('leave') == 'notdir_symlink':
                        # ... or a symlink THROUGH a regular file (ENOTDIR)
                        anchor = os.path.join(dirs.blobs, 'download.tmp')
                        if not os.path.exists(anchor):
                            with open(anchor, 'wb') as f:
                                f.write(b'x')
                        os.symlink(os.path.join('download.tmp', 'x'), os.path.join(dirs.blobs, h))
                        run.faults['file_replaced_by_unstatable_entry'] += 1
                        run.probes['non_file_entry_left'] += 1
                        run.probes['unstatable_entry_left'] += 1
                    st['pending_fault'] = True
                    run.ev('rm_file', n, short(h))
                elif kind == 'stray':
                    name = stray_name(op)
                    path = os.path.join(dirs.blobs, name)
                    if os.path.exists(path):
                        return
                    if op.get('exact') and op.get('name') == 'valid_known':
                        content = blob_data(op.get('b', 0))
                    else:
                        content = be.det_bytes(('stray', op.get('tag', 0)), op.get('size', 0))
                    with open(path, 'wb') as f:
                        f.write(content)
                    valid = bool(be.VALID_NAME.match(name))
                    run.faults['stray_file_added' if valid else 'stray_invalid_name_added'] += 1
                    st['pending_fault'] = True
                    run.ev('stray', n, op.get('name'), name[:10], len(name), len(content))
                elif kind == 'stray_many':
                    content = b'x' * op.get('size', 0)
                    count = min(int(op.get('n', 0)), 2000)
                    for i in range(count):
                        with open(os.path.join(dirs.blobs, be.label_hash('many', op.get('tag', 0), i)), 'wb') as f:
                            f.write(content)
                    run.faults['stray_file_added'] += count
                    st['pending_fault'] = True
                    run.ev('stray_many', n, count)

            def stray_name(op):
                kind = op.get('name')
                rnd = be.label_hash('stray', op.get('tag', 0))
                if kind == 'valid_known':
                    return be.blob_hash_of(blob_data(op.get('b', 0)))
                if kind == 'valid_rand':
                    return rnd
                if kind == 'short':
                    return rnd[:95]
                if kind == 'long':
                    return rnd + '0'
                if kind == 'upper':
                    return rnd.upper() if rnd.upper() != rnd else 'A' + rnd[1:]
                if kind == 'nonhex':
                    return 'g' + rnd[1:]
                return 'download.tmp'

            # ---- drive this incarnation -------------------------------------------------------------------
            outcome = None
            try:
                outcome = run.drive(incarnation())
            except SimCrash:
                st['data_store'] = None
                st['crashes'] += 1
                st['pending_fault'] = True
                st['clean_slate'] = False
                st['after_crash'] = True
                outcome = 'next'
            except (SimBudget, SimIdle):
                outcome = 'stop'
            finally:
                if inc['storage'] is not None:
                    be.hard_close(inc['storage'])
                inc['storage'] = inc['bm'] = None
                loop.exec_hook = loop.after_exec_job = None
                # fidelity guard: the unwinding of the dead incarnation (gc of suspended coroutines) must
                # not touch the disk; the sqlite connection is already closed
                fp = _fingerprint(dirs.blobs)
                run.kill_loop()
                if _fingerprint(dirs.blobs) != fp:
                    raise AssertionError('harness fidelity: blob directory changed while a dead incarnation was unwound')
            if outcome != 'next':
                st['stop'] = True

        run.nontrivial = st['checked_after_fault'] > 0
        run.finish()
        return run.result()
    finally:
        dirs.remove()
