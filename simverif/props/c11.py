"""C11 — routing table well-formedness and exact closest-K (DESIGN.md §7 C11).

SUT: real TreeRoutingTable / KBucket / PeerManager / Distance / make_kademlia_peer.
Stub: the liveness probe (a harness coroutine answering after a scheduler-drawn virtual delay
according to a per-address liveness model), exactly the seam `add_peer(peer, probe)` offers.
"""
import asyncio

from simverif.core import env
from simverif.core.run import Run, SimBudget, SimIdle
from simverif.core.rng import stream

ID = 'C11'
LEVEL = 'exploration'
TIERS = {'quick': {'runs': 6000}, 'thorough': {'seconds': 600}}
DET_PAIRS_PER_SLOT = 3
RULE = ("one run = one seeded history of 20..120 routing-table operations (add / re-add with new "
        "address / same address new id / remove / report replied / report failure / kill / revive / "
        "clock advance / closest-K query) on a real TreeRoutingTable, ids drawn to share 0..383 prefix "
        "bits with the own id or to sit on/next to the boundaries of the *current* buckets, probes "
        "answered after seeded virtual delays; family `seq` awaits each operation, family `conc` lets "
        "add_peer calls park on probes while other operations proceed. Non-trivial = at least one "
        "bucket split and one probe or join happened; distinct = distinct event-trace digest.")
COMPONENTS = {
    'real': ['lbry.dht.protocol.routing_table.TreeRoutingTable', 'lbry.dht.protocol.routing_table.KBucket',
             'lbry.dht.peer.PeerManager', 'lbry.dht.peer.KademliaPeer/make_kademlia_peer',
             'lbry.dht.protocol.distance.Distance'],
    'stub': ['liveness probe callable (harness coroutine, per-address liveness model, virtual delay)',
             'event loop (SimLoop, virtual time)'],
}
ASSUMPTIONS = [
    'asyncio ready-queue order is FIFO (never permuted); schedule diversity comes from probe completion times',
    'probe outcomes follow a per-address liveness model: alive -> pong, dead -> TimeoutError or RemoteException',
    'displacement/admission clauses are asserted in sequential histories only; concurrent histories check structure',
    'a known node id claimed from another HOST (every harness address is its own host) is a newcomer at a different address like any other: the known '
    'contact may be replaced only after failing a probe (until cf87ca4 the product replaced it unprobed and the '
    'harness had excused that as an address update)',
]
EXPECTED_PROBES = ['split', 'join_middle', 'join_edge', 'probe_ok', 'probe_fail', 'replaced', 'same_addr_purge',
                   'readd_same_id', 'boundary_id', 'query', 'conc_probe_resumed_after_change', 'admit_checked',
                   'displace_checked', 'bootstrap_run', 'same_id_other_addr_checked', 'moved_after_failed_probe',
                   'same_id_claim_refused_known_alive']

SPACE = 1 << 384
K = 8


# ---------------------------------------------------------------------------------------------------
# generation (pure function of the run seed)
# ---------------------------------------------------------------------------------------------------

def gen(run_seed, tier):
    r = stream('C11.gen', run_seed)
    family = 'conc' if r.random() < 0.35 else 'seq'
    n_ops = r.choice([20, 40, 60, 80, 120]) if tier == 'quick' else r.choice([30, 60, 120, 200, 400])
    n_addr = r.choice([6, 24, 48, 96, 200, 400])
    bootstrap = r.random() < 0.1
    split_under = r.choice([1, 1, 1, 0, 2, 3])
    own = r.getrandbits(384)
    # swarm: workload mix
    w = {
        'add': 10, 'add_bnd': r.choice([0, 4, 10]), 'readd': r.choice([0, 1, 3]),
        'same_addr_new_id': r.choice([0, 1, 2]), 'remove': r.choice([0, 2, 6]),
        'replied': r.choice([0, 1, 3]), 'failed': r.choice([0, 1, 3]), 'kill': r.choice([0, 1, 3]),
        'revive': r.choice([0, 1]), 'advance': r.choice([0, 1, 2]), 'query': r.choice([1, 3]),
    }
    # prefix-bit distribution: deep (close ids, many splits) vs shallow
    shape = r.choices(['deep', 'far', 'uniform'], [4, 4, 2])[0]
    ops = []
    kinds, weights = zip(*[(k, v) for k, v in w.items() if v])
    for _ in range(n_ops):
        kind = r.choices(kinds, weights)[0]
        if kind == 'add':
            if shape == 'deep':
                bits = min(383, int(r.expovariate(1 / 6.0)))
            elif shape == 'far':
                bits = r.choice([0, 0, 0, 0, 1, 1, 1, 2, 2, 3, 4, 6])
            else:
                bits = r.randrange(0, 384)
            if r.random() < 0.1:
                bits = r.choice([0, 1, 2, 382, 383, 191, 192])
            dist = (1 << (383 - bits)) | r.getrandbits(383 - bits) if bits < 383 else 1
            ops.append({'op': 'add', 'id': ['dist', dist], 'addr': r.randrange(n_addr),
                        'delay': round(r.choice([0.0, 0.01, 0.5, 2.0, 4.9]), 3)})
        elif kind == 'add_bnd':
            ops.append({'op': 'add', 'id': ['bnd', r.random(), r.choice(['min', 'max', 'mid']),
                                            r.choice([-2, -1, -1, 0, 0, 1])],
                        'addr': r.randrange(n_addr), 'delay': round(r.choice([0.0, 0.01, 0.5, 2.0]), 3)})
        elif kind == 'readd':
            ops.append({'op': 'readd', 'pick': r.random(), 'addr': r.randrange(n_addr),
                        'delay': round(r.choice([0.0, 0.5]), 3)})
        elif kind == 'same_addr_new_id':
            ops.append({'op': 'same_addr_new_id', 'pick': r.random(), 'dist': r.getrandbits(384) or 1,
                        'near': r.random() < 0.5, 'delay': 0.0})
        elif kind == 'remove':
            ops.append({'op': 'remove', 'pick': r.random(), 'ghost': r.random() < 0.1})
        elif kind in ('replied', 'failed', 'kill', 'revive'):
            ops.append({'op': kind, 'pick': r.random()})
        elif kind == 'advance':
            ops.append({'op': 'advance', 'dt': r.choice([1, 30, 61, 300, 721, 3600])})
        elif kind == 'query':
            ops.append({'op': 'query', 'key': ['dist', r.getrandbits(384)] if r.random() < 0.7 else
                        ['bnd', r.random(), r.choice(['min', 'max', 'mid']), r.choice([-1, 0, 1])],
                        'count': r.choice([None, None, 0, 1, 3, 8, 9, 20]),
                        'sender': r.choice([None, 'pick', 'pick', 'unknown']), 'pick': r.random()})
    return {'family': family, 'own': own, 'bootstrap': bootstrap, 'split_under': split_under,
            'n_addr': n_addr, 'fail_mode': r.choice(['timeout', 'remote', 'mixed']),
            'dead_frac': r.choice([0.0, 0.2, 0.5, 0.9]), 'ops': ops}


def shrink(sc):
    if sc.get('bootstrap'):
        yield dict(sc, bootstrap=False)
    if sc.get('family') == 'conc':
        yield dict(sc, family='seq')
    if sc.get('split_under') != 1:
        yield dict(sc, split_under=1)
    if sc.get('dead_frac'):
        yield dict(sc, dead_frac=0.0)
    for i, op in enumerate(sc['ops']):
        if op.get('delay'):
            ops = list(sc['ops'])
            ops[i] = dict(op, delay=0.0)
            yield dict(sc, ops=ops)


# ---------------------------------------------------------------------------------------------------
# execution
# ---------------------------------------------------------------------------------------------------

def _addr(i):
    return f"1.2.{3 + i // 200}.{1 + i % 200}", 4000 + (i % 7)


def execute(scenario, keep_trace=False):
    env.import_lbry()
    from lbry.dht.protocol.routing_table import TreeRoutingTable
    from lbry.dht.peer import PeerManager, make_kademlia_peer
    from lbry.dht.error import RemoteException

    run = Run(scenario, keep_trace)
    loop = run.new_loop(max_steps=400_000)
    own_int = scenario['own'] % SPACE
    own = own_int.to_bytes(48, 'big')
    pm = PeerManager(loop)
    table = TreeRoutingTable(loop, pm, own, split_buckets_under_index=scenario.get('split_under', 1),
                             is_bootstrap_node=bool(scenario.get('bootstrap')))
    bootstrap = bool(scenario.get('bootstrap'))
    if bootstrap:
        run.probes['bootstrap_run'] += 1
    seq = scenario.get('family', 'seq') == 'seq'
    n_addr = scenario.get('n_addr', 12)
    lr = run.rng('liveness')
    alive = {i: lr.random() >= scenario.get('dead_frac', 0.0) for i in range(n_addr)}
    fail_mode = scenario.get('fail_mode', 'timeout')
    probe_log = []       # (address tuple, node_id, ok) of probes finished during the current op

    def dist_of(node_id):
        return int.from_bytes(node_id, 'big') ^ own_int

    def id_from(spec):
        if spec[0] == 'dist':
            d = spec[1] % SPACE
        else:
            _, frac, which, delta = spec
            b = table.buckets[min(len(table.buckets) - 1, int(frac * len(table.buckets)))]
            base = {'min': b.range_min, 'max': b.range_max, 'mid': (b.range_min + b.range_max) // 2}[which]
            d = base + delta
            run.probes['boundary_id'] += 1
        d = min(max(d, 1), SPACE - 1)
        return (d ^ own_int).to_bytes(48, 'big')

    def contacts():
        out = []
        for b in table.buckets:
            out.extend(b.peers)
        return out

    def pick(frac):
        cs = sorted(contacts(), key=lambda p: p.node_id)
        return cs[min(len(cs) - 1, int(frac * len(cs)))] if cs else None

    addr_index = {_addr(i): i for i in range(n_addr)}

    async def probe(peer):
        key = (peer.address, peer.udp_port)
        i = addr_index.get(key)
        table_sig = _signature(table)
        delay = probe.delay
        pm.report_last_sent(*key)
        if i is not None and alive.get(i, False):
            await asyncio.sleep(delay)
            if alive.get(i, False):
                pm.report_last_replied(*key)
                probe_log.append((key, peer.node_id, True))
                run.probes['probe_ok'] += 1
                if _signature(table) != table_sig:
                    run.probes['conc_probe_resumed_after_change'] += 1
                run.ev('probe', key, 'ok')
                return b'pong'
        mode = fail_mode if fail_mode != 'mixed' else run.rng('probe.mode').choice(['timeout', 'remote'])
        await asyncio.sleep(5.0 if mode == 'timeout' else delay)
        pm.report_failure(*key)
        probe_log.append((key, peer.node_id, False))
        run.probes['probe_fail'] += 1
        run.faults['probe_' + mode] += 1
        if _signature(table) != table_sig:
            run.probes['conc_probe_resumed_after_change'] += 1
        run.ev('probe', key, mode)
        if mode == 'timeout':
            raise asyncio.TimeoutError()
        raise RemoteException('probe failed')
    probe.delay = 0.0

    # -------- invariants ---------------------------------------------------------------------
    def check_structure(where):
        bs = table.buckets
        if not bs or bs[0].range_min != 0:
            return run.violation('C11.partition', f'{where}: first bucket starts at {bs[0].range_min if bs else None}',
                                 defect='start')
        if bs[-1].range_max != SPACE:
            return run.violation('C11.partition', f'{where}: last bucket ends at 2^384-{SPACE - bs[-1].range_max}',
                                 defect='end')
        for i in range(len(bs) - 1):
            if bs[i].range_max != bs[i + 1].range_min:
                gap = bs[i + 1].range_min - bs[i].range_max
                return run.violation(
                    'C11.partition', f'{where}: bucket {i} ends at {hex(bs[i].range_max)}, bucket {i + 1} starts at '
                    f'{hex(bs[i + 1].range_min)} (gap {gap})', defect='gap' if gap > 0 else 'overlap')
            if bs[i].range_min >= bs[i].range_max:
                return run.violation('C11.partition', f'{where}: empty/inverted range in bucket {i}', defect='inverted')
        ids, addrs = set(), set()
        for i, b in enumerate(bs):
            if not bootstrap and len(b.peers) > K:
                return run.violation('C11.capacity', f'{where}: bucket {i} holds {len(b.peers)} contacts')
            for p in b.peers:
                d = dist_of(p.node_id)
                if not (b.range_min <= d < b.range_max):
                    return run.violation('C11.misplaced', f'{where}: contact at distance {hex(d)} sits in bucket {i} '
                                         f'[{hex(b.range_min)},{hex(b.range_max)})')
                if p.node_id in ids:
                    return run.violation('C11.dup_id', f'{where}: node id {p.node_id.hex()[:16]} twice')
                ids.add(p.node_id)
                a = (p.address, p.udp_port)
                if a in addrs:
                    return run.violation('C11.dup_addr', f'{where}: address {a} twice')
                addrs.add(a)
        for b in bs:
            for p in b.peers:
                try:
                    got = table.get_peer(p.node_id)
                except Exception as e:  # noqa
                    return run.violation('C11.get_peer', f'{where}: get_peer raised {type(e).__name__}')
                if got is not p:
                    return run.violation('C11.get_peer', f'{where}: get_peer does not find a stored contact')
        return None

    def check_query(key, count, sender):
        try:
            got = table.find_close_peers(key, count, sender)
        except Exception as e:  # noqa
            return run.violation('C11.exception', f'find_close_peers raised {type(e).__name__}: {e}',
                                 where='find_close_peers', exc=type(e).__name__)
        kint = int.from_bytes(key, 'big')
        exp = [p for p in contacts() if p.node_id != own and p.node_id != sender]
        exp.sort(key=lambda p: int.from_bytes(p.node_id, 'big') ^ kint)
        exp = exp[:(count or K)]
        run.probes['query'] += 1
        if [p.node_id for p in got] != [p.node_id for p in exp]:
            return run.violation('C11.closest', f'find_close_peers(count={count}) returned {len(got)} contacts '
                                 f'{[p.node_id.hex()[:8] for p in got]} expected {[p.node_id.hex()[:8] for p in exp]}')
        return None

    # -------- operations -------------------------------------------------------------------------
    pending = []

    async def do_add(node_id, addr_i, delay, tag):
        address, port = _addr(addr_i)
        try:
            peer = make_kademlia_peer(node_id, address, port)
        except ValueError:
            return
        before = {p.node_id: (p.address, p.udp_port) for p in contacts()}
        nb_before = len(table.buckets)
        others = sorted(dist_of(i) for i, a in before.items() if i != node_id and a != (address, port))
        del probe_log[:]
        probe.delay = delay
        try:
            result = await table.add_peer(peer, probe)
        except (asyncio.TimeoutError, RemoteException) as e:
            run.probes['add_raised_probe_exc'] += 1
            result = None
            run.ev(tag, 'raised', type(e).__name__)
        except Exception as e:  # noqa
            run.ev(tag, 'exception', type(e).__name__)
            if seq:
                run.violation('C11.exception', f'add_peer raised {type(e).__name__}: {e}',
                              where='add_peer', exc=type(e).__name__)
            else:
                run.probes['conc_add_exception_' + type(e).__name__] += 1
            return
        after = {p.node_id: (p.address, p.udp_port) for p in contacts()}
        run.ev(tag, node_id.hex()[:12], addr_i, result, len(after), len(table.buckets))
        if len(table.buckets) > nb_before:
            run.probes['split'] += 1
        if node_id in before and before[node_id] != (address, port) and after.get(node_id) == (address, port):
            run.probes['readd_same_id'] += 1
        if any(a == (address, port) and i != node_id for i, a in before.items()):
            run.probes['same_addr_purge'] += 1
        if not seq:
            return
        if result is True and after.get(node_id) != (address, port):
            run.violation('C11.true_but_absent', 'add_peer returned True but the contact is not in the table')
        failed = {(k, i) for k, i, ok in probe_log if not ok}
        for i, a in before.items():
            if i not in after and i != node_id and a != (address, port):
                run.probes['displace_checked'] += 1
                if (a, i) in failed:
                    run.probes['replaced'] += 1
                else:
                    run.violation('C11.displaced_live', f'contact {i.hex()[:12]}@{a} vanished during add_peer of a '
                                  f'newcomer at {(address, port)} without failing a probe')
        moved = node_id in before and before[node_id] != (address, port)
        if moved:
            # the node id of a known contact is claimed from another address: the known contact may only go if it
            # stopped answering (anyone can put a public node id into a datagram)
            old = before[node_id]
            run.probes['same_id_other_addr_checked'] += 1
            if after.get(node_id) != old:
                if (old, node_id) in failed:
                    run.probes['moved_after_failed_probe'] += 1
                else:
                    run.violation('C11.displaced_live', f'contact {node_id.hex()[:12]}@{old} was replaced by the same node '
                                  f'id claimed from {(address, port)} without failing a probe (now: {after.get(node_id)})',
                                  same_id=True)
            else:
                run.probes['same_id_claim_refused_known_alive'] += 1
        d = dist_of(node_id)
        if d != 0 and not (moved and after.get(node_id) == before[node_id]):
            must = len(others) < K or d < others[K - 1]
            if must:
                run.probes['admit_checked'] += 1
                if after.get(node_id) != (address, port) or result is not True:
                    run.violation('C11.not_admitted', f'newcomer at distance {hex(d)} closer than the K-th closest '
                                  f'known contact was not admitted (result={result}, known={len(others)})')

    async def driver():
        for n, op in enumerate(scenario['ops']):
            kind = op['op']
            nb = len(table.buckets)
            if kind == 'add':
                node_id = id_from(op['id'])
                coro = do_add(node_id, op['addr'] % n_addr, op.get('delay', 0.0), f'add#{n}')
                if seq:
                    await coro
                else:
                    pending.append(asyncio.ensure_future(coro))
                    await asyncio.sleep(0)
            elif kind == 'readd':
                p = pick(op['pick'])
                if p is not None:
                    coro = do_add(p.node_id, op['addr'] % n_addr, op.get('delay', 0.0), f'readd#{n}')
                    if seq:
                        await coro
                    else:
                        pending.append(asyncio.ensure_future(coro))
                        await asyncio.sleep(0)
            elif kind == 'same_addr_new_id':
                p = pick(op['pick'])
                if p is not None and (p.address, p.udp_port) in addr_index:
                    if op.get('near'):
                        d = dist_of(p.node_id) ^ 1 or 2
                    else:
                        d = op['dist'] % SPACE or 1
                    nid = (d ^ own_int).to_bytes(48, 'big')
                    coro = do_add(nid, addr_index[(p.address, p.udp_port)], op.get('delay', 0.0), f'sani#{n}')
                    if seq:
                        await coro
                    else:
                        pending.append(asyncio.ensure_future(coro))
                        await asyncio.sleep(0)
            elif kind == 'remove':
                p = pick(op['pick'])
                if op.get('ghost') or p is None:
                    p = make_kademlia_peer(id_from(['dist', int(op['pick'] * SPACE) or 1]), '9.9.9.9', 4444)
                try:
                    table.remove_peer(p)
                except Exception as e:  # noqa
                    run.ev('remove', 'exception', type(e).__name__)
                    run.violation('C11.exception', f'remove_peer raised {type(e).__name__}: {e}',
                                  where='remove_peer', exc=type(e).__name__)
                else:
                    run.ev('remove', p.node_id.hex()[:12], len(table.buckets))
                    if len(table.buckets) < nb:
                        idx_kind = 'join'
                        run.probes[idx_kind] += 1
            elif kind in ('replied', 'failed', 'kill', 'revive'):
                p = pick(op['pick'])
                if kind in ('kill', 'revive'):
                    i = int(op['pick'] * n_addr) % n_addr
                    if p is not None and kind == 'kill':
                        i = addr_index.get((p.address, p.udp_port), i)
                    alive[i] = kind == 'revive'
                    run.faults[kind] += 1
                    run.ev(kind, i)
                elif p is not None:
                    (pm.report_last_replied if kind == 'replied' else pm.report_failure)(p.address, p.udp_port)
                    run.ev(kind, p.node_id.hex()[:12])
            elif kind == 'advance':
                if seq:
                    loop.advance(op['dt'])
                else:
                    await asyncio.sleep(op['dt'])
                run.faults['clock_advance'] += 1
                run.ev('advance', op['dt'])
            elif kind == 'query':
                key = id_from(op['key']) if op['key'][0] == 'bnd' else (op['key'][1] % SPACE).to_bytes(48, 'big')
                sender = None
                if op.get('sender') == 'pick':
                    p = pick(op['pick'])
                    sender = p.node_id if p else None
                elif op.get('sender') == 'unknown':
                    sender = (int(op['pick'] * SPACE) % SPACE).to_bytes(48, 'big')
                if check_query(key, op.get('count'), sender):
                    return
            if check_structure(f'after op {n} ({kind})'):
                return
            if run.violations:
                return
        if pending:
            await asyncio.wait(pending)
            check_structure('at quiescence')
        # final sweep of queries against brute force
        qr = run.rng('final.queries')
        for _ in range(4):
            if run.violations:
                break
            check_query(qr.getrandbits(384).to_bytes(48, 'big'), qr.choice([None, 3, 8]), None)

    # join kinds are observed by wrapping the bound method on the instance (observation only)
    orig_join = table._join_buckets

    def observed_join():
        empties = [i for i, b in enumerate(table.buckets) if len(b) == 0]
        if len(table.buckets) > 1 and empties:
            i = empties[0]
            run.probes['join_middle' if 0 < i < len(table.buckets) - 1 else 'join_edge'] += 1
        return orig_join()
    table._join_buckets = observed_join

    try:
        run.drive(driver())
    except (SimBudget, SimIdle):
        pass
    run.nontrivial = run.probes['split'] > 0 and (run.probes['probe_ok'] + run.probes['probe_fail'] +
                                                  run.probes['join_middle'] + run.probes['join_edge']) > 0
    run.finish()
    return run.result()


def _signature(table):
    return tuple((b.range_min, b.range_max, len(b.peers)) for b in table.buckets)
