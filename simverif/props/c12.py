"""C12 — DHT network: announced blobs findable until expiry (with paging), lookups terminate and
yield only valid results under loss / dead / hostile nodes (DESIGN.md §7 C12).

SUT: 2..40 real lbry.dht.node.Node objects (KademliaProtocol, iterative finders, data store, ping
queue, routing table, peer manager) on the simulated datagram network.  Stub: UDP, storage=None.
"""
import asyncio

from simverif.core import env
from simverif.core.run import Run, SimBudget, SimIdle
from simverif.core.rng import stream

ID = 'C12'
LEVEL = 'exploration'
TIERS = {'quick': {'runs': 240}, 'thorough': {'seconds': 900}}
DET_PAIRS_PER_SLOT = 1
MAX_BUDGET_FRACTION = 0.02
RULE = ("one run = one seeded DHT network of real Nodes on a simulated datagram network. family `hit`: "
        "loss-free honest network of 2..40 nodes joining through a bootstrap node in seeded order with one-way "
        "latency up to 2 s, duplication and reordering; after settling 1..3 nodes announce a blob and every other "
        "node looks it up at seeded ages before and after the 24 h expiry (clock jumps or continuous time). family "
        "`paging`: 2..4 real nodes plus 1..100 thin announcers storing on one node, another node must find all. "
        "In 60 % of paging runs the searching nodes announce the blob themselves. In 30 % of `hit` runs one announcer "
        "is configured with an odd blob port (65535, 1024, 1023, 80, 1): an unusable port forfeits that announcer's own "
        "hit guarantee, every other announcer is judged as always. "
        "30 % of `faulty` runs are tiny networks (2..4 nodes) in which EVERY other node is hostile (the scripted reply is the "
        "last outstanding probe; behaviours biased to alias_honest / key_as_id / endless_pages / endless_closer). A "
        "yielded contact must have replied under its node id from its host. "
        "family `faulty`: 6..30 nodes, then datagram loss 0..60 %, dead and hostile subsets (31 scripted reply "
        "rewrites); node and value lookups must end within RPC_TIMEOUT x (find requests sent + 1) and yield only "
        "valid results. Non-trivial = at least one lookup judged; distinct = distinct event-trace digest.")
COMPONENTS = {
    'real': ['lbry.dht.node.Node', 'lbry.dht.protocol.protocol.KademliaProtocol/KademliaRPC/RemoteKademliaRPC/PingQueue',
             'lbry.dht.protocol.iterative_find.*', 'lbry.dht.protocol.data_store.DictDataStore',
             'lbry.dht.protocol.routing_table.*', 'lbry.dht.peer.PeerManager', 'lbry.dht.serialization.*'],
    'stub': ['UDP sockets (SimDatagramNet: seeded latency/loss/duplication/reordering, dead nodes)',
             'node storage (None)', 'thin announcers and hostile reply rewriting (harness)', 'event loop (SimLoop)'],
}
ASSUMPTIONS = [
    'hit guarantee asserted only in the loss-free honest family with round trip below the 5 s RPC timeout; a quarter of those '
    'runs are YOUNG networks (every node joined, but only 15..200 s ago); thin announcers of the paging family sit at the far '
    'end of the id space (a real announcer is not closer to the hash than the nodes it stores on)',
    'a lookup is judged `must hit` only if it ended before announce start + 24 h - 60 s, `must miss` only if it started after announce end + 24 h',
    'fabricated contacts are silent addresses unless the behaviour says otherwise (alias_honest: a live honest node; key_as_id, '
    'endless_closer: the hostile node itself); endless_pages / endless_closer never run out of fresh material',
    'a clock jump at quiescence is a legal fault (stalled process / NTP step)',
]
EXPECTED_PROBES = ['lookup_must_hit', 'lookup_must_miss', 'lookup_indeterminate', 'announce_ok', 'stored_on_all_k_closest',
                   'paging_checked', 'paging_multi_page', 'faulty_node_lookup', 'faulty_value_lookup', 'jump_24h',
                   'two_node_network', 'big_network', 'hostile_reply_seen', 'lookup_with_dead_nodes', 'reannounced',
                   'must_hit_only_by_reannouncement', 'node_lookup_32', 'hit_after_heal', 'polling_settle']

RPC_TIMEOUT = 5.0
EXPIRY = 86400.0


def _gen_base(run_seed, tier):
    r = stream('C12.gen', run_seed)
    fam = r.choices(['hit', 'paging', 'faulty', 'heal'], [5, 3, 4, 1.5])[0]
    sc = {'family': fam, 'id_seed': r.getrandbits(32), 'split_under': r.choice([1, 1, 1, 2]), 'hostile': {},
          'hostile_rate': 1.0}
    big = tier == 'thorough'
    if fam == 'hit':
        n = r.choice([2, 2, 3, 4, 5, 8, 9, 10, 12, 16, 20] + ([28, 40] if big or r.random() < 0.15 else []))
        sc['n'] = n
        sc['net'] = {'latency': [0.001, r.choice([0.02, 0.3, 1.0, 2.0])], 'dup': r.choice([0.0, 0.05, 0.2]),
                     'slow_prob': r.choice([0.0, 0.1]), 'slow_extra': 0.3, 'loss': 0.0}
        ops = [{'op': 'join', 'node': 0, 'wait': 0.0}]
        order = list(range(1, n))
        r.shuffle(order)
        for i in order:
            ops.append({'op': 'join', 'node': i, 'wait': r.choice([0.0, 0.0, 0.5, 3.0, 30.0])})
        settle = {'op': 'sleep', 'dt': r.choice([620, 900, 1500])}
        if r.random() < 0.3:
            # a busy network: from the moment they join, nodes keep looking things up (well inside the 300 s
            # "maybe ping" delay), as a daemon with active downloads does
            settle['dt'] = r.choice([1500, 2400, 3600])
            settle['poll'] = {'every': r.choice([60, 120, 240]), 'blob': r.getrandbits(384)}
        ops.append(settle)
        n_ann = 1 if n < 4 else r.choice([1, 1, 2, 3])
        announcers = r.sample(range(n), n_ann)
        blob = r.getrandbits(384)
        for a in announcers:
            ops.append({'op': 'announce', 'node': a, 'blob': blob, 'wait': r.choice([0.0, 1.0, 20.0])})
        others = [i for i in range(n)]
        r.shuffle(others)
        for i in others[:r.choice([n, n, max(1, n // 2)])]:
            ops.append({'op': 'lookup', 'node': i, 'blob': blob, 'wait': r.choice([0.0, 0.0, 2.0, 30.0])})
        if r.random() < 0.35:
            # re-announcement: the age that counts is that of the LATEST announcement
            first_age = r.choice([20 * 3600, 23 * 3600, 12 * 3600])
            ops.append({'op': 'jump', 'dt': first_age})
            for a in announcers:
                ops.append({'op': 'announce', 'node': a, 'blob': blob, 'wait': r.choice([0.0, 1.0])})
            # now older than 24 h w.r.t. the first announcement, younger w.r.t. the latest
            ops.append({'op': 'jump', 'dt': 86400 - first_age + r.choice([600, 3600, 3 * 3600])})
            r.shuffle(others)
            for i in others[:r.choice([n, max(1, n // 2), 3])]:
                ops.append({'op': 'lookup', 'node': i, 'blob': blob, 'wait': r.choice([0.0, 0.0, 1.0])})
            ops.append({'op': 'jump', 'dt': first_age + r.choice([600, 4000])})
            r.shuffle(others)
            for i in others[:r.choice([n, max(1, n // 2), 3])]:
                ops.append({'op': 'lookup', 'node': i, 'blob': blob, 'wait': r.choice([0.0, 0.0, 1.0])})
            sc['ops'] = ops
            return sc
        continuous = big and n <= 8 and r.random() < 0.1
        age = r.choice([3600, 40000, 86400 - 900, 86400 - 400])
        ops.append({'op': 'sleep' if continuous else 'jump', 'dt': age})
        r.shuffle(others)
        for i in others[:r.choice([n, max(1, n // 2), 3])]:
            ops.append({'op': 'lookup', 'node': i, 'blob': blob, 'wait': r.choice([0.0, 0.0, 1.0])})
        ops.append({'op': 'jump', 'dt': 86400 - age + r.choice([30, 120, 700, 4000])})
        r.shuffle(others)
        for i in others[:r.choice([n, max(1, n // 2), 3])]:
            ops.append({'op': 'lookup', 'node': i, 'blob': blob, 'wait': r.choice([0.0, 0.0, 1.0])})
        sc['ops'] = ops
    elif fam == 'heal':
        # recovery once faults stop: loss and dead nodes for a while, then a loss-free honest network again.
        # Termination and validity of every lookup are judged as everywhere; whether announcements are findable
        # again is only observed (probes hit_after_heal / miss_after_heal)
        n = r.choice([3, 5, 8, 10, 12, 16])
        sc['n'] = n
        sc['net'] = {'latency': [0.001, r.choice([0.02, 0.3])], 'dup': r.choice([0.0, 0.1]), 'loss': 0.0}
        ops = [{'op': 'join', 'node': 0, 'wait': 0.0}]
        for i in range(1, n):
            ops.append({'op': 'join', 'node': i, 'wait': r.choice([0.0, 0.5, 5.0])})
        ops.append({'op': 'sleep', 'dt': r.choice([620, 900])})
        ops.append({'op': 'faults_on', 'loss': r.choice([0.2, 0.5, 0.8, 1.0]),
                    'dead': r.sample(range(1, n), r.choice([0, 1, max(1, n // 3)]))})
        ops.append({'op': 'sleep', 'dt': r.choice([120, 600, 1500, 4000])})
        ops.append({'op': 'faults_off'})
        ops.append({'op': 'sleep', 'dt': r.choice([1800, 3600, 7300])})
        blob = r.getrandbits(384)
        a = r.randrange(n)
        ops.append({'op': 'announce', 'node': a, 'blob': blob, 'wait': 0.0})
        others = list(range(n))
        r.shuffle(others)
        for i in others[:r.choice([n, max(1, n // 2)])]:
            ops.append({'op': 'lookup', 'node': i, 'blob': blob, 'wait': r.choice([0.0, 1.0, 30.0])})
        sc['ops'] = ops
    elif fam == 'paging':
        n = r.choice([2, 2, 3, 4])
        sc['n'] = n
        sc['net'] = {'latency': [0.001, r.choice([0.02, 0.2])], 'dup': r.choice([0.0, 0.1]), 'loss': 0.0}
        ops = [{'op': 'join', 'node': i, 'wait': 0.0} for i in range(n)]
        ops.append({'op': 'sleep', 'dt': 620})
        blob = r.getrandbits(384)
        cnt = r.choice([1, 2, 7, 8, 9, 15, 16, 17, 24, 25, 40, 64, 72, 73, 80, 81, 88, 89, 90, 96, 97, 98, 99, 100,
                        r.randint(1, 100), r.randint(1, 100)])
        target = r.randrange(n)
        ops.append({'op': 'thin_announce', 'count': cnt, 'target': target, 'blob': blob})
        lookers = [i for i in range(n) if i != target]
        # the searching nodes may hold the blob themselves: their own announcement then sits in the storing node's
        # peer list, somewhere among the pages (own stream: earlier histories are unchanged)
        r2 = stream('C12.gen.paging_self', run_seed)
        if r2.random() < 0.6:
            mine = [{'op': 'announce', 'node': i, 'blob': blob} for i in lookers if r2.random() < 0.8]
            if r2.random() < 0.5:
                ops[-1:-1] = mine
            else:
                ops.extend(mine)
            sc['searcher_announces'] = bool(mine)
        for i in lookers:
            ops.append({'op': 'lookup', 'node': i, 'blob': blob, 'wait': 1.0, 'expect_thin': True})
        sc['ops'] = ops
    else:
        n = r.choice([6, 8, 10, 12, 16, 20] + ([30] if big or r.random() < 0.2 else []))
        sc['n'] = n
        sc['net'] = {'latency': [0.001, r.choice([0.02, 0.3, 1.0])], 'dup': r.choice([0.0, 0.1]), 'loss': 0.0}
        from simverif.core.dhtenv import HOSTILE_BEHAVIOURS
        n_h = r.choice([0, 1, 2, max(1, n // 4), max(1, n // 2)])
        hostile = r.sample(range(1, n), min(n - 1, n_h))
        mode = r.choice(['mixed', 'single', 'single', 'far'])
        if mode == 'far':
            # a third of the nodes pad their genuine answers with made-up far contacts; searches that ask for more
            # than the K closest results are the ones that can expose un-probed contacts
            hostile = r.sample(range(1, n), max(1, n // 3))
        for h in hostile:
            sc['hostile'][str(h)] = 'mixed' if mode == 'mixed' else 'append_far_fabricated' if mode == 'far' else \
                r.choice(HOSTILE_BEHAVIOURS)
        sc['hostile_rate'] = r.choice([1.0, 0.7, 0.3])
        ops = [{'op': 'join', 'node': 0, 'wait': 0.0}]
        for i in range(1, n):
            ops.append({'op': 'join', 'node': i, 'wait': r.choice([0.0, 0.5, 5.0])})
        ops.append({'op': 'sleep', 'dt': r.choice([400, 620, 900])})
        ops.append({'op': 'faults_on', 'loss': r.choice([0.0, 0.1, 0.3, 0.6]),
                    'dead': r.sample(range(n), r.choice([0, 1, n // 5, n // 2]))})
        blob = r.getrandbits(384)
        for _ in range(r.choice([3, 6, 10])):
            kind = r.choice(['node', 'node32', 'node32', 'value', 'value', 'announce'] if mode != 'far' else
                            ['node32', 'node32', 'node32', 'node'])
            ops.append({'op': 'lookup' if kind != 'announce' else 'announce', 'kind': kind, 'node': r.randrange(n),
                        'blob': blob if r.random() < 0.6 else r.getrandbits(384), 'wait': r.choice([0.0, 1.0, 10.0, 100.0]),
                        'faulty': True})
        sc['ops'] = ops
        # tiny networks in which EVERY other node is hostile: the scripted reply is then the last outstanding probe of
        # the lookup, the position from which nothing else can drive the search forward (own stream)
        r3 = stream('C12.gen.small_hostile', run_seed)
        if r3.random() < 0.3:
            n = sc['n'] = r3.choice([2, 2, 3, 4])
            beh = r3.choice(['mixed', 'mixed'] + HOSTILE_BEHAVIOURS +
                            ['endless_closer', 'endless_pages', 'alias_honest', 'key_as_id'] * 4)
            sc['hostile'] = {str(h): beh for h in range(1, n)}
            sc['hostile_rate'] = r3.choice([1.0, 1.0, 0.7])
            sc['net'] = {'latency': [0.001, r3.choice([0.02, 0.3])], 'dup': r3.choice([0.0, 0.1]), 'loss': 0.0}
            ops = [{'op': 'join', 'node': i, 'wait': 0.0} for i in range(n)]
            ops.append({'op': 'sleep', 'dt': r3.choice([60, 400, 620])})
            ops.append({'op': 'faults_on', 'loss': 0.0, 'dead': []})
            for _ in range(r3.choice([3, 6])):
                kind = r3.choice(['node', 'node32', 'value', 'value', 'announce'])
                ops.append({'op': 'lookup' if kind != 'announce' else 'announce', 'kind': kind, 'node': 0,
                            'blob': blob if r3.random() < 0.6 else r3.getrandbits(384),
                            'wait': r3.choice([0.0, 1.0, 10.0]), 'faulty': True})
            sc['ops'] = ops
            sc['small_hostile'] = True
    return sc


def gen(run_seed, tier):
    sc = _gen_base(run_seed, tier)
    # configurations: the blob (tcp) port a node announces.  KademliaPeer - and so every searcher that decodes a peer
    # page - accepts 1024..65535; a node configured below that, or exactly at 65535, is a legal configuration of the
    # announcer whose consequences must stay with that announcer (own stream)
    rp = stream('C12.gen.tcp_ports', run_seed)
    if sc['family'] == 'hit' and rp.random() < 0.3:
        ann = [op for op in sc['ops'] if op['op'] == 'announce']
        if ann:
            first = ann[0]
            odd = rp.choice([65535, 65535, 1024, 1023, 80, 1])
            nodes = sorted({op['node'] for op in ann})
            victim = rp.choice(nodes)
            sc['tcp_ports'] = {str(victim): odd}
            if not 1024 <= odd <= 65535 and len(nodes) == 1 and sc['n'] >= 3:
                # an announcer with an ordinary port for the same blob, announced BEFORE the odd one: it must stay
                # findable whatever the odd announcement does
                other = rp.choice([i for i in range(sc['n']) if i != victim])
                idx = sc['ops'].index(first)
                sc['ops'].insert(idx, {'op': 'announce', 'node': other, 'blob': first['blob'], 'wait': 0.0})
    # a YOUNG network: every node has joined (its own `joined` flag is set), but only seconds to minutes ago - well
    # inside the five minutes a node waits before it pings a newcomer that sent it a request (own stream)
    ry = stream('C12.gen.young', run_seed)
    if sc['family'] == 'hit' and ry.random() < 0.25:
        for k, op in enumerate(sc['ops']):
            if op['op'] == 'sleep':
                sc['ops'][k] = {'op': 'sleep', 'dt': ry.choice([15, 40, 100, 200])}
                sc['ops'].insert(k, {'op': 'await_joined'})
                sc['young'] = True
                break
    # paging while the set still grows: more announcers store on the same node DURING the lookups (own stream)
    rg = stream('C12.gen.paging_growing', run_seed)
    if sc['family'] == 'paging' and rg.random() < 0.4:
        for k, op in enumerate(sc['ops']):
            if op['op'] == 'lookup':
                ta = next(o for o in sc['ops'] if o['op'] == 'thin_announce')
                sc['ops'].insert(k, {'op': 'thin_announce_bg', 'count': rg.choice([3, 8, 13, 20]), 'target': ta['target'],
                                     'blob': ta['blob'], 'start_in': round(rg.choice([0.9, 1.0, 1.02, 1.05, 1.1]), 3),
                                     'every': rg.choice([0.01, 0.03, 0.1])})
                sc['growing'] = True
                break
    return sc


def shrink(sc):
    net = sc.get('net', {})
    if net.get('dup'):
        yield dict(sc, net=dict(net, dup=0.0))
    if net.get('slow_prob'):
        yield dict(sc, net=dict(net, slow_prob=0.0))
    if net.get('latency', [0, 0])[1] > 0.02:
        yield dict(sc, net=dict(net, latency=[0.001, 0.02]))
    for h in list(sc.get('hostile', {})):
        hh = dict(sc['hostile'])
        del hh[h]
        yield dict(sc, hostile=hh)
    for i, op in enumerate(sc['ops']):
        if op['op'] == 'thin_announce' and op['count'] > 1:
            for c in (op['count'] // 2, op['count'] - 1):
                ops = list(sc['ops'])
                ops[i] = dict(op, count=c)
                yield dict(sc, ops=ops)
        if op.get('wait'):
            ops = list(sc['ops'])
            ops[i] = dict(op, wait=0.0)
            yield dict(sc, ops=ops)


def _public_v4(ip):
    parts = ip.split('.')
    if len(parts) != 4 or not all(p.isdigit() and 0 <= int(p) <= 255 and str(int(p)) == p for p in parts):
        return False
    a, b = int(parts[0]), int(parts[1])
    if a in (0, 10, 127) or a >= 224:
        return False
    if (a == 172 and 16 <= b <= 31) or (a == 192 and b == 168) or (a == 169 and b == 254):
        return False
    return True


def execute(scenario, keep_trace=False):
    run = Run(scenario, keep_trace)
    run_dht(scenario, run, monitor=False)
    run.finish()
    return run.result()


def run_dht(scenario, run, monitor=False, corrupt_factory=None, max_steps=12_000_000):
    env.import_lbry()
    from lbry.utils import aclosing
    from simverif.core.dhtenv import DhtWorld, ThinAnnouncer, node_addr

    loop = run.new_loop(max_steps=max_steps, max_vtime=400_000)
    world = DhtWorld(run, loop, scenario.get('net'), monitor=monitor)
    world.hostile_rate = scenario.get('hostile_rate', 1.0)
    n = scenario['n']
    idr = run.rng('node.ids', scenario.get('id_seed', 0))
    ids = [idr.getrandbits(384).to_bytes(48, 'big') for _ in range(n)]
    id_to_index = {ids[i]: i for i in range(n)}
    fam = scenario.get('family', 'hit')
    started = set()
    announces = {}      # blob int -> list of dict(node, start, end, stored_to)
    # 28..40 nodes joining at once over links of up to a second one way: see known finding C12-young-network (the
    # same five-minute verification delay keeps such a network sparse well past ten minutes)
    big_slow = n >= 28 and float((scenario.get('net') or {}).get('latency', [0, 0])[1]) >= 1.0
    def far_id(key, tr):
        # announcers are ordinary peers somewhere in the id space, NOT nodes that happen to be closer to the blob's hash
        # than the node they store on (a real announcer stores on the closest nodes it finds): their ids are taken from
        # the far end, so that a storing node stays inside the searcher's window of closest contacts
        return (int.from_bytes(key, 'big') ^ (((1 << 384) - 1) ^ tr.getrandbits(300))).to_bytes(48, 'big')

    thin = {}           # blob int -> list of ThinAnnouncer
    background = []     # harness tasks that keep announcing while lookups run
    judged = [0]
    if corrupt_factory is not None:
        world.corrupt = corrupt_factory(world)
    if n == 2:
        run.probes['two_node_network'] += 1
    if n >= 20:
        run.probes['big_network'] += 1

    def ensure_node(i):
        if i >= n or i < 0:
            return None
        if world.nodes[i] if i < len(world.nodes) else None:
            return world.nodes[i]
        return world.add_node(i, ids[i], bootstrap=(i == 0), split_under=scenario.get('split_under', 1),
                              tcp_port=(scenario.get('tcp_ports') or {}).get(str(i)))

    async def value_lookup(node, key):
        found = []
        async with aclosing(node.get_iterative_value_finder(key)) as vf:
            async for peers in vf:
                found.extend(peers)
        return found

    async def timed(coro, node_i):
        addr = world.addr_of[node_i]
        before = world.requests_by_node.get(addr, 0)
        t0 = loop.time()
        task = loop.create_task(coro)
        waited = 0.0
        while True:
            done, _ = await asyncio.wait([task], timeout=2.0)
            waited += 2.0
            sent = world.requests_by_node.get(addr, 0) - before
            # a lookup that keeps issuing probes without ever finishing (e.g. re-probing contacts it has already
            # asked) is as stuck as one that waits for ever; the finite network bounds the distinct contacts
            if done or waited >= 4000.0 or sent > 1500 + 30 * n + 20 * min(len(world.fabricated), 300) or world.net.storm:
                break
        if not done:
            task.cancel()
            await asyncio.sleep(0)
            return None, loop.time() - t0, world.requests_by_node.get(addr, 0) - before, t0
        return task, loop.time() - t0, world.requests_by_node.get(addr, 0) - before, t0

    def check_bound(what, node_i, dur, reqs):
        bound = RPC_TIMEOUT * (reqs + 1) + 0.5
        run.ev(what, node_i, round(dur, 4), reqs)
        if dur > bound:
            run.violation('C12.lookup_too_slow', f'{what} by node {node_i} took {dur:.2f}s with only {reqs} find '
                          f'requests sent (bound {bound:.1f}s)', what=what)
            return False
        return True

    async def driver():
        for n_op, op in enumerate(scenario['ops']):
            if run.violations:
                return
            kind = op['op']
            if op.get('wait'):
                await asyncio.sleep(op['wait'])
            if kind == 'join':
                i = op['node']
                if i in started or ensure_node(i) is None:
                    continue
                started.add(i)
                world.start_node(i, [0] if i != 0 else [])
                if str(i) in scenario.get('hostile', {}):
                    world.hostile[world.addr_of[i]] = scenario['hostile'][str(i)]
                run.ev('join', i)
            elif kind == 'sleep':
                # the join / refresh lookups running in the background are iterative lookups too: one that never
                # finishes shows as a node issuing find requests without end (a settled node sends a few hundred)
                base = dict(world.requests_by_node)
                left = float(op['dt'])
                pollers = []
                if op.get('poll'):
                    pkey = (op['poll']['blob'] % (1 << 384)).to_bytes(48, 'big')

                    async def poller(node, offset):
                        await asyncio.sleep(offset)
                        while True:
                            try:
                                await value_lookup(node, pkey)
                            except Exception:  # noqa  (a poll is load, not a judged lookup)
                                pass
                            await asyncio.sleep(op['poll']['every'])
                    pr = run.rng('poll', n_op)
                    for j in sorted(started):
                        pollers.append(loop.create_task(poller(world.nodes[j], pr.random() * op['poll']['every'])))
                    run.probes['polling_settle'] += 1
                while left > 0 and not run.violations:
                    await asyncio.sleep(min(2.0, left))
                    left -= 2.0
                    if world.net.storm:
                        run.violation('C12.lookup_runaway', f'more than {world.net.cfg.get("max_in_flight", 20000)} datagrams in flight '
                                      f'in a network of {n}: lookups spawn probes without bound', what='storm')
                        break
                    for addr, cnt in world.requests_by_node.items():
                        if cnt - base.get(addr, 0) > 1500 + 30 * n + 100 * op['dt'] / 3600.0 + \
                                (40 * op['dt'] / op['poll']['every'] if op.get('poll') else 0):
                            run.violation('C12.lookup_runaway', f'node {world.index_of.get(addr)} issued {cnt - base.get(addr, 0)} find '
                                          f'requests within {op["dt"] - max(left, 0):.0f}s of background operation in a network of {n}: '
                                          f'an iterative lookup that does not terminate', what='background')
                            break
                for t in pollers:
                    t.cancel()
                if pollers:
                    await asyncio.sleep(6.0)
                run.ev('sleep', op['dt'], world.net.sent)
            elif kind == 'jump':
                # clock jump at (near) quiescence: let in-flight datagrams land first
                await asyncio.sleep(12.0)
                loop.advance(op['dt'])
                run.faults['clock_jump'] += 1
                if op['dt'] > 80000:
                    run.probes['jump_24h'] += 1
                await asyncio.sleep(30.0)
                run.ev('jump', op['dt'], world.net.sent)
            elif kind == 'faults_on':
                world.net.cfg['loss'] = op.get('loss', 0.0)
                for d in op.get('dead', []):
                    if d in started:
                        world.net.dead.add(world.addr_of[d])
                        run.faults['node_dead'] += 1
                run.ev('faults_on', op.get('loss'), sorted(op.get('dead', [])))
            elif kind == 'faults_off':
                world.net.cfg['loss'] = 0.0
                run.faults['healed'] += 1
                world.net.dead.clear()
                run.ev('faults_off')
            elif kind == 'announce':
                i = op['node']
                if i not in started:
                    continue
                node = world.nodes[i]
                key = (op['blob'] % (1 << 384)).to_bytes(48, 'big')
                task, dur, reqs, t0 = await timed(node.announce_blob(key.hex()), i)
                if task is None:
                    run.violation('C12.lookup_stuck', f'announce_blob by node {i} did not finish (gave up after {dur:.0f}s and {reqs} find requests)', what='announce')
                    return
                if task.exception() is not None:
                    run.ev('announce', i, 'raised', type(task.exception()).__name__)
                    if not op.get('faulty') and fam != 'faulty':
                        run.violation('C12.announce_failed', f'announce_blob raised {task.exception()!r} in the fault-free family')
                    continue
                stored_to = task.result()
                run.ev('announce', i, len(stored_to), round(dur, 3))
                if str(i) in (scenario.get('tcp_ports') or {}):
                    run.probes['announce_odd_tcp_port_%d' % node.protocol.peer_port] += 1
                if not 1024 <= node.protocol.peer_port <= 65535:
                    # not an address any searcher can use: no hit guarantee for THIS announcer (being refused is fine),
                    # the other announcers of the blob are judged as always
                    run.probes['announce_unusable_tcp_port'] += 1
                    continue
                if fam == 'faulty':
                    # announce = node lookup + find_value/store RPC pairs (each bounded by the RPC timeout)
                    check_bound('announce', i, dur, reqs + 2)
                    continue
                rec = {'node': i, 'start': t0, 'end': loop.time(), 'stored_to': stored_to}
                announces.setdefault(op['blob'], []).append(rec)
                if not stored_to and len(started) > 1 and fam != 'heal':
                    run.violation('C12.announce_stored_nowhere', f'announce_blob by node {i} stored on no node '
                                  f'in a loss-free honest network of {len(started)}', young=bool(scenario.get('young')), big_slow=big_slow)
                    return
                my = (world.addr_of[i][0], node.protocol.peer_port)
                for nid in stored_to:
                    j = id_to_index.get(nid)
                    holder = world.nodes[j] if j is not None else None
                    held = holder is not None and any(
                        (p.address, p.tcp_port) == my
                        for p in holder.protocol.data_store.filter_expired_peers(key))
                    if not held:
                        run.violation('C12.store_not_held', f'node {j} was reported as storing the announcement of '
                                      f'node {i} but does not hold it')
                        return
                run.probes['announce_ok'] += 1
                kint = int.from_bytes(key, 'big')
                closest = sorted((j for j in started if j != i), key=lambda j: int.from_bytes(ids[j], 'big') ^ kint)[:8]
                stored_idx = set(id_to_index.get(x) for x in stored_to)
                if stored_idx == set(closest):
                    run.probes['stored_on_all_k_closest'] += 1
                else:
                    run.probes['stored_not_exactly_k_closest'] += 1
                # "stored on nodes closest to its hash": the lookup is heuristic (exactly the K closest in 8047 of
                # 8048 settled announcements of a thorough batch), so only a gross miss is a violation, and only in the
                # never-faulted family (after a long outage a node's table is legitimately sparse for a while)
                if fam == 'hit' and len(stored_idx & set(closest)) * 2 < min(len(stored_idx), len(closest)):
                    run.violation('C12.stored_far_from_hash', f'announce_blob by node {i} stored on nodes '
                                  f'{sorted(x for x in stored_idx if x is not None)} but the {len(closest)} nodes closest to '
                                  f'the hash are {closest}', young=bool(scenario.get('young')), big_slow=big_slow)
                    return
            elif kind == 'await_joined':
                for _ in range(600):
                    if all(world.nodes[j].joined.is_set() for j in started):
                        break
                    await asyncio.sleep(1.0)
                else:
                    run.notes.append('not every node joined within 600 s')
                run.probes['young_network'] += 1
                run.ev('await_joined', round(loop.time(), 1))
            elif kind == 'thin_announce_bg':
                t = op['target']
                if t not in started:
                    continue
                key = (op['blob'] % (1 << 384)).to_bytes(48, 'big')
                tr = run.rng('thin_bg', n_op)
                lst = thin.setdefault(op['blob'], [])
                base = 1000 + len(lst)

                async def grow(op=op, t=t, key=key, tr=tr, lst=lst, base=base):
                    await asyncio.sleep(op.get('start_in', 1.0))
                    for c in range(op['count']):
                        addr = (f"{70 + c // 200}.{1 + c % 200}.{8}.{9}", 5000 + base + c)
                        ta = ThinAnnouncer(world, addr, far_id(key, tr), 7000 + base + c)
                        world.net.attach(addr, ta)
                        try:
                            if await ta.announce(world.addr_of[t], key, tr):
                                ta.done_at = loop.time()
                                lst.append(ta)
                        except asyncio.TimeoutError:
                            pass
                        await asyncio.sleep(op.get('every', 0.03))
                background.append(loop.create_task(grow()))
                run.probes['paging_set_grows_during_lookup'] += 1
                run.ev('thin_announce_bg', op['count'])
            elif kind == 'thin_announce':
                t = op['target']
                if t not in started:
                    continue
                key = (op['blob'] % (1 << 384)).to_bytes(48, 'big')
                tr = run.rng('thin', n_op)
                lst = thin.setdefault(op['blob'], [])
                for c in range(op['count']):
                    addr = (f"{60 + c // 200}.{1 + c % 200}.{7}.{9}", 5000 + c)
                    ta = ThinAnnouncer(world, addr, far_id(key, tr), 6000 + c)
                    world.net.attach(addr, ta)
                    ok = False
                    for _attempt in range(3):
                        try:
                            ok = await ta.announce(world.addr_of[t], key, tr)
                            break
                        except asyncio.TimeoutError:
                            continue
                    if ok:
                        ta.done_at = loop.time()
                        lst.append(ta)
                run.ev('thin_announce', op['count'], len(lst))
                held = list(world.nodes[t].protocol.data_store.filter_expired_peers(key))
                if len(held) < len(lst):
                    run.violation('C12.store_not_held', f'{len(lst)} thin announcers got OK but target holds {len(held)}')
                    return
            elif kind == 'lookup':
                i = op['node']
                if i not in started:
                    continue
                node = world.nodes[i]
                key = (op['blob'] % (1 << 384)).to_bytes(48, 'big')
                faulty = fam == 'faulty'
                if world.addr_of[i] in world.net.dead:
                    continue   # a dead node does not run lookups
                if world.net.dead:
                    run.probes['lookup_with_dead_nodes'] += 1
                if op.get('kind') in ('node', 'node32'):
                    if op.get('kind') == 'node32':
                        # the join path asks for up to 32 results; the default path hides all but the K closest
                        task, dur, reqs, t0 = await timed(node.peer_search(key, count=32, max_results=32), i)
                        run.probes['node_lookup_32'] += 1
                    else:
                        task, dur, reqs, t0 = await timed(node.peer_search(key), i)
                    if task is None:
                        run.violation('C12.lookup_stuck', f'peer_search by node {i} did not finish (gave up after {dur:.0f}s and {reqs} find requests)', what='node')
                        return
                    if task.exception() is not None:
                        run.violation('C12.lookup_raised', f'peer_search raised {task.exception()!r}',
                                      exc=type(task.exception()).__name__)
                        return
                    run.probes['faulty_node_lookup'] += 1
                    judged[0] += 1
                    if not check_bound('node_lookup', i, dur, reqs):
                        return
                    replied = world.replied_from.get(world.addr_of[i], set())
                    for p in task.result():
                        if p.node_id == ids[i]:
                            run.violation('C12.yielded_self', f'node lookup by node {i} yielded the searching node itself')
                            return
                        if p.address not in replied:
                            run.violation('C12.yielded_unreplied', f'node lookup by node {i} yielded {p.address}:'
                                          f'{p.udp_port} from which no response was ever delivered to it',
                                          fabricated=p.node_id in world.fabricated, alias=False)
                            return
                        # a contact is a node id AT an address: some response from that host must have carried that id
                        # (a made-up id paired with a live node's address is a contact that never replied)
                        if p.node_id not in world.replied_ids.get(world.addr_of[i], {}).get(p.address, ()):
                            run.violation('C12.yielded_unreplied', f'node lookup by node {i} yielded contact '
                                          f'{p.node_id.hex()[:12]}@{p.address}:{p.udp_port}; that host did reply, but never '
                                          f'under this node id', fabricated=p.node_id in world.fabricated, alias=True)
                            return
                    continue
                task, dur, reqs, t0 = await timed(value_lookup(node, key), i)
                if task is None:
                    run.violation('C12.lookup_stuck', f'value lookup by node {i} did not finish (gave up after {dur:.0f}s and {reqs} find requests)', what='value')
                    return
                if task.exception() is not None:
                    run.violation('C12.lookup_raised', f'value lookup raised {task.exception()!r}',
                                  exc=type(task.exception()).__name__)
                    return
                found = task.result()
                judged[0] += 1
                if not check_bound('value_lookup', i, dur, reqs):
                    return
                for p in found:
                    if not (_public_v4(p.address) and isinstance(p.tcp_port, int) and 0 < p.tcp_port < 65536
                            and isinstance(p.node_id, bytes) and len(p.node_id) == 48):
                        run.violation('C12.malformed_peer', f'value lookup by node {i} yielded '
                                      f'{p.address}:{p.tcp_port} id={p.node_id!r}')
                        return
                got = {(p.address, p.tcp_port) for p in found}
                run.ev('found', i, len(got))
                if faulty:
                    run.probes['faulty_value_lookup'] += 1
                    continue
                t_end = loop.time()
                by_announcer = {}
                for rec in announces.get(op['blob'], []):
                    by_announcer.setdefault(rec['node'], []).append(rec)
                for a, recs in sorted(by_announcer.items()):
                    if a == i:
                        continue
                    me = (world.addr_of[a][0], world.nodes[a].protocol.peer_port)
                    latest = recs[-1]
                    if len(recs) > 1:
                        run.probes['reannounced'] += 1
                    if t_end < latest['start'] + EXPIRY - 60:
                        # younger than 24 h with respect to the latest announcement of that node
                        if fam == 'heal':
                            # recovery after an outage is NOT promised by the statement (its premise is a network that
                            # was loss-free all along): observed and counted, never a violation.  Seen on the unchanged
                            # tree: 3 nodes, 50 % loss with one node dead for 1500 s - afterwards a node that still knows
                            # one live peer never re-bootstraps, so the bootstrap node can stay unknown to it
                            run.probes['hit_after_heal' if me in got else 'miss_after_heal'] += 1
                            continue
                        run.probes['lookup_must_hit'] += 1
                        if len(recs) > 1 and t0 > recs[0]['end'] + EXPIRY:
                            run.probes['must_hit_only_by_reannouncement'] += 1
                        if me not in got:
                            run.violation('C12.miss_before_expiry', f'value lookup by node {i} at age '
                                          f'{t0 - latest["end"]:.0f}s (of the latest of {len(recs)} announcements) did not '
                                          f'return announcer node {a} (network of {len(started)}, found {len(got)})',
                                          n=len(started), reannounced=len(recs) > 1, young=bool(scenario.get('young')), big_slow=big_slow)
                            return
                    elif all(t0 > rec['end'] + EXPIRY for rec in recs):
                        run.probes['lookup_must_miss'] += 1
                        if me in got:
                            run.violation('C12.hit_after_expiry', f'value lookup by node {i} at age '
                                          f'{t0 - latest["end"]:.0f}s still returned announcer node {a}')
                            return
                    else:
                        run.probes['lookup_indeterminate'] += 1
                if op.get('expect_thin'):
                    # every announcer whose store was acknowledged before this lookup began
                    want = {(t.addr[0], t.tcp_port) for t in thin.get(op['blob'], []) if getattr(t, 'done_at', 0.0) <= t0}
                    run.probes['paging_checked'] += 1
                    if any(rec['node'] == i for rec in announces.get(op['blob'], [])):
                        run.probes['paging_searcher_is_announcer'] += 1
                    if len(want) > 8:
                        run.probes['paging_multi_page'] += 1
                    missing = want - got
                    if missing:
                        run.violation('C12.paging_incomplete', f'{len(want)} announcers stored on one node, lookup by '
                                      f'node {i} returned {len(want) - len(missing)} of them', stored=len(want))
                        return
        run.probes['hostile_reply_seen'] += sum(v for k, v in run.faults.items() if k.startswith('hostile_'))
        # observation only (no clause of the statement): background ping traffic.  A host that answers every request
        # from another port than it listens on made the first version of the repair of DESIGN 14 row 24 ping it for
        # ever (about 37 pings a second per node); the amended repair treats another port of the same host as an update
        if loop.time() > 100 and any(c > 5 * loop.time() for c in world.pings_by_node.values()):
            run.probes['ping_rate_above_5_per_second'] += 1
            run.notes.append(f'ping runaway: {sorted(world.pings_by_node.values())[-3:]} pings in {loop.time():.0f}s')

    try:
        run.drive(driver())
    except (SimBudget, SimIdle):
        pass
    finally:
        world.stop_all()
    run.nontrivial = judged[0] > 0
    return world
