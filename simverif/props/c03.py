"""C03 — transaction funding conserves value, pays a bounded fee and returns change (DESIGN.md §7 C03).

One run = one wallet (1..2 accounts, one fee rate / name-fee rate / coin-selection strategy) and a
sequential history of fund / create / release / broadcast operations against the real
Ledger + Database + Account + Transaction.create stack (see simverif/core/walletenv.py).
Oracles O1..O7 are evaluated by the harness' own reference model and size arithmetic.
"""
from simverif.core import env
from simverif.core.run import Run, SimBudget, SimIdle
from simverif.core.rng import stream
from simverif.core import walletenv as W

ID = 'C03'
LEVEL = 'exploration'
TIERS = {'quick': {'runs': 4000}, 'thorough': {'seconds': 600}}
DET_PAIRS_PER_SLOT = 3
RULE = ("one run = one seeded wallet history: 1..2 HD (or single-key) accounts, fee_per_byte in {0,1,10,50,100,1000}, "
        "fee_per_name_char in {0,1e3,2e5,1e6}, one of the 7 strategy names conf allows or None; 1..6 funding "
        "transactions (confirmed / mempool, amounts drawn around the spend fee, DUST and cost_of_change or well "
        "above them) followed by 4..14 operations: create (1..6 requested outputs in quick, up to 250 in thorough: "
        "payments, claims, supports, purchases, script payments; amounts absolute or steered so that the deficit "
        "equals the effective sum of all / a subset / one available output plus a small delta; optional "
        "pre-chosen inputs; input-only builds), then release / broadcast (recorded as sync would) / hold; later "
        "release/broadcast of held builds; more funding. Layered on that base history by independent PRNG "
        "streams: (dust, 20 % of runs) 3..100 outputs worth less than the fee to spend them next to ordinary ones, "
        "then payments the ordinary ones cover; (prechosen, 20 %) builds whose pre-chosen inputs are plain UNRESERVED "
        "outputs of the funding account (the txo_spend pattern): sweeps and payments the pre-chosen input does not "
        "cover; and 10 % of the runs are boundary histories for the sqlite chooser (funding gaps of 1..11 dewies, "
        "outputs of 10**14-1..10**17 dewies, costs covered exactly or with less than one change-output fee to "
        "spare); (purchase, 25 %, on either kind of history) 1..3 RECEIVED purchase payments - output 0 of a purchase "
        "transaction, filed as txo_type purchase by the real save path - then payments that need them. "
        "Non-trivial = at least two builds of which one succeeded after a coin selection; distinct = "
        "distinct event-trace digest.")
COMPONENTS = {
    'real': ['lbry.wallet.transaction.Transaction.create/pay/claim_create/support/purchase/sign',
             'lbry.wallet.transaction.Input/Output', 'lbry.wallet.coinselection.CoinSelector',
             'lbry.wallet.ledger.Ledger (get_spendable_utxos, reserve/release, fee constants)',
             'lbry.wallet.database.Database + AIOSQLite (sqlite :memory:, sqlite coin chooser, save_transaction_io)',
             'lbry.wallet.account.Account / HierarchicalDeterministic / SingleKey (real key derivation, signing)',
             'lbry.wallet.wallet.Wallet', 'lbry.wallet.header.Headers(:memory:)'],
    'stub': ['network (never connected; broadcast is modelled by recording the transaction as the sync path does)',
             'thread/process pools (SimLoop inline executor with scheduler-drawn completion delays)',
             'CoinSelector seed (drawn from the run PRNG instead of the kernel)',
             'Ledger constants network_name/checkpoints (simnet, no checkpoints)'],
}
ASSUMPTIONS = [
    'sqlite commits are atomic; every executor job runs inline at a scheduler-drawn virtual instant',
    'pre-chosen inputs are reserved by the caller before Transaction.create, as Account.fund(everything) does, '
    'except in `pre_unreserved` builds, which hand in plain unreserved outputs as daemon.jsonrpc_txo_spend does and '
    'are released or broadcast right after the build (never held)',
    'domain: <= 250 inputs/outputs per transaction; refusal exactness (O7) is judged on the available outputs worth '
    'more than the fee to spend them (outputs below it neither help nor hurt); closest_match / random_draw used '
    'alone need one output / the total to reach the deficit plus one change-output fee; not asserted for '
    'branch_and_bound used alone',
    'ECDSA signatures are low-S DER (coincurve), hence never longer than the 72-byte placeholder',
]
EXPECTED_PROBES = ['build_ok', 'build_refused', 'change_output_present', 'no_change_surplus', 'exact_no_change',
                   'excess_eq_bound', 'refusal_exact_checked', 'refusal_near_boundary', 'multi_round_build',
                   'preselected_inputs', 'input_only_build', 'out_claim', 'out_support', 'out_purchase',
                   'name_fee_dominates', 'released', 'broadcast', 'later_release_or_broadcast',
                   'two_account_funding', 'change_on_new_address', 'unconfirmed_input_used', 'api_call',
                   'inputs_ge_5', 'spent_change_of_earlier_build', 'o7_with_dust_present', 'sqlite_margin_refusal',
                   'sqlite_tiny_deficit', 'sqlite_huge_output_available', 'prechosen_unreserved_build',
                   'purchase_output_spent', 'o7_with_purchase_outputs']

DUST = W.DUST


# ---------------------------------------------------------------------------------------------------
# generation
# ---------------------------------------------------------------------------------------------------

def _gen_fund(r, rate, regime, n_accounts, heavy):
    n = r.choice([1, 1, 2, 3, 4, 6]) if not heavy else r.choice([20, 60, 120])
    equal = r.random() < 0.2
    base = W.gen_amount(r, rate, regime)
    outs = []
    for _ in range(n):
        amount = base if equal else W.gen_amount(r, rate, regime)
        outs.append([1 if r.random() < 0.15 else 0, r.randrange(12), amount])
    return {'op': 'fund', 'acct': r.randrange(n_accounts), 'outs': outs,
            'height': r.choice([1, 5, 40, 40, 0, -1]), 'gap': r.random() < 0.7}


def _deltas(r, rate):
    m, coc = W.chooser_margin(rate), W.cost_of_change(rate)
    return r.choice([0, 0, -1, 1, -m, -m - 1, -m + 1, -coc, -coc - 1, -coc + 1, -coc - DUST, -coc - DUST - 1,
                     -coc - DUST + 1, -2 * coc, m, coc, 10, 9, -r.randrange(0, 3 * coc + 2 * DUST + 2),
                     r.randrange(0, coc + 2)])


def _gen_create(r, rate, n_accounts, heavy, kinds_w):
    funding = r.choice([[0], [0], [0, 1], [1]]) if n_accounts == 2 else [0]
    op = {'op': 'create', 'funding': funding, 'change': r.choice(funding + funding + [r.randrange(n_accounts)]),
          'sign': r.random() < 0.85, 'api': r.random() < 0.25,
          'then': r.choices(['hold', 'release', 'broadcast'], [3, 3, 4])[0],
          'bheight': r.choice([0, 0, -1, 50]), 'gap': r.random() < 0.6}
    shape = r.choices(['outputs', 'input_only', 'pre_and_outputs'], [8, 2, 2])[0]
    if shape == 'input_only':
        op['outputs'] = []
        op['pre'] = r.choice(['all', None, [r.random()], [r.random()], [r.random(), r.random()]])
        return op
    n_out = r.choice([1, 1, 1, 2, 3, 6]) if not heavy else r.choice([50, 120, 249, 250])
    outs = [W.gen_output_spec(r, rate, kinds_w) for _ in range(n_out)]
    steer = r.random() < 0.65
    for o in outs:
        o['amount'] = r.choice([['abs', r.choice([1, DUST, DUST + 1, 10 ** 5, 10 ** 6, 10 ** 8])],
                                ['frac', round(r.choice([0.01, 0.05, 0.1, 0.3, 0.5, 0.9, 1.2]) / n_out, 4)]])
    if steer:
        o = outs[r.randrange(n_out)]
        how = r.choices(['total', 'subset', 'single'], [4, 3, 3])[0]
        if how == 'total':
            o['amount'] = ['total', _deltas(r, rate)]
        elif how == 'subset':
            o['amount'] = ['subset', [round(r.random(), 3) for _ in range(r.choice([2, 2, 3, 5]))], _deltas(r, rate)]
        else:
            o['amount'] = ['single', round(r.random(), 3), _deltas(r, rate)]
    op['outputs'] = outs
    if shape == 'pre_and_outputs':
        op['pre'] = [round(r.random(), 3) for _ in range(r.choice([1, 1, 2, 4]))]
    return op


def gen(run_seed, tier):
    r = stream('C03.gen', run_seed)
    thorough = tier == 'thorough'
    rate = r.choice([50, 50, 50, 50, 1, 10, 100, 1000, 0])
    n_accounts = r.choice([1, 1, 2])
    regime = r.choice(['plain', 'plain', 'boundary', 'boundary', 'small', 'dusty'])
    heavy = thorough and r.random() < 0.06
    kinds_w = r.choice([[10, 0, 0, 0, 0], [6, 2, 1, 1, 1], [3, 3, 2, 2, 1]])
    ops = []
    for _ in range(r.randint(1, 5)):
        ops.append(_gen_fund(r, rate, regime, n_accounts, heavy))
    if heavy:
        ops.append(_gen_fund(r, rate, regime, n_accounts, True))
    for _ in range(r.choice([4, 6, 8, 10]) if not heavy else 3):
        k = r.choices(['create', 'fund', 'release', 'broadcast'], [10, 2, 1, 2])[0]
        if k == 'create':
            ops.append(_gen_create(r, rate, n_accounts, heavy, kinds_w))
        elif k == 'fund':
            ops.append(_gen_fund(r, rate, regime, n_accounts, False))
        else:
            ops.append({'op': k, 'pick': round(r.random(), 3), 'bheight': r.choice([0, -1, 60]), 'gap': r.random() < 0.6})
    sc = {'family': 'seq', 'fee_per_byte': rate, 'fee_per_name_char': r.choice([0, 0, 1000, 200000, 10 ** 6]),
          'strategy': r.choice(W.STRATEGIES), 'n_accounts': n_accounts, 'regime': regime,
          'gaps': r.choice([[20, 6, 1], [20, 6, 1], [5, 2, 1], [3, 1, 1], [4, 2, 2]]),
          'single_key': r.random() < 0.08, 'exec_delay': r.choice([[0.0, 0.0], [0.0, 0.002], [0.001, 0.02]]),
          'ops': ops}
    # ---- a tenth of the runs is a boundary history for the sqlite chooser, drawn from its own stream ----------
    rs = stream('C03.gen.sqlite_bounds', run_seed)
    features = []
    if rs.random() < 0.10 and not heavy:
        sc = _gen_sqlite_bounds(rs, sc)
        features.append('sqlite_bounds')
    else:
        # ---- features appended to the base history; each owns its PRNG stream, the base prefix stays what it was
        rd = stream('C03.gen.dust', run_seed)
        if rd.random() < 0.20 and not heavy:
            features.append('dust')
            _append_dust(rd, sc, rate, n_accounts)
        rp = stream('C03.gen.prechosen', run_seed)
        if rp.random() < 0.20 and not heavy:
            features.append('prechosen')
            _append_prechosen(rp, sc, rate, n_accounts)
    rq = stream('C03.gen.purchase_funds', run_seed)
    if rq.random() < 0.25 and not heavy:
        features.append('purchase')
        _append_purchase_funds(rq, sc, sc['fee_per_byte'], sc['n_accounts'])
    if features:
        sc['family'] = 'seq+' + '+'.join(features)
    return sc


def _append_purchase_funds(r, sc, rate, n_accounts):
    """Payments RECEIVED for paid content: output 0 of a purchase transaction, which the real save path files as
    txo_type 'purchase' (spendable by the wallet's own definition), then payments that need them."""
    coc = W.cost_of_change(rate)
    acct = r.randrange(n_accounts)
    for _ in range(r.choice([1, 2, 3])):
        sc['ops'].append({'op': 'fund', 'acct': acct, 'purchase': True, 'height': r.choice([40, 40, 5, 0]), 'gap': True,
                          'outs': [[0, r.randrange(12), r.choice([10 ** 8, 3 * 10 ** 8, 5 * 10 ** 8, 10 ** 9])]]})
    for _ in range(r.choice([1, 2, 3])):
        amount = r.choice([['total', -r.randrange(0, 4 * coc + 2)], ['total', -r.randrange(0, 4 * coc + 2)],
                           ['frac', 0.9], ['frac', 0.5], ['abs', 10 ** 8]])
        sc['ops'].append({'op': 'create', 'funding': [acct], 'change': acct, 'sign': r.random() < 0.5, 'api': False,
                          'then': r.choice(['release', 'release', 'broadcast']), 'bheight': 0, 'gap': True,
                          'outputs': [{'k': 'pay', 'ext': r.randrange(1000), 'amount': amount}]})


def _append_dust(r, sc, rate, n_accounts):
    """Outputs worth less than the fee to spend them (dust attack / tiny tips) next to ordinary ones, then
    payments the ordinary outputs cover."""
    sf = W.spend_fee(rate)
    acct = r.randrange(n_accounts)
    n = r.choice([3, 10, 30, 100])
    tiny = [r.choice([1, 1, 2, DUST, max(1, sf // 2), max(1, sf - 1), max(1, sf)]) for _ in range(n)]
    sc['ops'].append({'op': 'fund', 'acct': acct, 'outs': [[0, r.randrange(12), a] for a in tiny],
                      'height': r.choice([40, 40, 0]), 'gap': True})
    if r.random() < 0.7:        # make sure something ordinary is there too
        sc['ops'].append({'op': 'fund', 'acct': acct, 'height': 40, 'gap': True,
                          'outs': [[0, r.randrange(12), r.choice([10 ** 6, 10 ** 7, 10 ** 8]) + sf]
                                   for _ in range(r.choice([1, 1, 3]))]})
    for _ in range(r.choice([1, 2, 3])):
        amount = r.choice([['frac', r.choice([0.1, 0.5, 0.9])], ['total', -r.randrange(0, 4 * W.cost_of_change(rate) + 2)],
                           ['single', round(r.random(), 3), -r.randrange(0, 2 * W.cost_of_change(rate) + 2)]])
        sc['ops'].append({'op': 'create', 'funding': [acct], 'change': acct, 'sign': r.random() < 0.5, 'api': False,
                          'then': r.choice(['release', 'release', 'broadcast']), 'bheight': 0, 'gap': True,
                          'outputs': [{'k': 'pay', 'ext': r.randrange(1000), 'amount': amount}]})


def _append_prechosen(r, sc, rate, n_accounts):
    """Pre-chosen inputs that are plain, unreserved outputs of the funding account (the txo_spend pattern):
    sweeps of small outputs and payments the pre-chosen input does not cover."""
    sf, coc = W.spend_fee(rate), W.cost_of_change(rate)
    acct = r.randrange(n_accounts)
    if r.random() < 0.6:
        sc['ops'].append({'op': 'fund', 'acct': acct, 'height': r.choice([40, 40, 0]), 'gap': True,
                          'outs': [[0, r.randrange(12), a] for a in
                                   [sf + W.BASE_SIZE * rate + 1 + r.randrange(0, coc + DUST), r.choice([10 ** 7, 10 ** 8]),
                                    r.choice([5 * 10 ** 7, 5 * 10 ** 8])][:r.choice([2, 3])]]})
    for _ in range(r.choice([1, 2, 3])):
        op = {'op': 'create', 'funding': [acct], 'change': acct, 'sign': r.random() < 0.5, 'api': False,
              'then': r.choice(['release', 'release', 'broadcast']), 'bheight': 0, 'gap': True, 'pre_unreserved': True,
              'pre': r.choice([['smallest', 1], ['smallest', 1], [round(r.random(), 3)],
                               [round(r.random(), 3), round(r.random(), 3)]])}
        if r.random() < 0.4:
            op['outputs'] = []                  # sweep
        else:
            # the pre-chosen input falls short by about what it is worth itself (or by some other amount)
            amount = r.choice([['pre', -r.randrange(0, W.chooser_margin(rate) + 1)], ['pre', -r.randrange(0, coc + DUST)],
                               ['pre', r.choice([1, coc, 10 ** 5])], ['frac', r.choice([0.3, 0.7])]])
            op['outputs'] = [{'k': r.choice(['pay', 'pay', 'claim']), 'name': 'abc', 'ext': r.randrange(1000),
                              'amount': amount}]
        sc['ops'].append(op)


def _gen_sqlite_bounds(r, base):
    """Boundary histories for the sqlite strategy: funding gaps of a few dewies, outputs of 10**14 dewies and
    more, costs covered exactly or with less than one change-output fee to spare."""
    rate = r.choice([50, 50, 50, 1, 100])
    sf, coc, m = W.spend_fee(rate), W.cost_of_change(rate), W.chooser_margin(rate)
    sub = r.choice(['tiny_deficit', 'huge', 'huge', 'exact', 'mixed'])
    ops = []

    def fund(amounts, height=40):
        ops.append({'op': 'fund', 'acct': 0, 'height': height, 'gap': True,
                    'outs': [[0, r.randrange(12), a] for a in amounts]})

    def create(amount, pre=None, then=None, k='pay'):
        op = {'op': 'create', 'funding': [0], 'change': 0, 'sign': r.random() < 0.4, 'api': False,
              'then': then or r.choice(['release', 'release', 'release', 'broadcast']), 'bheight': r.choice([0, 50]),
              'gap': True, 'outputs': [{'k': k, 'name': 'abc', 'ext': r.randrange(1000), 'amount': amount}]}
        if pre:
            op['pre'] = pre
        ops.append(op)

    huge = [10 ** 14 - 1, 10 ** 14, 10 ** 14 + 1, 3 * 10 ** 14, 10 ** 15, 10 ** 16, 5 * 10 ** 16, 10 ** 17]
    plain = lambda: W.gen_amount(r, rate, 'plain')      # noqa: E731
    if sub in ('tiny_deficit', 'mixed'):
        fund([plain() for _ in range(r.choice([3, 4, 6]))], r.choice([40, 40, 0]))
        for _ in range(r.choice([2, 3])):
            create(['deficit', r.choice([1, 2, 5, 9, 9, 10, 11])], pre=[round(r.random(), 3)],
                   k=r.choice(['pay', 'claim']))
    if sub in ('huge', 'mixed'):
        if sub == 'huge' and r.random() < 0.3:
            fund([plain() for _ in range(r.choice([1, 2]))])
        fund([r.choice(huge) for _ in range(r.choice([1, 1, 2, 3]))], r.choice([40, 40, 0]))
        for _ in range(r.choice([2, 3])):
            create(r.choice([['abs', 10 ** 8], ['abs', 10 ** 8], ['frac', 0.5], ['frac', 0.9],
                             ['total', -r.randrange(0, 3 * coc + DUST)], ['abs', 10 ** 13]]))
    if sub in ('exact', 'mixed'):
        fund([plain() for _ in range(r.choice([2, 3, 5]))], r.choice([40, 40, 0]))
        for _ in range(r.choice([2, 3, 4])):
            d = r.choice([0, 0, -1, -m + 1, -m, -m - 1, -r.randrange(0, m + 1), -r.randrange(0, coc + DUST + 2)])
            create(r.choice([['total', d], ['total', d], ['subset', [round(r.random(), 3), round(r.random(), 3)], d]]))
    return dict(base, family='seq+sqlite_bounds', strategy='sqlite', fee_per_byte=rate, n_accounts=1,
                single_key=False, regime='sqlite_bounds', ops=ops)


def _sqlite_range_schedule(items, target):
    """What the sqlite chooser can accumulate from (amount, effective amount) pairs with its range schedule
    [floor, floor*multiplier): used only to name the reason of a refusal in the violation's site."""
    floor, mult, gap, got = 1, 100, 0, 0
    while got < target and gap < 5 and floor * mult < 9223372036854775807:
        before = got
        got += sum(e for a, e in items if floor <= a < floor * mult)
        floor *= mult
        if got == before:
            gap += 1
            mult **= 2
        else:
            gap, mult = 0, 100
    return got


def shrink(sc):
    if sc.get('n_accounts') == 2:
        yield dict(sc, n_accounts=1)
    if sc.get('single_key'):
        yield dict(sc, single_key=False)
    if sc.get('fee_per_name_char'):
        yield dict(sc, fee_per_name_char=0)
    if sc.get('gaps') != [20, 6, 1]:
        yield dict(sc, gaps=[20, 6, 1])
    if sc.get('exec_delay') != [0.0, 0.0]:
        yield dict(sc, exec_delay=[0.0, 0.0])
    for i, op in enumerate(sc['ops']):
        def rep(new):
            ops = list(sc['ops'])
            ops[i] = new
            return dict(sc, ops=ops)
        if op.get('op') == 'fund' and len(op.get('outs') or []) > 1:
            for j in range(len(op['outs'])):
                yield rep(dict(op, outs=op['outs'][:j] + op['outs'][j + 1:]))
        if op.get('op') == 'create':
            if op.get('pre'):
                yield rep(dict(op, pre=None))
            if op.get('pre_unreserved'):
                yield rep({k: v for k, v in op.items() if k != 'pre_unreserved'})
            if op.get('api'):
                yield rep(dict(op, api=False))
            if op.get('then') != 'hold':
                yield rep(dict(op, then='hold'))
            outs = op.get('outputs') or []
            if len(outs) > 1:
                yield rep(dict(op, outputs=outs[:len(outs) // 2]))
                for j in range(min(len(outs), 8)):
                    yield rep(dict(op, outputs=outs[:j] + outs[j + 1:]))
            for j, o in enumerate(outs[:8]):
                if o.get('k', 'pay') != 'pay' or 'to' in o:
                    new = [dict(x) for x in outs]
                    new[j] = {'k': 'pay', 'ext': o.get('ext', 0), 'amount': o.get('amount')}
                    yield rep(dict(op, outputs=new))


# ---------------------------------------------------------------------------------------------------
# execution
# ---------------------------------------------------------------------------------------------------

def execute(scenario, keep_trace=False):
    env.import_lbry()
    from lbry.error import InsufficientFundsError

    run = Run(scenario, keep_trace)
    ed = scenario.get('exec_delay') or [0.0, 0.002]
    loop = run.new_loop(max_steps=3_000_000, exec_delay=(float(ed[0]), float(ed[1])))
    sim = W.WalletSim(run, scenario, loop)
    rate, name_rate = sim.rate, sim.name_rate
    coc, margin, sf = W.cost_of_change(rate), W.chooser_margin(rate), W.spend_fee(rate)
    run.probes['strategy_' + str(sim.strategy)] += 1
    stats = {'builds': 0, 'ok_after_selection': 0}
    change_ops = set()

    # ---- oracle: successful build ---------------------------------------------------------------------
    def check_success(b, avail_before):
        p = b.parsed
        ins, outs = p['ins'], p['outs']
        n_req = len(b.requested)
        # O1 requested outputs first, unchanged, in order
        if len(outs) < n_req:
            return run.violation('C03.requested_outputs', f'{n_req} outputs requested, transaction has {len(outs)}',
                                 clause='O1')
        for k, (amount, script, _nf) in enumerate(b.requested):
            if outs[k]['amount'] != amount or outs[k]['script'] != script:
                return run.violation('C03.requested_outputs', f'requested output {k} (amount {amount}) appears as '
                                     f'amount {outs[k]["amount"]}, script equal: {outs[k]["script"] == script}',
                                     clause='O1')
        # O2 inputs
        in_ops = [i['op'] for i in ins]
        if len(set(in_ops)) != len(in_ops):
            twice = sorted({op for op in in_ops if in_ops.count(op) > 1})
            pre_set = {u.op for u in b.pre}
            real_in = sum(sim.utxos[op].amount for op in set(in_ops) if op in sim.utxos)
            return run.violation('C03.input_duplicate', f'an outpoint is spent twice in one transaction: {twice[:3]} '
                                 f'(pre-chosen: {[op in pre_set for op in twice][:3]}); distinct inputs are worth '
                                 f'{real_in}, outputs {sum(o["amount"] for o in outs)}, real fee '
                                 f'{real_in - sum(o["amount"] for o in outs)}', clause='O2',
                                 prechosen=any(op in pre_set for op in twice),
                                 pre_reserved=not b.spec.get('pre_unreserved', False))
        pre_ops = [u.op for u in b.pre]
        missing = [op for op in pre_ops if op not in in_ops]
        if missing:
            return run.violation('C03.prechosen_input_dropped', f'pre-chosen inputs {missing} are not spent',
                                 clause='O2')
        added = [op for op in in_ops if op not in set(pre_ops)]
        for op in added:
            if op not in avail_before:
                u = sim.utxos.get(op)
                why = ('unknown' if u is None else 'spent' if u.spent else 'reserved' if u.held_by is not None
                       else 'foreign_account' if u.acct not in b.funding else 'other')
                return run.violation('C03.input_not_spendable', f'added input {op} is {why} in the reference model '
                                     f'(funding accounts {b.funding})', clause='O2', why=why)
        if len(ins) > W.MAX_IO or len(outs) > W.MAX_IO:
            run.probes['domain_over_250_io'] += 1
            return None
        # O3 conservation and fee bounds
        sum_in = sum(sim.utxos[op].amount for op in in_ops)
        sum_out = sum(o['amount'] for o in outs)
        fee = sum_in - sum_out
        name_fees = [b.requested[k][2] if k < n_req else 0 for k in range(len(outs))]
        out_fees = [max(nf, o['size'] * rate) for nf, o in zip(name_fees, outs)]
        out_sizes = sum(o['size'] for o in outs)
        lower = (p['size'] - out_sizes) * rate + sum(out_fees)
        if fee < lower:
            return run.violation('C03.fee_below_minimum', f'inputs {sum_in} - outputs {sum_out} = fee {fee} < '
                                 f'{lower} required for {p["size"]} bytes at rate {rate} (name fees {sum(name_fees)})',
                                 clause='O3')
        placeholder = (W.BASE_SIZE + W.PLACEHOLDER_INPUT * len(ins)) * rate + sum(out_fees)
        excess = fee - placeholder
        bound = coc + DUST if n_req >= 1 else 6 * (coc + 1) + DUST
        if excess > bound:
            return run.violation('C03.fee_excess', f'fee {fee} exceeds the placeholder-size fee {placeholder} by '
                                 f'{excess} > {bound} (cost_of_change {coc}, DUST {DUST}); change outputs: '
                                 f'{len(outs) - n_req}', clause='O3', input_only=n_req == 0)
        # O4 change
        extra = outs[n_req:]
        if len(extra) > 1:
            return run.violation('C03.change_count', f'{len(extra)} outputs were added to the requested ones',
                                 clause='O4')
        if extra:
            h = W.p2pkh_hash(extra[0]['script'])
            if h is None:
                return run.violation('C03.change_script', 'added output is not a pay-to-pubkey-hash', clause='O4')
            address = sim.ledger.hash160_to_address(h)
            known_before = address in sim.addr_info
            if address not in sim.change_chain_addresses(b.change):
                sim.refresh_addresses()
                where = sim.addr_info.get(address)
                return run.violation('C03.change_wrong_chain', f'change pays {address} which is '
                                     f'{"(account %d, chain %d, n %d)" % where if where else "not a wallet address"}'
                                     f', not on the change chain of account {b.change}', clause='O4')
            if extra[0]['amount'] <= DUST:
                return run.violation('C03.change_dust', f'change output of {extra[0]["amount"]} <= DUST', clause='O4')
            run.probes['change_output_present'] += 1
            if not known_before:
                run.probes['change_on_new_address'] += 1
                run.faults['no_usable_change_address'] += 1
        else:
            run.probes['no_change_surplus' if excess > 0 else 'exact_no_change'] += 1
        if excess == coc + DUST:
            run.probes['excess_eq_bound'] += 1
        if excess > coc + DUST:
            run.probes['excess_round_surcharge'] += 1
        # reach probes
        if len(b.calls) >= 2:
            run.probes['multi_round_build'] += 1
        if b.pre:
            run.probes['preselected_inputs'] += 1
        if n_req == 0:
            run.probes['input_only_build'] += 1
            if not outs:
                run.probes['input_only_no_output'] += 1
        if any(nf > o['size'] * rate for nf, o in zip(name_fees, outs)):
            run.probes['name_fee_dominates'] += 1
        if b.change not in b.funding:
            run.probes['change_account_not_funding'] += 1
        if len(b.funding) == 2 and len({sim.utxos[op].acct for op in in_ops}) == 2:
            run.probes['two_account_funding'] += 1
        if any(not sim.utxos[op].confirmed for op in added):
            run.probes['unconfirmed_input_used'] += 1
        if len(ins) >= 5:
            run.probes['inputs_ge_5'] += 1
        if len(outs) >= 50:
            run.probes['outputs_ge_50'] += 1
        if any(op in change_ops for op in in_ops):
            run.probes['spent_change_of_earlier_build'] += 1
        if any(sim.utxos[op].purchase for op in in_ops):
            run.probes['purchase_output_spent'] += 1
        if added:
            stats['ok_after_selection'] += 1
        return None

    # ---- oracle: failed build -----------------------------------------------------------------------
    def check_failure(b, avail_before):
        e = b.exc
        # O6 nothing touched stays reserved
        still = sorted(sim.db_is_reserved(b.touched))
        if still:
            run.violation('C03.reserved_after_failure', f'build failed with {type(e).__name__} but {len(still)} of the '
                          f'{len(b.touched)} outputs it touched are still is_reserved: {still[:4]}', clause='O6',
                          exc=type(e).__name__)
        # O5 only InsufficientFundsError
        if not isinstance(e, InsufficientFundsError):
            return run.violation('C03.unexpected_exception', f'Transaction.create raised {type(e).__name__}: {e} '
                                 f'(strategy {sim.strategy})', exc=type(e).__name__, where=W.exc_where(e))
        if still:
            return True
        run.probes['build_refused'] += 1
        # O7 refusal exactness, strategy relative
        if not b.calls or b.calls[-1]['returned'] != []:
            run.probes['refusal_without_empty_selection'] += 1
            return None
        deficit = b.calls[-1]['amount']
        earlier = set()
        for c in b.calls[:-1]:
            earlier.update(c['returned'] or [])
        avail_all = [u for op, u in avail_before.items() if op not in earlier]
        # "sufficiency is judged on outputs worth more than the fee to spend them"
        avail = [u for u in avail_all if u.amount - sf > 0]
        effs = [u.amount - sf for u in avail]
        dust_present = len(avail) != len(avail_all)
        if dust_present:
            run.probes['o7_with_dust_present'] += 1
        if any(u.purchase for u in avail):
            run.probes['o7_with_purchase_outputs'] += 1
        total = sum(effs)
        s = sim.strategy
        boundary = 'dust' if dust_present else 'none'
        if s in (None, 'standard', 'prefer_confirmed'):
            need = deficit
        elif s == 'only_confirmed':
            total = sum(x for x, u in zip(effs, avail) if u.confirmed)
            need = deficit
        elif s == 'sqlite':
            need = deficit
            if deficit < 10:
                run.probes['sqlite_tiny_deficit'] += 1
            if deficit <= total < deficit + margin:
                run.probes['sqlite_margin_refusal'] += 1
            if any(u.amount >= 10 ** 12 for u in avail):
                run.probes['sqlite_huge_output_available'] += 1
            # which of the chooser's own rules explains the refusal (attribution only, not a relaxation)
            plain_total = sum(x for x, u in zip(effs, avail) if not u.purchase)
            if deficit < 10:
                boundary = 'tiny_deficit'
            elif plain_total < deficit <= total:
                boundary = 'purchase_outputs'   # needs received purchase payments (txo_type purchase)
            elif total < deficit + margin:
                boundary = 'within_change_fee'
                pairs = [(u.amount, u.amount - sf) for u in avail]
                if _sqlite_range_schedule(pairs, deficit) < deficit:
                    boundary += '+range_cut'    # ... and even the bare deficit is out of the scanned ranges
                elif dust_present and sum(u.amount - sf for u in avail_all) < deficit:
                    boundary += '+dust'         # ... and the outputs below their spend fee pull the sum under it
            elif _sqlite_range_schedule([(u.amount, u.amount - sf) for u in avail], deficit + margin) < deficit + margin:
                boundary = 'range_cut'      # the squared range multiplier passed SQLITE_MAX_INTEGER
        elif s == 'closest_match':
            total = max(effs) if effs else 0
            need = deficit + margin
        elif s == 'random_draw':
            need = deficit + margin
        else:
            run.probes['o7_not_asserted_bnb'] += 1
            return None
        wrong = total >= need
        run.probes['refusal_exact_checked'] += 1
        if abs(total - need) <= coc:
            run.probes['refusal_near_boundary'] += 1
        if wrong:
            return run.violation('C03.false_refusal', f'InsufficientFundsError for a deficit of {deficit} although the '
                                 f'outputs strategy {s} may spend are worth {total} >= {need} after their spend fees '
                                 f'({len(avail)} outputs worth more than their spend fee {sf}, '
                                 f'{len(avail_all) - len(avail)} below it, largest {max([u.amount for u in avail] or [0])})',
                                 clause='O7', strategy=str(s), boundary=boundary)
        return None

    # ---- operations ----------------------------------------------------------------------------------
    async def then_phase(b, how, bheight, tag, gap=True):
        if how == 'release':
            await sim.release(b)
            run.probes['released'] += 1
            run.ev(tag, 'released', b.bid)
        elif how == 'broadcast':
            made = await sim.broadcast(b, int(bheight), gap)
            run.probes['broadcast'] += 1
            n_req = len(b.requested)
            for u in made:
                if int(u.op.rsplit(':', 1)[1]) >= n_req:
                    change_ops.add(u.op)
            run.ev(tag, 'broadcast', b.bid, b.tx.height, [(u.op[:10], u.amount) for u in made])

    async def do_create(n, op):
        b = W.Build(n, op)
        await sim.prepare(b)
        avail_before = {u.op: u for u in sim.available(set(b.funding))}
        stats['builds'] += 1
        for spec in b.out_specs:
            if spec.get('k') in ('claim', 'support', 'purchase', 'script'):
                run.probes['out_' + spec['k']] += 1
        if any(u.held_by is not None and u.held_by != b.bid for u in sim.unspent()):
            run.faults['build_while_outputs_held'] += 1
        if any(not u.confirmed for u in avail_before.values()):
            run.faults['unconfirmed_outputs_available'] += 1
        if any(u.amount <= sf for u in avail_before.values()):
            run.faults['dust_outputs_available'] += 1
        if op.get('pre_unreserved') and b.pre:
            run.faults['prechosen_inputs_unreserved'] += 1
        await sim.create(b)
        if b.state == 'failed':
            run.faults['build_failed_' + type(b.exc).__name__] += 1
        if op.get('api') and not b.pre and len(b.out_specs) == 1:
            run.probes['api_call'] += 1
        if not op.get('sign', True):
            run.probes['sign_false'] += 1
        if b.state == 'held' and b.parsed is None:
            e = b.parse_error
            run.ev('create', n, 'unserialisable', type(e).__name__)
            run.violation('C03.unserialisable_result', f'Transaction.create returned a transaction whose raw form '
                          f'cannot be produced/parsed: {type(e).__name__}: {e}', exc=type(e).__name__)
            return
        if b.state == 'held':
            p = b.parsed
            run.ev('create', n, 'ok', b.tx.id[:16], len(p['ins']), len(p['outs']), p['size'],
                   [c['amount'] for c in b.calls])
            run.probes['build_ok'] += 1
            if check_success(b, avail_before):
                return
            sim.settle_model_after_create(b)
            how = op.get('then', 'hold')
            if op.get('pre_unreserved') and b.pre:
                run.probes['prechosen_unreserved_build'] += 1
                if how == 'hold':
                    how = 'release'     # the txo_spend pattern broadcasts or releases at once; nothing is held
            await then_phase(b, how, op.get('bheight', 0), f'then#{n}', op.get('gap', True))
        else:
            run.ev('create', n, 'fail', type(b.exc).__name__, [c['amount'] for c in b.calls], len(b.touched))
            check_failure(b, avail_before)
            sim.settle_model_after_create(b)

    async def audit():
        """The wallet's own view (Account.get_utxos(), is_reserved column) must agree with the history: held
        outputs are not offered, everything else unspent is.  The oracles above rest on exactly this."""
        got = await sim.product_utxos()
        for i in range(sim.n_accounts):
            mine = [u for u in sim.unspent() if u.acct == i]
            offered_held = sorted(u.op for u in mine if u.held_by is not None and u.op in got[i])
            if offered_held:
                return run.violation('C03.utxo_view_mismatch', f'get_utxos() of account {i} offers {offered_held[:3]} '
                                     f'which a built, unreleased transaction holds', what='held_offered')
            missing = sorted(u.op for u in mine if u.held_by is None and u.op not in got[i])
            if missing:
                return run.violation('C03.utxo_view_mismatch', f'get_utxos() of account {i} lacks {missing[:3]}: unspent '
                                     f'and held by no build in the reference model', what='available_missing')
            known = {u.op for u in mine}
            extra = sorted(op for op in got[i] if op not in known)
            if extra:
                return run.violation('C03.utxo_view_mismatch', f'get_utxos() of account {i} returns {extra[:3]} which the '
                                     f'reference model has as spent or does not know', what='spent_or_unknown_offered')
        held = {u.op for u in sim.unspent() if u.held_by is not None}
        db_held = sim.db_reserved_unspent()
        if db_held - held:
            return run.violation('C03.utxo_view_mismatch', f'is_reserved=1 on {sorted(db_held - held)[:3]} which no '
                                 f'build holds', what='reserved_without_holder')
        if held - db_held:
            return run.violation('C03.utxo_view_mismatch', f'is_reserved=0 on {sorted(held - db_held)[:3]} which a '
                                 f'built, unreleased transaction holds', what='held_not_reserved')
        run.ev('audit', sorted((i, len(v)) for i, v in got.items()), len(held))
        return None

    async def driver():
        await sim.open()
        for n, op in enumerate(scenario['ops']):
            kind = op.get('op')
            if kind == 'fund':
                made = await sim.fund(op)
                run.ev('fund', n, [(u.op[:10], u.amount, u.acct, u.height) for u in made])
                if any(u.amount <= sf for u in made):
                    run.probes['dust_utxo_funded'] += 1
            elif kind == 'create':
                await do_create(n, op)
            elif kind in ('release', 'broadcast'):
                held = sorted((b for b in sim.builds.values() if b.state == 'held'), key=lambda b: b.bid)
                if held:
                    b = held[min(len(held) - 1, int(float(op.get('pick', 0)) * len(held)))]
                    await then_phase(b, kind, op.get('bheight', 0), f'later#{n}', op.get('gap', True))
                    run.probes['later_release_or_broadcast'] += 1
            if run.violations:
                return
        await audit()
        await sim.close()

    try:
        run.drive(driver())
    except (SimBudget, SimIdle):
        pass
    run.nontrivial = stats['builds'] >= 2 and stats['ok_after_selection'] >= 1
    run.finish()
    return run.result()
